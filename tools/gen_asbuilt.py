#!/venv/bin/python
"""Rewrite the 'As built' table of DESIGN.md (section 2) from the committed evidence files."""
import json, os, re
VERIF = os.path.dirname(os.path.dirname(os.path.abspath(__file__)))
rows = []
for i in range(1, 21):
    pid = 'C%02d' % i
    ev = json.load(open(os.path.join(VERIF, 'evidence', pid + '.json')))
    c = ev['coverage']
    rows.append('| %s | %d | %d | %d | %d | %d | %s |' % (pid, c['cases'], c['evaluations'], c['states'], c['transitions'], c['distinct_outcomes'], str(c.get('bounds', '')).replace('|', '/')))
p = os.path.join(VERIF, 'DESIGN.md')
s = open(p).read()
head = '| id | cases | evaluations | states | transitions | distinct outcomes | bound completed (quick) |\n|---|---|---|---|---|---|---|\n'
a = s.index(head) + len(head)
b = s.index('\n\n', a)
s = s[:a] + '\n'.join(rows) + s[b:]
open(p, 'w').write(s)
print('as-built table rewritten from evidence (%s tier)' % ev['tier'])
