#!/bin/bash
# usage: tools/mut.sh <dir> -- make a scratch copy of /repo/sedfitter under <dir> (for VERIF_REPO=<dir>)
set -e
rm -rf "$1"; mkdir -p "$1"; cp -r /repo/sedfitter "$1"/; find "$1" -name __pycache__ -prune -exec rm -rf {} +
