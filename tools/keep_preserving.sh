#!/bin/bash
# tools/keep_preserving.sh [-r P|Q] Cxx ... : triage the three behaviour-preserving changes an agent left in /tmp/wt<R>_Cxx/_out/<r>{1,2,3}
R=P; if [ "$1" = "-r" ]; then R=$2; shift 2; fi
r=$(echo $R | tr 'A-Z' 'a-z')
cd "$(dirname "$0")/.."
for p in "$@"; do
  for i in 1 2 3; do
    src=/tmp/wt${R}_$p/_out/$r$i
    [ -f $src/patch.diff ] || { echo "MISSING $src"; continue; }
    tools/try_preserving.py $src $p-$r$i $p --keep 2>&1 | tail -1 | python3 -c "
import json,sys
r=json.loads(sys.stdin.read()); print(r['id'], 'valid' if r['valid'] else 'INVALID %s' % {k:r.get(k) for k in ('applies','suite','demo_clean_rc','demo_patched_rc','demo_patched_tail')}, 'checks', {k:v['rc'] for k,v in r['checks'].items()}, 'ALARMS' if r['alarms'] else '', {k:v['signatures'][:2] for k,v in r['checks'].items() if v['rc']})"
  done
done
