#!/bin/bash
# tools/keep_preserving.sh Cxx ... : triage the three behaviour-preserving changes an agent left in /tmp/wtP_Cxx/_out/p{1,2,3}
cd "$(dirname "$0")/.."
for p in "$@"; do
  for i in 1 2 3; do
    src=/tmp/wtP_$p/_out/p$i
    [ -f $src/patch.diff ] || { echo "MISSING $src"; continue; }
    tools/try_preserving.py $src $p-p$i $p --keep 2>&1 | tail -1 | python3 -c "
import json,sys
r=json.loads(sys.stdin.read()); print(r['id'], 'valid' if r['valid'] else 'INVALID %s' % {k:r.get(k) for k in ('applies','suite','demo_clean_rc','demo_patched_rc','demo_patched_tail')}, 'checks', {k:v['rc'] for k,v in r['checks'].items()}, 'ALARMS' if r['alarms'] else '', {k:v['signatures'][:2] for k,v in r['checks'].items() if v['rc']})"
  done
done
