#!/usr/bin/env python3
"""Regenerate preserving/RESULTS.md from preserving/*/meta.json."""
import glob, json, os
HERE = os.path.dirname(os.path.dirname(os.path.abspath(__file__)))
rows, n_runs, n_alarm = [], 0, 0
for p in sorted(glob.glob(os.path.join(HERE, 'preserving', '*', 'meta.json'))):
    m = json.load(open(p))
    runs = m.get('checks_run', {})
    n_runs += len(runs)
    n_alarm += sum(1 for v in runs.values() if v != 0)
    rows.append('| %s | %s | %s | %s | %s | %s |' % (m['id'], m.get('kind', ''), (m.get('summary') or '').replace('\n', ' ').replace('|', '/')[:300],
                (m.get('observable_differences') or '').replace('\n', ' ').replace('|', '/')[:200], ' '.join('%s:%d' % kv for kv in sorted(runs.items())), ', '.join(m.get('alarms', [])) or '-'))
out = ['# Behaviour-preserving changes and the checks run against them', '',
       'Written by independent sub-agents (one property text and a scratch worktree each, nothing from /verif) asked for changes that keep the property true.',
       'Confirmed with `tools/try_preserving.py`: demo passes on the clean tree, patch applies, repository suite unchanged, demo passes with the patch; then the quick checks of the',
       'property and of every property whose anchored files the patch touches were run against the patched tree (exit status per check below; 0 = no alarm).', '',
       '| id | kind | change | what a strict observer could still notice | checks run (exit) | alarms |', '|---|---|---|---|---|---|'] + rows
out += ['', '%d changes, %d check runs, %d alarms.' % (len(rows), n_runs, n_alarm)]
open(os.path.join(HERE, 'preserving', 'RESULTS.md'), 'w').write('\n'.join(out) + '\n')
print(len(rows), 'changes;', n_runs, 'check runs;', n_alarm, 'alarms')
