#!/bin/bash
# tools/keep_round.sh <round> Cxx ... : triage and keep the three changes an agent left in /tmp/wt<round>_Cxx/_out/m{1,2,3}
r=$1; shift
cd "$(dirname "$0")/.."
for p in "$@"; do
  for i in 1 2 3; do
    src=/tmp/wt${r}_$p/_out/m$i
    [ -f $src/patch.diff ] || { echo "MISSING $src"; continue; }
    tools/keep_mutant.py $src $p-r${r}m$i $p 2>&1 | tail -1 | cut -c1-700
  done
done
