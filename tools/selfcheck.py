#!/venv/bin/python
"""setup_cmd: nothing needs building (pure Python, /repo is imported from its
working tree).  Verifies the interpreter and the imports the checks rely on."""
import os
import sys
sys.path.insert(0, os.path.dirname(os.path.dirname(os.path.abspath(__file__))))
from mc import env
env.own_environment()
import numpy, scipy, astropy, matplotlib  # noqa
from ref import selref  # noqa
env.remove_scratch_root()
print('ok: numpy %s astropy %s scipy %s; sedfitter from %s' % (numpy.__version__, astropy.__version__, scipy.__version__, env.REPO))
