#!/venv/bin/python
"""Triage one seeded change: tools/try_mutant.py <dir with patch.diff, demo.py> <Cxx> [<Cyy> ...] [--tier quick]

In a scratch git worktree of /repo's HEAD (outside /repo and /verif, removed afterwards):
  1. demo.py on the clean tree must exit 0;
  2. the patch must apply; the repository's own suite must give the baseline result;
  3. demo.py with the patch must exit non-zero;
  4. each named check is run with VERIF_REPO pointing at the patched tree (no evidence written).
Prints one JSON summary line.
"""
import json
import os
import re
import shutil
import subprocess
import sys
import tempfile

VERIF = os.path.dirname(os.path.dirname(os.path.abspath(__file__)))
PY = '/venv/bin/python'


def sh(cmd, cwd=None, env=None, timeout=3600):
    r = subprocess.run(cmd, cwd=cwd, env=env, capture_output=True, text=True, timeout=timeout)
    return r.returncode, r.stdout + r.stderr


def suite(wt):
    rc, out = sh([PY, '-m', 'pytest', '-q', '-p', 'no:cacheprovider', '-n', '8', '-x', '--co', '-q'], cwd=wt)
    rc, out = sh([PY, '-m', 'pytest', '-q', '-p', 'no:cacheprovider', '-n', '8', '-rf'], cwd=wt)
    failed = sorted(set(re.findall(r'^FAILED (\S+)', out, re.M)))
    m = re.search(r'(\d+) passed', out)
    return int(m.group(1)) if m else -1, failed, out[-400:]


def main():
    args = [a for a in sys.argv[1:] if not a.startswith('--')]
    tier = 'quick'
    if '--tier' in sys.argv:
        tier = sys.argv[sys.argv.index('--tier') + 1]
        args = [a for a in args if a != tier]
    mdir, props = os.path.abspath(args[0]), args[1:]
    skip_suite = '--skip-suite' in sys.argv
    wt = tempfile.mkdtemp(prefix='tm_', dir='/tmp')
    os.rmdir(wt)
    res = {'mutant': mdir, 'props': {}}
    try:
        import time, random
        for attempt in range(8):
            rc, out = sh(['git', '-C', '/repo', 'worktree', 'add', '--detach', wt, 'HEAD'])
            if rc == 0:
                break
            time.sleep(0.5 + random.random() * 2)
        assert rc == 0, out
        os.makedirs(os.path.join(wt, '_out', 'm'))
        shutil.copy(os.path.join(mdir, 'demo.py'), os.path.join(wt, '_out', 'm', 'demo.py'))
        env = dict(os.environ, PYTHONPATH=wt, PYTHONDONTWRITEBYTECODE='1')
        demo = os.path.join(wt, '_out', 'm', 'demo.py')
        # the demos were written for their own worktree path: rewrite it
        src = open(demo).read()
        src = re.sub(r'/tmp/wt[234567]?_C\d+', wt, src)
        open(demo, 'w').write(src)
        rc, out = sh([PY, demo], cwd=wt, env=env, timeout=900)
        res['demo_clean_rc'] = rc
        if rc != 0:
            res['demo_clean_out'] = out[-600:]
        if not skip_suite:
            base_pass, base_failed, _ = suite(wt)
            res['baseline'] = [base_pass, len(base_failed)]
        rc, out = sh(['git', '-C', wt, 'apply', os.path.join(mdir, 'patch.diff')])
        res['applies'] = (rc == 0)
        if rc != 0:
            res['apply_out'] = out[-400:]
            print(json.dumps(res))
            return
        if not skip_suite:
            p, failed, tail = suite(wt)
            res['suite_with_patch'] = [p, len(failed)]
            res['suite_same_as_baseline'] = (p == base_pass and failed == base_failed)
            if not res['suite_same_as_baseline']:
                res['suite_diff'] = sorted(set(failed) ^ set(base_failed))[:6]
        rc, out = sh([PY, demo], cwd=wt, env=env, timeout=900)
        res['demo_patched_rc'] = rc
        res['demo_patched_tail'] = out.strip().splitlines()[-1][:300] if out.strip() else ''
        for pid in props:
            e = dict(os.environ, VERIF_REPO=wt)
            rc, out = sh([PY, os.path.join(VERIF, 'run_check.py'), pid, '--tier', tier, '--no-evidence', '--brief'], cwd=VERIF, env=e, timeout=7200)
            sigs = re.findall(r'^VIOLATION .*?signature=(\S+) occurrences=(\d+)', out, re.M)
            res['props'][pid] = {'rc': rc, 'signatures': sigs[:8]}
            if rc not in (0, 1):
                res['props'][pid]['out'] = out[-800:]
    finally:
        sh(['git', '-C', '/repo', 'worktree', 'remove', '--force', wt])
        shutil.rmtree(wt, ignore_errors=True)
    print(json.dumps(res))


if __name__ == '__main__':
    main()
