#!/venv/bin/python
"""Worker of tools/coverage_gaps.py: runs slice i of n of one check's case list in this process (no pool), so that
`coverage run -p` sees every line of /repo/sedfitter the check executes.  Diagnostic only; writes no evidence."""
import importlib
import os
import sys

VERIF = os.path.dirname(os.path.dirname(os.path.abspath(__file__)))
sys.path.insert(0, VERIF)
from mc import env, runner  # noqa

prop, i, n, tier = sys.argv[1], int(sys.argv[2]), int(sys.argv[3]), sys.argv[4]
env.own_environment()
mod = importlib.import_module('props.' + prop)
ctx = mod.setup(tier, 0)
cases = list(mod.cases(ctx))
runner._MOD, runner._CTX = mod, ctx
timeout = getattr(mod, 'TIMEOUT', {}).get(tier, 120) * 10
bad = 0
for c in cases[i::n]:
    rec = runner.run_one(mod, ctx, c, timeout)
    bad += len(rec.violations)
env.remove_scratch_root()
print('%s slice %d/%d cases=%d violations=%d' % (prop, i, n, len(cases[i::n]), bad))
