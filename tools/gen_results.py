#!/usr/bin/env python3
"""Regenerate mutants/RESULTS.md from seeded/*/meta.json."""
import glob, json, os
HERE = os.path.dirname(os.path.dirname(os.path.abspath(__file__)))
rows = []
for p in sorted(glob.glob(os.path.join(HERE, 'seeded', '*', 'meta.json'))):
    m = json.load(open(p))
    det = m.get('detected_by', {})
    caught = [k for k, v in det.items() if v.get('exit') == 1]
    missed = [k for k, v in det.items() if v.get('exit') != 1]
    sigs = '; '.join('%s: %s' % (k, ', '.join(v['signatures'][:3])) for k, v in det.items() if v.get('exit') == 1)
    rows.append((m['id'], m.get('breaks_property', ''), (m.get('summary') or '').replace('\n', ' ').replace('|', '/')[:260], (m.get('needs') or '').replace('\n', ' ').replace('|', '/')[:200],
                 ', '.join(caught) or '-', ', '.join(missed) or '-', sigs.replace('|', '/')[:200], m.get('confirmed_on_repo_head', '')))
out = ['# Seeded property-breaking changes and which checks report them', '',
       'Every change was written by an independent sub-agent that saw only the text of one property and a scratch worktree of /repo (nothing from /verif).',
       'Each was confirmed in a fresh scratch worktree of /repo: demo passes on the clean tree, patch applies, the repository suite result is unchanged, demo fails with the patch;',
       'then the named quick checks were run against the patched tree (`tools/try_mutant.py`, `VERIF_REPO=<scratch>`).  Files: `seeded/<id>/{patch.diff,demo.py,meta.json}`.', '',
       '| id | property | change | needs | caught by (quick tier) | not caught by | first signatures | /repo HEAD at confirmation |', '|---|---|---|---|---|---|---|---|']
for r in rows:
    out.append('| ' + ' | '.join(r) + ' |')
n_c = sum(1 for r in rows if r[4] != '-')
out += ['', '%d changes, %d reported by at least one check.' % (len(rows), n_c), '',
        'Not reported by any check (see DESIGN.md sections 4-4d and 5): C16-m2 and C16-r4m2 drop a tabulated wavelength that is exactly equal to a window end. The property says "inside the window", the',
        'docstring says "above this value" and the unchanged code includes a wavelength equal to `wav_min` but excludes one equal to `wav_max`; a window end that coincides with a tabulated wavelength is therefore',
        'treated as ambiguous by C16 and these changes stay inside that margin.  C04-r3m3 and C04-r4m3 need a model that is resolved at every trial distance, which cannot be produced through the package',
        'interface (their authors assigned `Models.extended` by hand).  A change listed as not caught by the check of its own property but caught by another check breaks that other property',
        '(e.g. a `<=` in the too-small-aperture test is reported by C13 and C02, not by the pipeline check C08).']
os.makedirs(os.path.join(HERE, 'mutants'), exist_ok=True)
open(os.path.join(HERE, 'mutants', 'RESULTS.md'), 'w').write('\n'.join(out) + '\n')
print(len(rows), 'rows;', n_c, 'caught')
