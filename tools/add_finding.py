#!/usr/bin/env python3
"""tools/add_finding.py fixed|known <property> <signature> <commit-or-'-'> <what>  -- edit known_findings.json by hand-run only."""
import json, sys, os
p = os.path.join(os.path.dirname(os.path.dirname(os.path.abspath(__file__))), 'known_findings.json')
d = json.load(open(p))
status, prop, sig, commit, what = sys.argv[1:6]
e = {'property': prop, 'status': status, 'signature': sig, 'what': what}
if status == 'fixed':
    e['commit'] = commit
    e['line'] = 'fixed: property=%s %s %s' % (prop, commit, what)
d['findings'].append(e)
json.dump(d, open(p, 'w'), indent=1)
open(p, 'a').write('\n')
