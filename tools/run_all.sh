#!/bin/bash
# tools/run_all.sh [quick|thorough] [seed] -- every claimed check, sequentially; summary at the end
tier=${1:-quick}; seed=${2:-0}
cd "$(dirname "$0")/.."
rc_all=0
for p in C01 C02 C03 C04 C05 C06 C07 C08 C09 C10 C11 C12 C13 C14 C15 C16 C17 C18 C19 C20; do
  s=$(date +%s)
  out=$(VERIF_SEED=$seed /venv/bin/python run_check.py $p --tier $tier --brief 2>&1); rc=$?
  e=$(date +%s)
  echo "$p rc=$rc $((e-s))s $(echo "$out" | grep -E '^(PASS|VIOLATION|HARNESS|KNOWN)' | head -3 | tr '\n' ' ' | cut -c1-200)"
  [ $rc -ne 0 ] && rc_all=1
done
exit $rc_all
