#!/venv/bin/python
"""Re-run tools/try_preserving.py for every kept behaviour-preserving change (preserving/<id>/) against /repo HEAD + patch with the
checks as they are now, and rewrite its meta.json.  tools/refresh_preserving.py [-j N] [ids...]"""
import glob, json, os, subprocess, sys
from concurrent.futures import ThreadPoolExecutor
VERIF = os.path.dirname(os.path.dirname(os.path.abspath(__file__)))
args = sys.argv[1:]
jobs = 3
if '-j' in args:
    jobs = int(args[args.index('-j') + 1]); del args[args.index('-j'):args.index('-j') + 2]
ids = args or sorted(os.path.basename(os.path.dirname(p)) for p in glob.glob(os.path.join(VERIF, 'preserving', '*', 'meta.json')))


def one(sid):
    d = os.path.join(VERIF, 'preserving', sid)
    own = sid.split('-')[0]
    r = subprocess.run([os.path.join(VERIF, 'tools', 'try_preserving.py'), d, sid, own, '--keep'], capture_output=True, text=True)
    try:
        res = json.loads(r.stdout.strip().splitlines()[-1])
    except Exception:
        return sid, 'TRIAGE-ERROR ' + r.stderr[-200:]
    if not res.get('valid'):
        return sid, 'NO-LONGER-VALID %s' % {k: res.get(k) for k in ('applies', 'suite', 'demo_clean_rc', 'demo_patched_rc')}
    return sid, ('ALARMS %s' % {k: v['signatures'][:2] for k, v in res['checks'].items() if v['rc']}) if res['alarms'] else 'quiet (%d checks)' % len(res['checks'])


with ThreadPoolExecutor(jobs) as ex:
    for sid, status in ex.map(one, ids):
        print('%-10s %s' % (sid, status), flush=True)
