#!/venv/bin/python
"""Re-run, against /repo's current HEAD and the current checks, every kept seeded change:
tools/revalidate_seeded.py [-j N] [ids...]  -> one line per change; exit 1 if a change that was caught is no longer caught."""
import json, os, subprocess, sys, glob
from concurrent.futures import ThreadPoolExecutor
VERIF = os.path.dirname(os.path.dirname(os.path.abspath(__file__)))
args = sys.argv[1:]
jobs = 4
if '-j' in args:
    jobs = int(args[args.index('-j') + 1]); del args[args.index('-j'):args.index('-j') + 2]
ids = args or sorted(os.path.basename(os.path.dirname(p)) for p in glob.glob(os.path.join(VERIF, 'seeded', '*', 'meta.json')))


def one(sid):
    d = os.path.join(VERIF, 'seeded', sid)
    meta = json.load(open(os.path.join(d, 'meta.json')))
    props = [p for p, v in meta.get('detected_by', {}).items() if v.get('exit') == 1] or [meta['breaks_property']]
    r = subprocess.run([os.path.join(VERIF, 'tools', 'try_mutant.py'), d] + props + ['--skip-suite'], capture_output=True, text=True)
    try:
        res = json.loads(r.stdout.strip().splitlines()[-1])
    except Exception:
        return sid, 'TRIAGE-ERROR', r.stderr[-300:]
    if not res.get('applies'):
        return sid, 'PATCH-DOES-NOT-APPLY', ''
    caught = [p for p, v in res['props'].items() if v['rc'] == 1]
    return sid, ('caught:' + ','.join(caught)) if caught else 'NOT-CAUGHT', 'demo clean rc=%s patched rc=%s' % (res.get('demo_clean_rc'), res.get('demo_patched_rc'))


bad = 0
with ThreadPoolExecutor(jobs) as ex:
    for sid, status, note in ex.map(one, ids):
        expected_missing = (sid == 'C16-m2')
        flag = '' if (status.startswith('caught') or expected_missing) else '   <<<<<<'
        if flag:
            bad += 1
        print('%-8s %-28s %s%s' % (sid, status, note, flag), flush=True)
sys.exit(1 if bad else 0)
