#!/venv/bin/python
"""Write the prompt files for one round of independent seeded changes: tools/make_round_prompts.py <round-tag> <kinds-file>
-> /tmp/agent<tag>_prompt_Cxx.txt, one per property, for a sub-agent that works in the scratch worktree /tmp/wt<tag>_Cxx.
The agent is given the property text, the summaries of the changes earlier agents produced for it (so that it does not
repeat them) and the emphasis of the round -- nothing about the checks."""
import glob
import json
import os
import sys

VERIF = os.path.dirname(os.path.dirname(os.path.abspath(__file__)))
tag, kinds = sys.argv[1], open(sys.argv[2]).read().strip()
props = [json.loads(l) for l in open(os.path.join(VERIF, 'properties.jsonl'))]
TEMPLATE = open(os.path.join(VERIF, 'tools', 'round_prompt_template.txt')).read()
for p in props:
    pid = p['id']
    prev = []
    for mp in sorted(glob.glob(os.path.join(VERIF, 'seeded', pid + '-*', 'meta.json'))):
        prev.append('  - ' + json.load(open(mp)).get('summary', '')[:260].replace('\n', ' '))
    a = p.get('anchors', {})
    text = TEMPLATE
    rep = {
        '{WT}': '/tmp/wt%s_%s' % (tag, pid), '{PID}': pid, '{TITLE}': p.get('title', ''), '{STATEMENT}': p.get('statement', ''),
        '{QUANT}': p['quantifier']['text'] if isinstance(p.get('quantifier'), dict) else str(p.get('quantifier', '')),
        '{FILES}': ', '.join(a.get('files', [])),
        '{MECH}': '; '.join('%s (%s)' % (m['name'], m['where']) for m in a.get('mechanism', [])),
        '{OBS}': '; '.join(a.get('observe_at', [])), '{KINDS}': kinds, '{PREV}': '\n'.join(prev),
    }
    for k, v in rep.items():
        text = text.replace(k, v)
    open('/tmp/agent%s_prompt_%s.txt' % (tag, pid), 'w').write(text)
    print(pid, len(prev), 'earlier changes listed')
