#!/venv/bin/python
"""Triage one behaviour-preserving change: tools/try_preserving.py <dir with patch.diff, demo.py> <id> <Cxx own property> [--keep]

In a scratch worktree of /repo's HEAD (outside /repo and /verif, removed afterwards): the demo must pass on the clean tree, the
patch must apply, the repository suite must give the baseline result, the demo must still pass; then the quick check of the
property and of every property whose anchored files the patch touches is run with VERIF_REPO pointing at the patched tree.
Every check must exit 0: an exit 1 here is a FALSE ALARM of the machinery (or the change is not behaviour-preserving after
all -- to be decided by reading it).  With --keep the change and the result are stored under /verif/preserving/<id>/."""
import json, os, re, shutil, subprocess, sys, tempfile, time, random
VERIF = os.path.dirname(os.path.dirname(os.path.abspath(__file__)))
PY = '/venv/bin/python'
RELATED = [
    (r'sedfitter/(models|fitting_routines|fit)\.py|sedfitter/source/', ['C01', 'C02', 'C03', 'C04', 'C08', 'C10', 'C11', 'C07']),
    (r'sedfitter/source/', ['C20', 'C05', 'C09', 'C18']),
    (r'sedfitter/fit_info\.py', ['C04', 'C05', 'C09', 'C10', 'C18', 'C19', 'C17', 'C08']),
    (r'sedfitter/convolve/|sedfitter/filter/|sedfitter/utils/integrate', ['C06', 'C07', 'C08', 'C16']),
    (r'sedfitter/convolved_fluxes/', ['C02', 'C07', 'C12', 'C13', 'C16', 'C01']),
    (r'sedfitter/sed/', ['C06', 'C07', 'C12', 'C13', 'C15', 'C16', 'C17']),
    (r'sedfitter/extinction/', ['C14', 'C01', 'C17', 'C10']),
    (r'sedfitter/plot', ['C17', 'C10', 'C09']),
    (r'sedfitter/(write_parameter|extract_parameters)', ['C09', 'C10', 'C08']),
    (r'sedfitter/filter_output', ['C18', 'C10']),
    (r'sedfitter/utils/', ['C01', 'C02', 'C07', 'C13', 'C14', 'C16', 'C08']),
]


def sh(cmd, cwd=None, env=None, timeout=7200):
    r = subprocess.run(cmd, cwd=cwd, env=env, capture_output=True, text=True, timeout=timeout)
    return r.returncode, r.stdout + r.stderr


def suite(wt):
    rc, out = sh([PY, '-m', 'pytest', '-q', '-p', 'no:cacheprovider', '-n', '8', '-rf'], cwd=wt)
    failed = sorted(set(re.findall(r'^FAILED (\S+)', out, re.M)))
    m = re.search(r'(\d+) passed', out)
    return int(m.group(1)) if m else -1, failed


def main():
    keep = '--keep' in sys.argv
    args = [a for a in sys.argv[1:] if not a.startswith('--')]
    src, sid, own = os.path.abspath(args[0]), args[1], args[2]
    patch = open(os.path.join(src, 'patch.diff')).read()
    touched = re.findall(r'^diff --git a/(\S+)', patch, re.M)
    props = [own]
    for pat, ps in RELATED:
        if any(re.search(pat, t) for t in touched):
            props += [p for p in ps if p not in props]
    only = [x for x in os.environ.get('PRESERVING_ONLY', '').split(',') if x]          # re-run only these checks (the others keep their recorded result)
    if only:
        props = [p_ for p_ in props if p_ in only]
    fast = bool(os.environ.get('PRESERVING_FAST'))          # /repo unchanged since the change was validated: skip suite and demonstration
    wt = tempfile.mkdtemp(prefix='tp_', dir='/tmp')
    os.rmdir(wt)
    res = {'id': sid, 'own_property': own, 'touched': touched, 'checks': {}}
    try:
        for attempt in range(8):
            rc, out = sh(['git', '-C', '/repo', 'worktree', 'add', '--detach', wt, 'HEAD'])
            if rc == 0:
                break
            time.sleep(0.5 + random.random() * 2)
        assert rc == 0, out
        os.makedirs(os.path.join(wt, '_out', 'p'))
        demo = os.path.join(wt, '_out', 'p', 'demo.py')
        txt = re.sub(r'/tmp/wt[PQ]_C\d+', wt, open(os.path.join(src, 'demo.py')).read())
        open(demo, 'w').write(txt)
        env = dict(os.environ, PYTHONPATH=wt, PYTHONDONTWRITEBYTECODE='1')
        if fast:
            res['demo_clean_rc'] = 0
        else:
            rc, out = sh([PY, demo], cwd=wt, env=env, timeout=900)
            res['demo_clean_rc'] = rc
            base_pass, base_failed = suite(wt)
        rc, out = sh(['git', '-C', wt, 'apply', os.path.join(src, 'patch.diff')])
        res['applies'] = (rc == 0)
        if rc == 0:
            if fast:
                res['suite'] = {'same': True, 'skipped': True}
                res['demo_patched_rc'] = 0
            else:
                p_, f_ = suite(wt)
                res['suite'] = {'baseline': [base_pass, len(base_failed)], 'patched': [p_, len(f_)], 'same': (p_ == base_pass and f_ == base_failed)}
                rc, out = sh([PY, demo], cwd=wt, env=env, timeout=900)
                res['demo_patched_rc'] = rc
                if rc != 0:
                    res['demo_patched_tail'] = out.strip().splitlines()[-1][:300] if out.strip() else ''
            for pid in props:
                e = dict(os.environ, VERIF_REPO=wt)
                rc, out = sh([PY, os.path.join(VERIF, 'run_check.py'), pid, '--tier', 'quick', '--no-evidence', '--brief'], cwd=VERIF, env=e)
                sigs = re.findall(r'^VIOLATION .*?signature=(\S+) occurrences=(\d+)', out, re.M)
                res['checks'][pid] = {'rc': rc, 'signatures': sigs[:6]}
                if rc == 2:
                    res['checks'][pid]['out'] = out[-600:]
    finally:
        sh(['git', '-C', '/repo', 'worktree', 'remove', '--force', wt])
        shutil.rmtree(wt, ignore_errors=True)
    res['valid'] = bool(res.get('applies') and res.get('suite', {}).get('same') and res.get('demo_clean_rc') == 0 and res.get('demo_patched_rc') == 0)
    res['alarms'] = sorted(p for p, v in res['checks'].items() if v['rc'] != 0)
    if keep and res['valid']:
        dst = os.path.join(VERIF, 'preserving', sid)
        os.makedirs(dst, exist_ok=True)
        if os.path.abspath(src) != os.path.abspath(dst):
            shutil.copy(os.path.join(src, 'patch.diff'), dst)
            shutil.copy(os.path.join(src, 'demo.py'), dst)
        meta = {}
        try:
            meta = json.load(open(os.path.join(src, 'meta.json')))
        except Exception:
            pass
        head = subprocess.run(['git', '-C', '/repo', 'rev-parse', '--short', 'HEAD'], capture_output=True, text=True).stdout.strip()
        runs = dict(meta.get('checks_run', {})) if only else {}
        runs.update({p: v['rc'] for p, v in res['checks'].items()})
        meta.update({'id': sid, 'author': 'independent sub-agent given only the property text and a scratch worktree; asked for a change that keeps the property true',
                     'checked_on_repo_head': head, 'checks_run': runs, 'alarms': sorted(p for p, rc_ in runs.items() if rc_ != 0)})
        json.dump(meta, open(os.path.join(dst, 'meta.json'), 'w'), indent=1)
    print(json.dumps(res))


if __name__ == '__main__':
    main()
