#!/venv/bin/python
"""tools/keep_mutant.py <src dir> <seeded id> <Cxx> [<Cyy>...]: triage with tools/try_mutant.py and, if the change
is valid (applies, suite unchanged, demo passes clean / fails patched), keep it as /verif/seeded/<id>/."""
import json, os, shutil, subprocess, sys
VERIF = os.path.dirname(os.path.dirname(os.path.abspath(__file__)))
src, sid, props = sys.argv[1], sys.argv[2], sys.argv[3:]
r = subprocess.run([os.path.join(VERIF, 'tools', 'try_mutant.py'), src] + props, capture_output=True, text=True)
try:
    res = json.loads(r.stdout.strip().splitlines()[-1])
except Exception:
    print('TRIAGE FAILED', sid, r.stdout[-500:], r.stderr[-500:]); sys.exit(2)
valid = res.get('applies') and res.get('suite_same_as_baseline') and res.get('demo_clean_rc') == 0 and res.get('demo_patched_rc', 0) != 0
dst = os.path.join(VERIF, 'seeded', sid)
if not valid:
    print('INVALID', sid, json.dumps(res)[:600]); sys.exit(1)
os.makedirs(dst, exist_ok=True)
shutil.copy(os.path.join(src, 'patch.diff'), dst)
shutil.copy(os.path.join(src, 'demo.py'), dst)
meta = {}
try:
    meta = json.load(open(os.path.join(src, 'meta.json')))
except Exception:
    pass
head = subprocess.run(['git', '-C', '/repo', 'rev-parse', '--short', 'HEAD'], capture_output=True, text=True).stdout.strip()
meta.update({'id': sid, 'breaks_property': props[0], 'author': 'independent sub-agent given only the property text and a scratch worktree',
             'confirmed_on_repo_head': head,
             'what_i_ran': ['git worktree add --detach <scratch> HEAD (of /repo)', 'demo.py on the clean scratch tree -> exit 0',
                            'git apply patch.diff', 'repository suite (pytest -n 8): %s passed / %s failed, identical failing set to the clean tree' % tuple(res.get('suite_with_patch', ['?', '?'])),
                            'demo.py on the patched tree -> exit %s' % res.get('demo_patched_rc'),
                            'run_check.py <prop> --tier quick with VERIF_REPO=<patched scratch tree>', 'git worktree remove --force <scratch>'],
             'detected_by': {p: {'exit': v['rc'], 'signatures': [s for s, _ in v['signatures']]} for p, v in res['props'].items()}})
json.dump(meta, open(os.path.join(dst, 'meta.json'), 'w'), indent=1)
caught = [p for p, v in res['props'].items() if v['rc'] == 1]
print('KEPT', sid, 'caught by', caught, 'missed by', [p for p in props if p not in caught])
