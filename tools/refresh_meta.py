#!/venv/bin/python
"""Re-run the quick checks named in each seeded/<id>/meta.json against /repo HEAD + patch and rewrite 'detected_by'
(the patch / demo / suite confirmation recorded earlier is kept).  tools/refresh_meta.py [-j N] [ids...]"""
import glob, json, os, subprocess, sys
from concurrent.futures import ThreadPoolExecutor
VERIF = os.path.dirname(os.path.dirname(os.path.abspath(__file__)))
args = sys.argv[1:]
jobs = 4
if '-j' in args:
    jobs = int(args[args.index('-j') + 1]); del args[args.index('-j'):args.index('-j') + 2]
ids = args or sorted(os.path.basename(os.path.dirname(p)) for p in glob.glob(os.path.join(VERIF, 'seeded', '*', 'meta.json')))


def one(sid):
    d = os.path.join(VERIF, 'seeded', sid)
    mp = os.path.join(d, 'meta.json')
    meta = json.load(open(mp))
    props = list(dict.fromkeys([meta['breaks_property']] + list(meta.get('detected_by', {}))))
    r = subprocess.run([os.path.join(VERIF, 'tools', 'try_mutant.py'), d] + props + ['--skip-suite'], capture_output=True, text=True)
    try:
        res = json.loads(r.stdout.strip().splitlines()[-1])
    except Exception:
        return sid, 'TRIAGE-ERROR'
    if not res.get('applies'):
        return sid, 'PATCH-DOES-NOT-APPLY'
    head = subprocess.run(['git', '-C', '/repo', 'rev-parse', '--short', 'HEAD'], capture_output=True, text=True).stdout.strip()
    meta['detected_by'] = {p: {'exit': v['rc'], 'signatures': [s for s, _ in v['signatures']]} for p, v in res['props'].items()}
    meta['detection_checked_on_repo_head'] = head
    meta['demo_on_that_head'] = {'clean_rc': res.get('demo_clean_rc'), 'patched_rc': res.get('demo_patched_rc')}
    json.dump(meta, open(mp, 'w'), indent=1)
    caught = [p for p, v in res['props'].items() if v['rc'] == 1]
    return sid, 'caught:' + ','.join(caught) if caught else 'NOT-CAUGHT'


with ThreadPoolExecutor(jobs) as ex:
    for sid, status in ex.map(one, ids):
        print('%-10s %s' % (sid, status), flush=True)
