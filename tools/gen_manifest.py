#!/venv/bin/python
"""Regenerate /verif/MANIFEST.json from the property modules that exist.

A property is claimed iff props/<id>.py exists and defines CLAIM = True (the
default); everything else is listed under not_applicable with its reason.
"""
import ast
import json
import os
import sys

HERE = os.path.dirname(os.path.dirname(os.path.abspath(__file__)))
PY = '/venv/bin/python'


def consts(path):
    """Module-level string/list/dict constants, without importing the module."""
    out = {}
    tree = ast.parse(open(path).read())
    for node in tree.body:
        if isinstance(node, ast.Assign) and len(node.targets) == 1 and isinstance(node.targets[0], ast.Name):
            try:
                out[node.targets[0].id] = ast.literal_eval(node.value)
            except Exception:
                pass
    return out


def main():
    props = [json.loads(l) for l in open(os.path.join(HERE, 'properties.jsonl'))]
    na_reasons = {}
    p = os.path.join(HERE, 'tools', 'not_applicable.json')
    if os.path.exists(p):
        na_reasons = json.load(open(p))
    checks, na = [], []
    for pr in props:
        pid = pr['id']
        mod = os.path.join(HERE, 'props', pid + '.py')
        c = consts(mod) if os.path.exists(mod) else None
        if c is None or c.get('CLAIM', True) is False:
            na.append({'property_id': pid, 'reason': na_reasons.get(pid, 'check not built yet (work in progress); nothing is claimed for this property')})
            continue
        checks.append({
            'property_id': pid,
            'quick_cmd': '%s run_check.py %s --tier quick' % (PY, pid),
            'thorough_cmd': '%s run_check.py %s --tier thorough' % (PY, pid),
            'evidence_file': 'evidence/%s.json' % pid,
            'replay_cmd_template': '%s run_check.py %s --replay {path}' % (PY, pid),
            'engine': c.get('ENGINE', 'mc'),
            'level_claimed': {'category': c['LEVEL'], 'text': c['LEVEL_TEXT'], 'design_ref': c.get('DESIGN_REF', 'DESIGN.md section 2, ' + pid)},
            'level_note': c['LEVEL_NOTE'],
            'technique': c['TECHNIQUE'],
        })
    man = {
        'version': 1,
        'setup_cmd': '%s tools/selfcheck.py' % PY,
        'hooks': {
            'guard': 'SEDFITTER_VERIF',
            'enable': 'no source hook exists: checks import /repo\'s working tree directly (sys.path) and own the environment from outside (tempfile.tempdir, builtins.input, fresh paths); the guard variable is exported by the runner but read by nothing in /repo',
            'baseline_off_cmd': 'cd /repo && /venv/bin/python -m pytest -ra -q -p no:cacheprovider --timeout=900 --continue-on-collection-errors',
            'source_commits': [],
            'add_only': True,
        },
        'engines': [
            {'name': 'mc', 'path': 'mc/', 'serves_properties': [c['property_id'] for c in checks],
             'kind_free_text': 'hand-written bounded-exhaustive explorer for Python: E1 configuration/shape enumerator (full product and deviation-bounded), E2 explicit-state BFS over operation histories on real objects with canonical-hash deduplication, E3 crash-point (truncation) enumerator; 16-process worker pool, per-case watchdog, fresh-process confirmation of every reported failure'},
        ],
        'checks': checks,
        'not_applicable': na,
        'notes': 'All checks explore the implementation itself (no separate abstract model): every enumerated trace is executed on /repo\'s working tree and compared with a small reference model in /verif/ref. See DESIGN.md.',
    }
    with open(os.path.join(HERE, 'MANIFEST.json'), 'w') as f:
        json.dump(man, f, indent=1)
        f.write('\n')
    print('claimed:', [c['property_id'] for c in checks])
    print('not claimed:', [x['property_id'] for x in na])


if __name__ == '__main__':
    main()
