"""Owning the environment (DESIGN.md section 1.5 / 1.6).

Everything here is done from the outside of the library: module attributes,
tempfile.tempdir, fresh paths.  No source hook is required.
"""
import builtins
import contextlib
import io
import os
import shutil
import sys
import tempfile
import warnings

REPO = os.environ.get('VERIF_REPO', '/repo')
VERIF = os.path.dirname(os.path.dirname(os.path.abspath(__file__)))
_SCRATCH_ROOT = None
_REAL_STDOUT = sys.stdout


class UnexpectedPrompt(Exception):
    pass


def _no_input(prompt=''):
    raise UnexpectedPrompt("library asked for input(): %r" % (prompt,))


def own_environment():
    """Bind the process to REPO's working tree and neutralise side channels."""
    sys.dont_write_bytecode = True
    os.environ['SEDFITTER_VERIF'] = '1'          # the (unused) hook guard
    os.environ.setdefault('MPLBACKEND', 'Agg')
    os.environ.setdefault('MPLCONFIGDIR', scratch_root())
    for k in ('OMP_NUM_THREADS', 'OPENBLAS_NUM_THREADS', 'MKL_NUM_THREADS'):
        os.environ.setdefault(k, '1')
    if sys.path[0] != REPO:
        sys.path.insert(0, REPO)
    warnings.simplefilter('ignore')
    import matplotlib
    matplotlib.use('Agg')
    import numpy as np  # noqa
    with quiet():
        import sedfitter
    here = os.path.realpath(os.path.dirname(sedfitter.__file__))
    if not here.startswith(os.path.realpath(REPO) + os.sep):
        raise RuntimeError("sedfitter imported from %s, not from %s" % (here, REPO))
    from astropy import log
    log.setLevel('ERROR')
    log.disable_warnings_logging() if getattr(log, '_showwarning_orig', None) else None
    builtins.input = _no_input
    return sedfitter


def scratch_root():
    global _SCRATCH_ROOT
    if _SCRATCH_ROOT is None:
        base = os.environ.get('VERIF_SCRATCH')
        if not base:
            base = '/dev/shm' if os.path.isdir('/dev/shm') and os.access('/dev/shm', os.W_OK) else tempfile.gettempdir()
        _SCRATCH_ROOT = os.path.join(base, 'sedfitter_verif.%d' % os.getpid())
        os.makedirs(_SCRATCH_ROOT, exist_ok=True)
    return _SCRATCH_ROOT


def set_scratch_root(path):
    global _SCRATCH_ROOT
    _SCRATCH_ROOT = path
    os.makedirs(path, exist_ok=True)


def remove_scratch_root():
    global _SCRATCH_ROOT
    if _SCRATCH_ROOT and os.path.isdir(_SCRATCH_ROOT):
        shutil.rmtree(_SCRATCH_ROOT, ignore_errors=True)


_case_counter = [0]


@contextlib.contextmanager
def case_dir():
    """A fresh directory for one case; tempfile.tempdir points inside it so the
    memmap scratch files of Models._read_version_2 are removed with it."""
    _case_counter[0] += 1
    # every case of one worker process gets the SAME path (removed after the case, created again for the next one): each case is
    # thereby also a history "other files were read and written under these very names earlier in this process", which is what a
    # cache keyed by file name would get wrong.  (VERIF_FRESH_PATHS=1 restores one path per case, for diagnosis.)
    d = os.path.join(scratch_root(), 'w%d' % os.getpid(), 'case')
    if os.environ.get('VERIF_FRESH_PATHS') == '1' or os.path.lexists(d):
        d = os.path.join(scratch_root(), 'w%d' % os.getpid(), 'p%06d' % _case_counter[0])
    os.makedirs(d)
    tmp = os.path.join(d, 'tmp')
    os.makedirs(tmp)
    old = tempfile.tempdir
    tempfile.tempdir = tmp
    try:
        yield d
    finally:
        tempfile.tempdir = old
        shutil.rmtree(d, ignore_errors=True)


@contextlib.contextmanager
def quiet():
    """Discard what the library prints (it prints a lot, and a Timer)."""
    sink = io.StringIO()
    with contextlib.redirect_stdout(sink):
        yield sink


def tree_id():
    """Identify the tree being explored: HEAD sha plus a digest of the diff."""
    import hashlib
    import subprocess
    try:
        sha = subprocess.run(['git', '-C', REPO, 'rev-parse', 'HEAD'], capture_output=True, text=True).stdout.strip()
        diff = subprocess.run(['git', '-C', REPO, 'diff', 'HEAD'], capture_output=True).stdout
        return sha[:12] + ('' if not diff else '+dirty.' + hashlib.sha1(diff).hexdigest()[:8])
    except Exception:
        return 'unknown'
