"""Canonical state encoding (DESIGN.md section 1.4).

canon(obj) is a SHA-1 over a recursive, order-preserving encoding of the
OBSERVABLE state of an object (for a fit result: source, av, sc, chi2,
model_id, model_name, model_fluxes, meta) and is what oracles compare.
state_hash(obj) additionally covers every other instance attribute (caches,
counters a changed implementation might add): it identifies STATES of the
exploration, so the abstraction can only be too fine, but it is never used
as an oracle -- an implementation is free to keep private state as long as
nothing observable depends on it.  NaN payloads compare bit-wise (arrays are
encoded by their bytes).
"""
import hashlib
import numpy as np

try:
    from astropy import units as u
except Exception:  # pragma: no cover
    u = None


def _enc(obj, out):
    if obj is None:
        out.append(b'N')
    elif isinstance(obj, (bool, np.bool_)):
        out.append(b'b1' if obj else b'b0')
    elif u is not None and isinstance(obj, u.Quantity):
        out.append(b'Q' + obj.unit.to_string().encode() + b'|')
        _enc(np.asarray(obj.value), out)
    elif isinstance(obj, np.ndarray):
        a = np.ascontiguousarray(obj)
        if a.dtype.kind in 'US':
            # strings are compared exactly (padding included); only the storage width / bytes-vs-str is normalised
            a = a.astype('U')
            out.append(b'AS' + repr(a.shape).encode() + '\x00'.join(a.ravel().tolist()).encode())
        elif a.dtype.kind == 'O':
            out.append(b'AO' + repr(a.shape).encode())
            for x in a.ravel().tolist():
                _enc(x, out)
        else:
            if a.dtype.kind == 'f':
                a = a.astype(np.float64)
            elif a.dtype.kind in 'iu':
                a = a.astype(np.int64)
            out.append(b'A' + a.dtype.str.encode() + repr(a.shape).encode())
            out.append(a.tobytes())
    elif isinstance(obj, (int, np.integer)):
        out.append(b'i' + repr(int(obj)).encode())
    elif isinstance(obj, (float, np.floating)):
        out.append(b'f' + np.float64(obj).tobytes())
    elif isinstance(obj, str):
        out.append(b's' + obj.encode() + b'\x00')
    elif isinstance(obj, bytes):
        out.append(b'y' + obj + b'\x00')
    elif isinstance(obj, (list, tuple)):
        out.append(b'L%d[' % len(obj))
        for x in obj:
            _enc(x, out)
        out.append(b']')
    elif isinstance(obj, dict):
        out.append(b'D%d{' % len(obj))
        for k in sorted(obj, key=repr):
            _enc(k, out)
            _enc(obj[k], out)
        out.append(b'}')
    elif isinstance(obj, (set, frozenset)):
        _enc(sorted(obj, key=repr), out)
    else:
        name = type(obj).__name__
        if name == 'Source':
            out.append(b'OSource')
            _enc([obj.name, obj.x, obj.y, obj.valid, obj.flux, obj.error], out)
        elif name == 'FitInfo':
            out.append(b'OFitInfo')
            _enc([obj.source, obj.av, obj.sc, obj.chi2, obj.model_id, obj.model_name,
                  obj.model_fluxes, getattr(obj, 'meta', None)], out)
            known = ('source', 'av', 'sc', 'chi2', 'model_id', 'model_name', 'model_fluxes', 'meta')
            extra = {k: v for k, v in vars(obj).items() if k not in known}
            if extra and _HIDDEN[0]:        # hidden state a changed implementation might add
                out.append(b'+')
                _enc({k: (v if _encodable(v) else repr(v)) for k, v in extra.items()}, out)
        elif name == 'FitInfoMeta':
            out.append(b'OMeta')
            _enc([getattr(obj, 'model_dir', None), getattr(obj, 'filters', None),
                  getattr(obj, 'extinction_law', None)], out)
        elif name == 'Extinction':
            out.append(b'OExt')
            _enc([obj.wav, obj.chi], out)
        elif name == 'Fitter':
            # every attribute the fitter and its Models own (so that hidden state a changed
            # implementation might add -- caches, counters -- is part of the state too)
            out.append(b'OFitter')
            for holder in (obj, obj.models):
                d = {}
                for k, v in vars(holder).items():
                    if k == 'models':
                        continue
                    d[k] = v if _encodable(v) else 'unencodable:' + type(v).__name__
                _enc(d, out)
        elif hasattr(obj, 'tolist') and hasattr(obj, 'dtype'):
            _enc(np.asarray(obj), out)
        else:
            raise TypeError("canon: don't know how to encode %r" % type(obj))


_HIDDEN = [False]


def state_hash(obj):
    """canon() plus private attributes of fit results: identifies exploration states, never an oracle."""
    _HIDDEN[0] = True
    try:
        return canon(obj)
    finally:
        _HIDDEN[0] = False


def _encodable(v):
    try:
        _enc(v, [])
        return True
    except TypeError:
        return False


def canon_bytes(obj):
    out = []
    _enc(obj, out)
    return b''.join(out)


def canon(obj):
    return hashlib.sha1(canon_bytes(obj)).hexdigest()


def h64(obj):
    """64-bit integer digest, cheap to ship between processes and to keep in sets."""
    return int.from_bytes(hashlib.sha1(canon_bytes(obj)).digest()[:8], 'big')
