"""E1 helpers: full products and deviation-bounded enumeration of configuration spaces.

deviation_bounded(axes, k): axes is an ordered dict name -> list of values whose
first element is the default.  Yields every assignment with at most k
non-default axes, simplest first (0 deviations, then 1, then 2, ...), each
exactly once, in a canonical order -- "bound deviations, not depth".
"""
import itertools


def deviation_bounded(axes, k):
    names = list(axes)
    default = {n: axes[n][0] for n in names}
    for dev in range(0, k + 1):
        for which in itertools.combinations(names, dev):
            alts = [axes[n][1:] for n in which]
            for combo in itertools.product(*alts):
                c = dict(default)
                c.update(dict(zip(which, combo)))
                c['_deviations'] = dev
                yield c


def full_product(axes):
    names = list(axes)
    for combo in itertools.product(*[axes[n] for n in names]):
        yield dict(zip(names, combo))


def count_deviation_bounded(axes, k):
    return sum(1 for _ in deviation_bounded(axes, k))
