"""Runner: worker pool, recorder, fresh-process confirmation, known findings,
evidence.  One entry point, `main(argv)`, used by /verif/run_check.py.

Exit status: 0 = property held on everything explored (KNOWN-FINDING lines may
have been printed); 1 = at least one confirmed violation not listed as known
(`VIOLATION property=<id> replay=<path>` printed); 2 = harness error (vacuous
exploration, non-reproducible failure, crash of the machinery) -- never
reported as a violation.
"""
import argparse
import collections
import fnmatch
import hashlib
import importlib
import json
import multiprocessing
import os
import signal
import subprocess
import sys
import time
import traceback

from . import env

MAX_VIOL_KEPT_PER_CASE = 6
MAX_CONFIRM_PER_SIG = 2
MAX_CONFIRM_TOTAL = 16


class Hang(Exception):
    pass


def _alarm(signum, frame):
    raise Hang()


def jsonable(o):
    import numpy as np
    if isinstance(o, dict):
        return {str(k): jsonable(v) for k, v in o.items()}
    if isinstance(o, (list, tuple, set, frozenset)):
        return [jsonable(x) for x in o]
    if isinstance(o, np.ndarray):
        return jsonable(o.tolist())
    if isinstance(o, (np.integer,)):
        return int(o)
    if isinstance(o, (np.floating, float)):
        f = float(o)
        if f != f:
            return 'nan'
        if f in (float('inf'), float('-inf')):
            return 'inf' if f > 0 else '-inf'
        return f
    if isinstance(o, (np.bool_,)):
        return bool(o)
    if isinstance(o, bytes):
        return o.decode('latin1')
    if o is None or isinstance(o, (str, int, bool)):
        return o
    return repr(o)


class Rec(object):
    """What one case (or the whole run, after merging) covered and found."""

    def __init__(self):
        self.evaluations = 0          # implementation operations executed and compared
        self.transitions = 0          # (state, operation) steps taken on real objects
        self.traces = 0               # reference-model traces replayed on the implementation
        self.states = set()           # 64-bit digests of canonical states / canonical inputs
        self.outcomes = set()         # 64-bit digests of observed outcomes
        self.nontrivial = set()       # 64-bit digests of distinct non-trivial cases
        self.classes = collections.Counter()
        self.viol_count = collections.Counter()   # signature -> count
        self.violations = []          # kept subset: dict(sig, sub, detail, obs)
        self.samples = []
        self.caps = []                # names of caps that were hit (=> not exhaustive)
        self.notes = collections.Counter()
        self.history = None           # cases the worker process had run before this one (set only when something failed)

    # -- recording ---------------------------------------------------------
    def ev(self, n=1):
        self.evaluations += n

    def trans(self, n=1):
        self.transitions += n

    def trace(self, n=1):
        self.traces += n

    def state(self, key):
        self.states.add(_h(key))

    def outcome(self, key):
        self.outcomes.add(_h(key))

    def nontriv(self, key):
        self.nontrivial.add(_h(key))

    def cls(self, name, n=1):
        self.classes[name] += n

    def sample(self, obj):
        if len(self.samples) < 3:
            self.samples.append(jsonable(obj))

    def cap(self, name):
        if name not in self.caps:
            self.caps.append(name)

    def violation(self, sig, sub, detail, obs=None):
        """sig: stable signature (call site | input class); sub: what inside the
        case failed (JSON-able, enough to find it again on replay); detail:
        observed vs expected; obs: observation digest used to check that a
        replay fails identically (defaults to a digest of detail)."""
        self.viol_count[sig] += 1
        kept = sum(1 for v in self.violations if v['sig'] == sig)
        if kept < MAX_VIOL_KEPT_PER_CASE:
            d = jsonable(detail)
            self.violations.append({'sig': sig, 'sub': jsonable(sub), 'detail': d,
                                    'obs': obs if obs is not None else hashlib.sha1(json.dumps(d, sort_keys=True).encode()).hexdigest()[:16]})

    # -- merging -----------------------------------------------------------
    def merge(self, other, case=None):
        self.evaluations += other.evaluations
        self.transitions += other.transitions
        self.traces += other.traces
        self.states |= other.states
        self.outcomes |= other.outcomes
        self.nontrivial |= other.nontrivial
        self.classes.update(other.classes)
        self.notes.update(other.notes)
        self.viol_count.update(other.viol_count)
        for v in other.violations:
            kept = sum(1 for w in self.violations if w['sig'] == v['sig'])
            if kept < MAX_VIOL_KEPT_PER_CASE:
                v = dict(v)
                v['case'] = case
                if other.history:
                    v['history'] = other.history
                self.violations.append(v)
        for s in other.samples:
            if len(self.samples) < 5:
                self.samples.append(s)
        for c in other.caps:
            self.cap(c)


def _h(key):
    if isinstance(key, int) and not isinstance(key, bool):
        return key & 0xFFFFFFFFFFFFFFFF
    if isinstance(key, bytes):
        b = key
    elif isinstance(key, str):
        b = key.encode()
    else:
        from .canon import canon_bytes
        b = canon_bytes(key)
    return int.from_bytes(hashlib.blake2b(b, digest_size=8).digest(), 'big')


def exc_signature(exc, tb=None):
    """Call-site signature of an exception: innermost frame inside sedfitter."""
    tb = tb if tb is not None else exc.__traceback__
    site = None
    for fr in traceback.extract_tb(tb):
        if '/sedfitter/' in fr.filename and '/verif/' not in fr.filename:
            site = '%s:%s' % (fr.filename.split('/sedfitter/', 1)[1], fr.name)
    return 'exc|%s|%s' % (type(exc).__name__, site or 'harness')


# ---------------------------------------------------------------------------
# worker side

_MOD = None
_CTX = None
_TIMEOUT = 60


def run_one(mod, ctx, case, timeout):
    """Run one case under the watchdog; an escaping exception or a hang is an
    outcome (and, unless the property module says otherwise, a violation)."""
    rec = Rec()
    old = signal.signal(signal.SIGALRM, _alarm)
    signal.alarm(timeout)
    try:
        with env.case_dir() as d:
            with env.quiet():
                mod.run_case(ctx, case, rec, d)
    except Hang:
        rec.violation('hang', {'whole_case': True}, {'outcome': 'hang', 'timeout_s': timeout})
    except env.UnexpectedPrompt as e:
        rec.violation('prompt', {'whole_case': True}, {'outcome': 'prompt', 'msg': str(e)})
    except BaseException as e:  # noqa
        if isinstance(e, (KeyboardInterrupt, SystemExit)) and not isinstance(e, SystemExit):
            raise
        rec.violation(exc_signature(e), {'whole_case': True},
                      {'outcome': 'exception', 'type': type(e).__name__, 'msg': str(e)[:300],
                       'tb': traceback.format_exc()[-1500:]},
                      obs=type(e).__name__)
    finally:
        signal.alarm(0)
        signal.signal(signal.SIGALRM, old)
    return rec


_HISTORY = []          # the cases this process has run so far, in order: an execution is a sequence of cases in one process


def _work(case):
    sys.stdout = open(os.devnull, 'w')
    rec = run_one(_MOD, _CTX, case, _TIMEOUT)
    if rec.violations:
        rec.history = list(_HISTORY)
    _HISTORY.append(case)
    return rec


# ---------------------------------------------------------------------------
# findings

def load_findings(prop):
    path = os.path.join(env.VERIF, 'known_findings.json')
    if not os.path.exists(path):
        return []
    with open(path) as f:
        data = json.load(f)
    return [x for x in data.get('findings', []) if x.get('property') == prop]


def match_known(findings, sig):
    for f in findings:
        if f.get('status') == 'known' and fnmatch.fnmatchcase(sig, f['signature']):
            return f
    return None


# ---------------------------------------------------------------------------

def write_evidence(mod, tier, seed, total, wall, n_cases, violations_unlisted, extra):
    cov = {
        'evaluations': int(total.evaluations),
        'distinct_nontrivial': int(len(total.nontrivial)),
        'rule': mod.RULE,
        'samples': total.samples or [{'note': 'no sample recorded'}],
        'states': int(len(total.states)),
        'transitions': int(total.transitions),
        'traces_validated_against_impl': int(total.traces),
        'distinct_outcomes': int(len(total.outcomes)),
        'cases': int(n_cases),
        'classes': {k: int(v) for k, v in sorted(total.classes.items())},
        'exhaustive': not total.caps,
        'caps_hit': list(total.caps),
        'bounds': extra.get('bounds', ''),
        'alphabet_digest': extra.get('alphabet_digest', ''),
        'tree': env.tree_id(),
        'explanation': extra.get('explanation', ''),
    }
    if total.notes:
        cov['notes'] = {k: int(v) for k, v in sorted(total.notes.items())}
    ev = {
        'property_id': mod.ID,
        'tier': tier,
        'seed': int(seed),
        'level': mod.LEVEL,
        'coverage': cov,
        'assumptions': list(getattr(mod, 'ASSUMPTIONS', [])),
        'wall_s': round(wall, 2),
        'violations': int(violations_unlisted),
    }
    d = os.path.join(env.VERIF, 'evidence')
    os.makedirs(d, exist_ok=True)
    path = os.path.join(d, mod.ID + '.json')
    tmp = path + '.tmp.%d' % os.getpid()
    with open(tmp, 'w') as f:
        json.dump(ev, f, indent=1, sort_keys=True)
        f.write('\n')
    os.replace(tmp, path)
    _validate_evidence(path)
    return path


def _validate_evidence(path):
    schema = '/root/.vp/EVIDENCE.schema.json'
    if not os.path.exists(schema):
        schema = os.path.join(env.VERIF, 'schemas', 'EVIDENCE.schema.json')
    if not os.path.exists(schema):
        return
    code = ("import json,sys,jsonschema;"
            "jsonschema.validate(json.load(open(sys.argv[1])), json.load(open(sys.argv[2])))")
    for py in ('python3-vt', '/opt/veriftools/pyvenv/bin/python'):
        try:
            r = subprocess.run([py, '-c', code, path, schema], capture_output=True, text=True, timeout=60)
        except (OSError, subprocess.TimeoutExpired):
            continue
        if r.returncode != 0:
            print("HARNESS-ERROR: evidence file does not validate:\n" + r.stderr[-800:])
            sys.exit(2)
        return


def write_replay(mod, tier, seed, v):
    d = os.path.join(env.VERIF, 'replays', mod.ID)
    os.makedirs(d, exist_ok=True)
    body = {'property': mod.ID, 'tier': tier, 'seed': seed, 'case': v.get('case'),
            'sig': v['sig'], 'sub': v['sub'], 'obs': v['obs'], 'detail': v['detail'],
            'tree': env.tree_id()}
    if v.get('history'):
        # the cases the worker process had run before the failing one: replayed first if the case alone does not fail
        # (an implementation that keeps process-level state fails only after a particular history of calls)
        body['history'] = v['history']
    hh = hashlib.sha1(json.dumps([body['case'], body['sig'], body['sub'], tier, seed], sort_keys=True).encode()).hexdigest()[:12]
    path = os.path.join(d, hh + '.json')
    with open(path, 'w') as f:
        json.dump(body, f, indent=1, sort_keys=True)
    return path


def do_replay(mod, path, quiet_out=False):
    with open(path) as f:
        body = json.load(f)
    ctx = mod.setup(body['tier'], body['seed'])
    timeout = 600
    with_history = (os.environ.get('_VERIF_REPLAY_WITH_HISTORY') == '1' and body.get('history'))
    hit = []
    if not with_history:
        rec = run_one(mod, ctx, body['case'], timeout)
        hit = [v for v in rec.violations if v['sig'] == body['sig'] and v['sub'] == body['sub']]
        if not hit:
            hit = [v for v in rec.violations if v['sig'] == body['sig']]
    if not hit and body.get('history'):
        # the case alone holds: replay the whole execution -- every case the failing process had run before it, in
        # order, then the case (in yet another fresh process, so that the attempt above leaves no trace)
        if os.environ.get('_VERIF_REPLAY_WITH_HISTORY') != '1':
            e = dict(os.environ, _VERIF_REPLAY_WITH_HISTORY='1', PYTHONHASHSEED='0')
            r = subprocess.run([sys.executable, os.path.join(env.VERIF, 'run_check.py'), mod.ID, '--replay', path] + (['--brief'] if quiet_out else []),
                               env=e, capture_output=True, text=True, timeout=3600)
            sys.stdout.write(r.stdout[-4000:])
            return r.returncode
    if with_history:
        # (this process: history first, then the case)
        old_out = sys.stdout
        for c in body['history']:
            run_one(mod, ctx, c, timeout)
        sys.stdout = old_out
        rec = run_one(mod, ctx, body['case'], timeout)
        hit = [v for v in rec.violations if v['sig'] == body['sig'] and v['sub'] == body['sub']] or [v for v in rec.violations if v['sig'] == body['sig']]
        if hit:
            print("REPLAY-VIOLATION property=%s sig=%s obs=%s (fails only after the %d cases the process had run before it: the "
                  "implementation keeps state between calls; the replay file lists that history)" % (mod.ID, body['sig'], hit[0]['obs'], len(body['history'])))
            if not quiet_out:
                print(json.dumps(hit[0]['detail'], indent=1)[:3000])
            return 1
        print("REPLAY-PASS property=%s (the recorded violation does not occur on this tree, with or without the recorded history)" % mod.ID)
        return 0
    same = [v for v in hit if v['obs'] == body['obs']]
    if same:
        print("REPLAY-VIOLATION property=%s sig=%s obs=%s" % (mod.ID, body['sig'], body['obs']))
        if not quiet_out:
            print(json.dumps(same[0]['detail'], indent=1)[:3000])
        return 1
    if hit:
        # the same check fails at the same place with other numbers: still a reproduced violation (this happens when
        # the implementation keeps process-level state, so that what a case observes depends on the cases the worker
        # ran before it); reported as such
        print("REPLAY-VIOLATION property=%s sig=%s obs=%s (recorded obs %s: same failure, different observation -- the "
              "implementation's behaviour depends on what the process did before)" % (mod.ID, body['sig'], hit[0]['obs'], body['obs']))
        if not quiet_out:
            print(json.dumps(hit[0]['detail'], indent=1)[:3000])
        return 1
    print("REPLAY-PASS property=%s (the recorded violation does not occur on this tree)" % mod.ID)
    return 0


def confirm(mod, tier, seed, v):
    """Re-execute the failing case in a fresh process; it must fail identically."""
    path = write_replay(mod, tier, seed, v)
    e = dict(os.environ)
    e['PYTHONHASHSEED'] = '0'
    r = subprocess.run([sys.executable, os.path.join(env.VERIF, 'run_check.py'), mod.ID, '--replay', path, '--brief'],
                       capture_output=True, text=True, env=e, timeout=1800)
    return path, r.returncode, (r.stdout + r.stderr)[-600:]


def main(argv=None):
    ap = argparse.ArgumentParser()
    ap.add_argument('prop')
    ap.add_argument('--tier', default=os.environ.get('VERIF_TIER') or 'quick', choices=['quick', 'thorough'])
    ap.add_argument('--seed', type=int, default=None)
    ap.add_argument('--replay')
    ap.add_argument('--brief', action='store_true')
    ap.add_argument('--workers', type=int, default=int(os.environ.get('VERIF_WORKERS', '0')) or (os.cpu_count() or 4))
    ap.add_argument('--max-cases', type=int, default=0, help='debugging only: truncates (reported as a cap)')
    ap.add_argument('--no-evidence', action='store_true')
    args = ap.parse_args(argv)
    seed = args.seed
    if seed is None:
        try:
            seed = int(os.environ.get('VERIF_SEED', '0') or 0)
        except ValueError:
            seed = int(hashlib.sha1(os.environ['VERIF_SEED'].encode()).hexdigest()[:8], 16)

    sys.path.insert(0, env.VERIF)
    t0 = time.time()
    try:
        env.own_environment()
        mod = importlib.import_module('props.' + args.prop)
        if args.replay:
            rc = do_replay(mod, args.replay, quiet_out=args.brief)
            return rc
        ctx = mod.setup(args.tier, seed)
        cases = list(mod.cases(ctx))
    except SystemExit:
        raise
    except BaseException:
        print("HARNESS-ERROR: set-up failed\n" + traceback.format_exc())
        return 2
    finally:
        if args.replay:
            env.remove_scratch_root()

    total = Rec()
    if args.max_cases and len(cases) > args.max_cases:
        cases = cases[:args.max_cases]
        total.cap('max-cases=%d (debug option)' % args.max_cases)

    global _MOD, _CTX, _TIMEOUT
    _MOD, _CTX = mod, ctx
    _TIMEOUT = getattr(mod, 'TIMEOUT', {}).get(args.tier, 120 if args.tier == 'quick' else 600)
    nw = max(1, min(args.workers, len(cases)))
    done = 0
    try:
        if nw == 1:
            for c in cases:
                r1 = run_one(mod, ctx, c, _TIMEOUT)
                if r1.violations:
                    r1.history = list(_HISTORY)
                _HISTORY.append(c)
                total.merge(r1, case=c)
        else:
            mp = multiprocessing.get_context('fork')
            chunk = max(1, min(64, len(cases) // (nw * 6) or 1))
            with mp.Pool(nw) as pool:
                for c, rec in zip(cases, pool.imap(_work, cases, chunksize=chunk)):
                    total.merge(rec, case=c)
                    done += 1
    except BaseException:
        print("HARNESS-ERROR: pool failed after %d cases\n%s" % (done, traceback.format_exc()))
        env.remove_scratch_root()
        return 2
    env.remove_scratch_root()
    wall = time.time() - t0

    findings = load_findings(mod.ID)
    n_viol = sum(total.viol_count.values())
    unlisted_sigs, known_sigs = [], []
    for sig in total.viol_count:
        (known_sigs if match_known(findings, sig) else unlisted_sigs).append(sig)

    status = 0
    lines = []
    # fresh-process confirmation of what will be reported
    confirmed_total = 0
    for sig in sorted(total.viol_count):
        vs = [v for v in total.violations if v['sig'] == sig][:MAX_CONFIRM_PER_SIG]
        known = match_known(findings, sig)
        first_path = None
        for v in vs:
            if confirmed_total >= MAX_CONFIRM_TOTAL:
                break
            confirmed_total += 1
            path, rc, out = confirm(mod, args.tier, seed, v)
            first_path = first_path or path
            if rc != 1:
                print("HARNESS-ERROR: a failing case did not fail identically in a fresh process "
                      "(rc=%d) sig=%s replay=%s\n%s" % (rc, sig, path, out))
                status = 2
        if first_path is None and vs:
            first_path = write_replay(mod, args.tier, seed, vs[0])
        if known:
            lines.append("KNOWN-FINDING: property=%s %s [%d occurrences, signature %s]" % (mod.ID, known.get('what', ''), total.viol_count[sig], sig))
        else:
            lines.append("VIOLATION property=%s replay=%s signature=%s occurrences=%d" % (mod.ID, first_path, sig, total.viol_count[sig]))
            v0 = vs[0] if vs else None
            if v0:
                lines.append("  first: case=%s sub=%s" % (json.dumps(v0.get('case'))[:400], json.dumps(v0['sub'])[:400]))
                lines.append("  detail: %s" % json.dumps(v0['detail'])[:900])

    # vacuity guards (only meaningful when nothing failed: a failing tree may
    # abort executions before they reach a class)
    missing = [c for c in getattr(mod, 'REQUIRED_CLASSES', []) if total.classes.get(c, 0) == 0]
    if not total.viol_count and not args.max_cases:
        if missing:
            print("HARNESS-ERROR: vacuous exploration, coverage classes never hit: %s" % missing)
            status = 2
        if len(total.outcomes) < 2:
            print("HARNESS-ERROR: vacuous exploration, %d distinct outcome(s)" % len(total.outcomes))
            status = 2
        if len(total.nontrivial) < 2:
            print("HARNESS-ERROR: vacuous exploration, %d distinct non-trivial case(s)" % len(total.nontrivial))
            status = 2

    n_unlisted = sum(total.viol_count[s] for s in unlisted_sigs)
    extra = getattr(mod, 'evidence_extra', lambda ctx: {})(ctx)
    if not args.no_evidence:
        write_evidence(mod, args.tier, seed, total, wall, len(cases), n_unlisted, extra)

    print("%s tier=%s seed=%d tree=%s cases=%d evaluations=%d states=%d transitions=%d traces=%d "
          "distinct_nontrivial=%d distinct_outcomes=%d exhaustive=%s wall=%.1fs" % (
              mod.ID, args.tier, seed, env.tree_id(), len(cases), total.evaluations, len(total.states),
              total.transitions, total.traces, len(total.nontrivial), len(total.outcomes),
              not total.caps, wall))
    if not args.brief:
        print("classes: " + ", ".join("%s=%d" % kv for kv in sorted(total.classes.items())))
    for ln in lines:
        print(ln)
    if status == 2:
        return 2
    if unlisted_sigs:
        return 1
    print("PASS property=%s (%d violations%s)" % (mod.ID, n_viol, ", all listed as known findings" if n_viol else ""))
    return 0
