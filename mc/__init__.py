"""Bounded-exhaustive exploration machinery for the sedfitter properties."""
