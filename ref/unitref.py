"""Reference model of the three flux families: F_nu-type (Jy, mJy), nu*F_nu-type
(erg/cm^2/s, W/m^2) and luminosity-type (erg/s), related by F = nu*F_nu and L = F*d^2."""

# conversion of one unit of X into the family's base (cgs)
FAMILY = {
    'mJy': ('fnu', 1e-26), 'Jy': ('fnu', 1e-23), 'MJy': ('fnu', 1e-17),      # erg / s / cm2 / Hz  (MJy = megajansky)
    'erg / (cm2 s)': ('f', 1.0), 'W / m2': ('f', 1e3),            # erg / s / cm2
    'erg / s': ('l', 1.0),                                        # erg / s
}


def convert(nu_hz, val, src, dst, dist_cm):
    """val: array (..., n_wav) aligned with nu_hz; returns val expressed in dst."""
    fam, fac = FAMILY[src]
    x = val * fac
    if fam == 'fnu':
        f = x * nu_hz
    elif fam == 'l':
        f = x / dist_cm ** 2
    else:
        f = x
    fam2, fac2 = FAMILY[dst]
    if fam2 == 'fnu':
        y = f / nu_hz
    elif fam2 == 'l':
        y = f * dist_cm ** 2
    else:
        y = f
    return y / fac2
