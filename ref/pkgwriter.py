"""Write model packages directly with astropy.io.fits, following
docs/creating_model_packages.rst, WITHOUT going through SED.write /
SEDCube.write / ConvolvedFluxes.write -- so that a defect in the library's
writers cannot hide a defect in its readers, and vice versa.

All numeric columns are float64 unless float32=True (the docs say 1E; the
library itself writes doubles) so that oracles can be exact.
"""
import os

import numpy as np
from astropy.io import fits

C_M_S = 299792458.0
KPC_CM = 3.0856775814913673e21


def nu_of_wav_micron(wav):
    return C_M_S / (np.asarray(wav, float) * 1e-6)


def write_conf(d, aperture_dependent, logd_step=0.1, version=1, name='verif', length_subdir=0, style=None):
    """models.conf.  The file is a list of `key = value` lines; comment lines, blank lines, the order of the keys and the
    amount of white space are free, so the writer rotates through three layouts (chosen from its arguments, hence the same
    for the same package) unless one is asked for."""
    if style is None:
        style = (len(os.path.basename(os.path.normpath(d))) + version + int(bool(aperture_dependent)) + int(round(float(logd_step) * 1000))) % 3
    items = [('name', name), ('length_subdir', '%d' % length_subdir), ('aperture_dependent', 'yes' if aperture_dependent else 'no'),
             ('logd_step', repr(float(logd_step)))]
    if version != 1:
        items.append(('version', '%d' % version))
    with open(os.path.join(d, 'models.conf'), 'w') as f:
        if style == 0:
            for k, v in items:
                f.write("%s = %s\n" % (k, v))
        elif style == 1:
            f.write("# model package written for the verification harness\n\n")
            for k, v in reversed(items):
                f.write("%-20s =   %s  \n" % (k, v))
                f.write("\n")
            f.write("# end\n")
        else:
            vfirst = [it for it in items if it[0] == 'version'] + [it for it in items if it[0] != 'version']
            for k, v in vfirst:
                if k == 'logd_step':
                    v = '%.6f' % float(logd_step) if float('%.6f' % float(logd_step)) == float(logd_step) else v
                if k == 'aperture_dependent':
                    v = v.capitalize()          # Yes / No: the words are not case-sensitive
                f.write("%s\t=\t%s\n" % (k, v))
            f.write("#logd_step = 99\n")


def write_parameters(d, names, columns, order=None, pad=30, gz=False, name_pos=0):
    """columns: dict name -> sequence (same order as names); order: row permutation."""
    names = [str(n) for n in names]
    idx = list(range(len(names))) if order is None else list(order)
    cols = [fits.Column(name='MODEL_NAME', format='%dA' % pad, array=np.array([names[i] for i in idx]))]
    for cname, vals in columns.items():
        v = np.asarray(vals)
        if v.dtype.kind in 'US':
            cols.append(fits.Column(name=cname, format='%dA' % max(1, v.dtype.itemsize // (4 if v.dtype.kind == 'U' else 1)), array=v[idx]))
        else:
            cols.append(fits.Column(name=cname, format='D', array=np.asarray(vals, float)[idx]))
    if name_pos:            # the format allows the columns in any order
        cols.insert(min(name_pos, len(cols) - 1), cols.pop(0))
    hdu0 = fits.PrimaryHDU()
    hdu0.header['NMODELS'] = len(names)
    hdu1 = fits.BinTableHDU.from_columns(cols)
    path = os.path.join(d, 'parameters.fits' + ('.gz' if gz else ''))
    fits.HDUList([hdu0, hdu1]).writeto(path, overwrite=True)
    return path


def write_convolved(d, filter_name, names, flux, err, apertures_au=None, filtwav_micron=1.0, unit='mJy',
                    ap_unit='AU', float32=False, flat_single=True, gz=False):
    """flux, err: (n_models, n_ap).  apertures_au None => no APERTURES HDU (n_ap must be 1)."""
    os.makedirs(os.path.join(d, 'convolved'), exist_ok=True)
    flux = np.asarray(flux, float)
    err = np.asarray(err, float)
    n_models, n_ap = flux.shape
    fmt = 'E' if float32 else 'D'
    if n_ap == 1 and flat_single:
        fcol = fits.Column(name='TOTAL_FLUX', format=fmt, array=flux[:, 0], unit=unit)
        ecol = fits.Column(name='TOTAL_FLUX_ERR', format=fmt, array=err[:, 0], unit=unit)
    else:
        fcol = fits.Column(name='TOTAL_FLUX', format='%d%s' % (n_ap, fmt), array=flux, unit=unit)
        ecol = fits.Column(name='TOTAL_FLUX_ERR', format='%d%s' % (n_ap, fmt), array=err, unit=unit)
    ncol = fits.Column(name='MODEL_NAME', format='30A', array=np.array([str(n) for n in names]))
    hdu0 = fits.PrimaryHDU()
    hdu0.header['FILTWAV'] = float(filtwav_micron)
    hdu0.header['NMODELS'] = n_models
    hdu0.header['NAP'] = n_ap
    hdu1 = fits.BinTableHDU.from_columns([ncol, fcol, ecol], name='CONVOLVED FLUXES')
    hdus = [hdu0, hdu1]
    if apertures_au is not None:
        acol = fits.Column(name='APERTURE', format=fmt, array=np.asarray(apertures_au, float), unit=ap_unit)
        hdus.append(fits.BinTableHDU.from_columns([acol], name='APERTURES'))
    path = os.path.join(d, 'convolved', filter_name + '.fits' + ('.gz' if gz else ''))
    fits.HDUList(hdus).writeto(path, overwrite=True)
    return path


def write_sed_file(d, name, wav_micron, flux, err, apertures_au=None, unit='mJy', distance_cm=KPC_CM,
                   wav_unit='um', ap_unit='AU', subdir=None, float32=False, filename=None, gz=False, err_unit=None, freq_unit='Hz', nu_hz=None):
    """One per-model SED file (seds/<name>_sed.fits).  wav_micron in any order;
    flux/err: (n_ap, n_wav) aligned with wav_micron as given."""
    sd = os.path.join(d, 'seds') if subdir is None else os.path.join(d, 'seds', subdir)
    os.makedirs(sd, exist_ok=True)
    wav = np.asarray(wav_micron, float)
    flux = np.atleast_2d(np.asarray(flux, float))
    err = np.atleast_2d(np.asarray(err, float))
    n_ap, n_wav = flux.shape
    fmt = 'E' if float32 else 'D'
    hdu0 = fits.PrimaryHDU()
    hdu0.header['VERSION'] = 1
    hdu0.header['MODEL'] = str(name)
    hdu0.header['IMAGE'] = False
    hdu0.header['WAVLGHTS'] = True
    hdu0.header['APERTURS'] = True
    hdu0.header['SEDS'] = True
    if distance_cm is not None:
        hdu0.header['DISTANCE'] = float(distance_cm)
    hdu0.header['NAP'] = n_ap
    hdu0.header['NWAV'] = n_wav
    hdu1 = fits.BinTableHDU.from_columns([
        fits.Column(name='WAVELENGTH', format=fmt, array=wav, unit=wav_unit),
        fits.Column(name='FREQUENCY', format=fmt, array=nu_of_wav_micron(wav) if nu_hz is None else np.asarray(nu_hz, float), unit=freq_unit)], name='WAVELENGTHS')
    if apertures_au is None:
        ap = np.array([1e-30])
        apu = 'cm'
    else:
        ap = np.asarray(apertures_au, float)
        apu = ap_unit
    hdu2 = fits.BinTableHDU.from_columns([fits.Column(name='APERTURE', format=fmt, array=ap, unit=apu)], name='APERTURES')
    hdu3 = fits.BinTableHDU.from_columns([
        fits.Column(name='TOTAL_FLUX', format='%d%s' % (n_wav, fmt), array=flux, unit=unit),
        fits.Column(name='TOTAL_FLUX_ERR', format='%d%s' % (n_wav, fmt), array=err, unit=err_unit or unit)], name='SEDS')
    path = os.path.join(sd, (filename or (str(name) + '_sed.fits')) + ('.gz' if gz else ''))
    fits.HDUList([hdu0, hdu1, hdu2, hdu3]).writeto(path, overwrite=True)
    return path


def write_cube(d, names, wav_micron, val, unc=None, apertures_au=None, unit='mJy', distance_cm=KPC_CM,
               wav_unit='um', ap_unit='AU', valid=None, float32=False, filename='flux.fits'):
    """flux.fits of a cube package.  val/unc: (n_models, n_ap, n_wav) aligned with wav_micron as given."""
    wav = np.asarray(wav_micron, float)
    val = np.asarray(val, float)
    n_models, n_ap, n_wav = val.shape
    dt = np.float32 if float32 else np.float64
    fmt = 'E' if float32 else 'D'
    hdu0 = fits.PrimaryHDU(data=np.ones(n_models, dtype=int) if valid is None else np.asarray(valid, int))
    hdu0.header['DISTANCE'] = float(distance_cm)
    hdu0.header['NWAV'] = n_wav
    if apertures_au is not None:
        hdu0.header['NAP'] = n_ap
    width = max(1, max(len(str(n)) for n in names))
    hdu1 = fits.BinTableHDU.from_columns([fits.Column(name='MODEL_NAME', format='%dA' % width, array=np.array([str(n) for n in names]))], name='MODEL_NAMES')
    hdu2 = fits.BinTableHDU.from_columns([
        fits.Column(name='WAVELENGTH', format=fmt, array=wav, unit=wav_unit),
        fits.Column(name='FREQUENCY', format=fmt, array=nu_of_wav_micron(wav), unit='Hz')], name='SPECTRAL_INFO')
    hdus = [hdu0, hdu1, hdu2]
    if apertures_au is not None:
        hdus.append(fits.BinTableHDU.from_columns([fits.Column(name='APERTURE', format=fmt, array=np.asarray(apertures_au, float), unit=ap_unit)], name='APERTURES'))
    h4 = fits.ImageHDU(val.astype(dt), name='VALUES')
    h4.header['BUNIT'] = unit
    hdus.append(h4)
    if unc is not None:
        h5 = fits.ImageHDU(np.asarray(unc, float).astype(dt), name='UNCERTAINTIES')
        h5.header['BUNIT'] = unit
        hdus.append(h5)
    path = os.path.join(d, filename)
    fits.HDUList(hdus).writeto(path, overwrite=True)
    return path


def write_filter_file(path, wav_micron, response, central_wav):
    """Two-column wavelength/response text file with the '# wav = x' header Filter.read expects."""
    with open(path, 'w') as f:
        f.write("# wav = %r\n" % float(central_wav))
        for w, r in zip(wav_micron, response):
            f.write("%r %r\n" % (float(w), float(r)))
    return path
