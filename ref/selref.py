"""Reference model of the selection syntax (docs/select_syntax.rst).

Pure Python floats, so IEEE semantics apply exactly as the property states
them: "below v" is false for NaN, and inf - inf is NaN (hence not below).
"""


def n_data(flags):
    return sum(1 for v in flags if v in (1, 4))


def _div(x, nd):
    """x / nd with IEEE semantics for nd == 0 (a source none of whose points is flagged 1 or 4, e.g. one made of limits only):
    positive / 0 is inf, 0 / 0 and NaN / 0 are NaN -- neither is below any threshold."""
    if nd != 0:
        return x / nd
    if x != x or x == 0:
        return float('nan')
    return float('inf') if x > 0 else float('-inf')


def kept(chi, nd, sel):
    """Number of fits of the ranked list `chi` (python floats, best first) that
    the selector keeps; the kept fits are the first `kept` ones."""
    form, v = sel
    n = len(chi)
    if n == 0:
        return 0
    if form == 'A':
        return n
    if form == 'N':
        return min(int(v), n)
    best = chi[0]

    def q(c):
        if form == 'C':
            return c
        if form == 'D':
            return c - best
        if form == 'E':
            return _div(c, nd)
        if form == 'F':
            return _div(c - best, nd)
        raise ValueError(form)
    return sum(1 for c in chi if q(c) < v)


def attained(chi, nd):
    """Every statistic a threshold could be compared with (for the equality
    guard: thresholds must differ from all of these)."""
    out = set()
    if not chi:
        return out
    best = chi[0]
    for c in chi:
        for x in (c, c - best, _div(c, nd), _div(c - best, nd)):
            if x == x and abs(x) != float('inf'):
                out.add(x)
    return out
