"""Reference model of the selection syntax (docs/select_syntax.rst).

Pure Python floats, so IEEE semantics apply exactly as the property states
them: "below v" is false for NaN, and inf - inf is NaN (hence not below).
"""


def n_data(flags):
    return sum(1 for v in flags if v in (1, 4))


def kept(chi, nd, sel):
    """Number of fits of the ranked list `chi` (python floats, best first) that
    the selector keeps; the kept fits are the first `kept` ones."""
    form, v = sel
    n = len(chi)
    if n == 0:
        return 0
    if form == 'A':
        return n
    if form == 'N':
        return min(int(v), n)
    best = chi[0]

    def q(c):
        if form == 'C':
            return c
        if form == 'D':
            return c - best
        if form == 'E':
            return c / nd
        if form == 'F':
            return (c - best) / nd
        raise ValueError(form)
    return sum(1 for c in chi if q(c) < v)


def attained(chi, nd):
    """Every statistic a threshold could be compared with (for the equality
    guard: thresholds must differ from all of these)."""
    out = set()
    if not chi:
        return out
    best = chi[0]
    for c in chi:
        for x in (c, c - best, c / nd, (c - best) / nd):
            if x == x and abs(x) != float('inf'):
                out.add(x)
    return out
