"""Reference model of the broadband convolution: exact rational arithmetic.

Every float is an exact rational, so the integral of the piecewise-linear
response over each bin is computed without rounding (fractions.Fraction).
Bins are bounded by the mid-points between adjacent SED frequencies (first and
last bin end at the first / last SED frequency), restricted to the filter's
range.
"""
from fractions import Fraction as Fr


def fr(x):
    return x if isinstance(x, Fr) else Fr(float(x))


def pl_integral(xs, ys, a, b):
    """Exact integral over [a, b] of the piecewise-linear function through (xs, ys), xs strictly increasing."""
    tot = Fr(0)
    if b <= a:
        return tot
    for i in range(len(xs) - 1):
        lo = max(a, xs[i])
        hi = min(b, xs[i + 1])
        if hi > lo:
            sl = (ys[i + 1] - ys[i]) / (xs[i + 1] - xs[i])
            ylo = ys[i] + sl * (lo - xs[i])
            yhi = ys[i] + sl * (hi - xs[i])
            tot += (hi - lo) * (ylo + yhi) / 2
    return tot


def bin_edges(sx):
    n = len(sx)
    out = []
    for i in range(n):
        e1 = sx[0] if i == 0 else (sx[i - 1] + sx[i]) / 2
        e2 = sx[-1] if i == n - 1 else (sx[i] + sx[i + 1]) / 2
        out.append((min(e1, e2), max(e1, e2)))
    return out


def rebin_exact(fx, fy, sx):
    """fx, fy: filter nodes/response in either order; sx: SED frequencies in either order.
    Returns the list of exact R_i (aligned with sx) and the exact integral over the overlap."""
    fx = [fr(x) for x in fx]
    fy = [fr(y) for y in fy]
    sx = [fr(x) for x in sx]
    if fx[0] > fx[-1]:
        fx = fx[::-1]
        fy = fy[::-1]
    R = []
    for a, b in bin_edges(sx):
        a = min(max(a, fx[0]), fx[-1])
        b = min(max(b, fx[0]), fx[-1])
        R.append(pl_integral(fx, fy, a, b))
    lo = max(min(sx), fx[0])
    hi = min(max(sx), fx[-1])
    return R, pl_integral(fx, fy, lo, hi), pl_integral(fx, fy, fx[0], fx[-1])
