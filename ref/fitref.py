"""Reference model of the fitter (C01-C04, C08, C11).

Independent of the implementation's method: the 2-parameter problem is solved
by numpy.linalg.lstsq on the sqrt(w)-scaled design (QR/SVD), not by the 2x2
normal equations; interpolation in aperture is an explicit two-point formula;
penalties are evaluated point by point.
"""
import math

import numpy as np

LN10 = math.log(10.0)
BIG = 1e30
F32_EPS = 2.0 ** -23


def log_transform(valid, flux, error):
    """Data-format semantics: flags 1 and 4 are fitted; 2/3 are limits (error =
    confidence); 0 and 9 carry no information at all (their values are never read)."""
    n = len(valid)
    lf = np.zeros(n)
    le = np.zeros(n)
    w = np.zeros(n)
    for j in range(n):
        v = int(valid[j])
        if v == 1:
            lf[j] = math.log10(flux[j]) - 0.5 * (error[j] / flux[j]) ** 2 / LN10
            le[j] = abs(error[j] / flux[j]) / LN10
            w[j] = 1.0 / le[j] ** 2
        elif v in (2, 3):
            lf[j] = math.log10(flux[j])
            le[j] = error[j]
        elif v == 4:
            lf[j] = flux[j]
            le[j] = error[j]
            w[j] = 1.0 / le[j] ** 2
    return w, lf, le


def penalty(conf):
    if conf >= 1.0:
        return BIG
    if conf <= 0.0:
        return 0.0
    return -2.0 * math.log(1.0 - conf)


def chi2_bounds(valid, w, lf, le, pred, margin=1e-9):
    """chi^2 of predicted log fluxes `pred` (..., n_wav): returns (lo, hi, n_violated_lo, n_violated_hi);
    a limit whose prediction lies within `margin` dex of the limit may count either way."""
    pred = np.asarray(pred, float)
    lo = np.zeros(pred.shape[:-1])
    hi = np.zeros(pred.shape[:-1])
    for j in range(len(valid)):
        v = int(valid[j])
        if v in (1, 4):
            t = w[j] * (lf[j] - pred[..., j]) ** 2
            lo = lo + t
            hi = hi + t
        elif v in (2, 3):
            pen = penalty(le[j])
            dlt = pred[..., j] - lf[j]
            viol = (dlt < 0) if v == 2 else (dlt > 0)
            amb = np.abs(dlt) < margin
            lo = lo + np.where(viol & ~amb, pen, 0.0)
            hi = hi + np.where(viol | amb, pen, 0.0)
    return lo, hi


def design(w, k):
    m = w > 0
    A = np.column_stack([k[m], -2.0 * np.ones(int(m.sum()))]) * np.sqrt(w[m])[:, None]
    return m, A


def fit2d(valid, flux, error, logm, k, avlo, avhi):
    """logm: (n_models, n_wav) log10 model fluxes [mJy]; k: extinction pattern.
    Returns dict with the constrained optimum per model and conditioning info."""
    w, lf, le = log_transform(valid, flux, error)
    m, A = design(w, k)
    r = lf[None, :] - logm                         # (n_models, n_wav)
    B = (r[:, m] * np.sqrt(w[m])[None, :]).T        # (n_pts, n_models)
    sol, _, rank, sv = np.linalg.lstsq(A, B, rcond=None)
    av_u = sol[0].copy()
    sc_u = sol[1].copy()
    cond = (sv[0] / sv[-1]) if sv[-1] > 0 else np.inf
    av = np.clip(av_u, avlo, avhi)
    clamped = av != av_u
    sw = np.sum(w)
    sc = np.where(clamped, -np.sum(w[None, :] * (r - av[:, None] * k[None, :]), axis=1) / (2.0 * sw), sc_u)
    pred = logm + av[:, None] * k[None, :] - 2.0 * sc[:, None]
    f = np.sum(w[None, :] * (lf[None, :] - pred) ** 2, axis=1)
    # sensitivity of (av, sc) to a perturbation of the model log fluxes: |(A^T A)^-1 A^T sqrt(w)|_inf
    pinv = np.linalg.pinv(A) * np.sqrt(w[m])[None, :]
    sens = float(np.max(np.sum(np.abs(pinv), axis=1)))
    return {'w': w, 'lf': lf, 'le': le, 'av': av, 'sc': sc, 'av_unclamped': av_u, 'clamped_lo': av_u < avlo,
            'clamped_hi': av_u > avhi, 'obj': f, 'cond': cond, 'rank': rank, 'sens': sens, 'r': r}


def objective(w, lf, logm, k, av, sc):
    pred = logm + np.asarray(av)[:, None] * k[None, :] - 2.0 * np.asarray(sc)[:, None]
    return np.sum(w[None, :] * (lf[None, :] - pred) ** 2, axis=1), pred


# ---------------------------------------------------------------------------
# distance-dependent

def n_distances_allowed(dmin_kpc, dmax_kpc, step):
    """Fewest points of a log-uniform grid over [dmin, dmax] with spacing <= step.

    The count is decided in exact arithmetic on the float inputs (60-digit decimals):
    n = ceil(1 + q), q = (log10 dmax - log10 dmin)/step.  Floating-point evaluation of q can
    land on the other side of an integer when q is within rounding noise of one, so the
    counts that the two obvious float formulas give are accepted as well -- but only when
    they differ from the exact q by rounding noise (< 1e-12); a q that is an exact integer
    with exact float arithmetic (1..10 kpc, step 0.25) has exactly one acceptable count."""
    import decimal
    if dmin_kpc == dmax_kpc:
        return {1}
    ctx = decimal.Context(prec=60)
    a = ctx.log10(decimal.Decimal(float(dmin_kpc)))
    b = ctx.log10(decimal.Decimal(float(dmax_kpc)))
    q = ctx.divide(ctx.subtract(b, a), decimal.Decimal(float(step)))
    n_true = int((q + 1).to_integral_value(rounding=decimal.ROUND_CEILING))
    ok = {max(n_true, 2)}
    for qf in ((math.log10(dmax_kpc) - math.log10(dmin_kpc)) / step, math.log10(dmax_kpc / dmin_kpc) / step):
        if abs(decimal.Decimal(qf) - q) < decimal.Decimal('1e-12') * max(1, abs(q)):
            ok.add(max(int(math.ceil(1 + qf)), 2))
    return ok


def distance_grid(dmin_kpc, dmax_kpc, n):
    if n == 1:
        return np.array([float(dmin_kpc)])
    a, b = math.log10(dmin_kpc), math.log10(dmax_kpc)
    return np.array([10.0 ** (a + (b - a) * i / (n - 1)) for i in range(n)])


def interp_aperture(ap_table, values, ap_req):
    """Two-point linear interpolation along the last axis of `values` (..., n_ap) at radii ap_req (n_req);
    radii beyond the largest tabulated one use the largest.  Caller guarantees ap_req >= ap_table[0]."""
    ap_table = np.asarray(ap_table, float)
    values = np.asarray(values, float)
    out = np.zeros(values.shape[:-1] + (len(ap_req),))
    for i, a in enumerate(ap_req):
        if len(ap_table) == 1 or a >= ap_table[-1]:
            out[..., i] = values[..., -1]
            continue
        j = int(np.searchsorted(ap_table, a, side='right')) - 1
        j = min(max(j, 0), len(ap_table) - 2)
        t = (a - ap_table[j]) / (ap_table[j + 1] - ap_table[j])
        out[..., i] = values[..., j] + (values[..., j + 1] - values[..., j]) * t
    return out


def model_logflux_3d(tables, ap_tables, theta_arcsec, dist_kpc):
    """tables[b]: (n_models, n_ap_b) convolved fluxes [mJy] at 1 kpc for band b; returns
    log10 flux (n_models, n_dist, n_bands) at each distance."""
    nb = len(tables)
    nm = np.asarray(tables[0]).shape[0]
    out = np.zeros((nm, len(dist_kpc), nb))
    for b in range(nb):
        ap_req = theta_arcsec[b] * np.asarray(dist_kpc) * 1000.0      # arcsec x pc = AU
        f = interp_aperture(ap_tables[b], tables[b], ap_req)         # (n_models, n_dist)
        out[:, :, b] = np.log10(f / np.asarray(dist_kpc)[None, :] ** 2)
    return out


def fit3d(valid, flux, error, logm, k, avlo, avhi, margin=1e-9):
    """logm: (n_models, n_dist, n_wav).  A_V per distance by 1-parameter least squares, clipped."""
    w, lf, le = log_transform(valid, flux, error)
    r = lf[None, None, :] - logm
    den = np.sum(w * k * k)
    av_u = np.sum(w[None, None, :] * r * k[None, None, :], axis=2) / den
    av = np.clip(av_u, avlo, avhi)
    pred = logm + av[:, :, None] * k[None, None, :]
    lo, hi = chi2_bounds(valid, w, lf, le, pred, margin)
    sens = float(np.sum(np.abs(w * k)) / den) if den > 0 else np.inf
    return {'w': w, 'lf': lf, 'le': le, 'av': av, 'av_unclamped': av_u, 'chi2_lo': lo, 'chi2_hi': hi, 'pred': pred, 'den': den, 'sens': sens, 'r': r}


def f32_dlog(logm):
    """First-order bound on the error of a log10 model flux that went through float32
    storage and a float32 log10: value rounding + result rounding (2 ulp allowed)."""
    return F32_EPS / LN10 + 2.0 * F32_EPS * np.maximum(np.abs(logm), 1e-3)


def chi2_tol(w, r_at, dlog):
    """|d chi2| <= sum w (2|r| d + d^2) for a perturbation d of each model log flux."""
    return np.sum(w * (2.0 * np.abs(r_at) * dlog + dlog ** 2), axis=-1)
