"""Reference model of the fitter data format (docs/data.rst).

A line with 3*(n+1) whitespace separated columns: name, x, y, n flags, then n
(flux, error) pairs in filter order.  Returns ('eof',) for fewer than three
columns, ('err', why) for anything that does not fit the layout, and
('ok', name, x, y, flags, fluxes, errors) otherwise.
"""
VALID_FLAGS = (0, 1, 2, 3, 4, 9)


def parse(line):
    cols = line.split()
    if len(cols) < 3:
        return ('eof',)
    if (len(cols) - 3) % 3 != 0:
        return ('err', 'column count %d is not 3*(n+1)' % len(cols))
    n = (len(cols) - 3) // 3
    try:
        x = float(cols[1])
        y = float(cols[2])
    except ValueError:
        return ('err', 'coordinates')
    flags = []
    for t in cols[3:3 + n]:
        try:
            v = int(t)
        except ValueError:
            return ('err', 'flag %r is not an integer' % t)
        if v not in VALID_FLAGS:
            return ('err', 'flag %d not in {0,1,2,3,4,9}' % v)
        flags.append(v)
    rest = cols[3 + n:]
    try:
        vals = [float(t) for t in rest]
    except ValueError:
        return ('err', 'flux/error not a number')
    return ('ok', cols[0], x, y, flags, vals[0::2], vals[1::2])
