"""Reference model of the extinction pattern: -0.4*chi(lambda)/chi(V), chi
linearly interpolated (explicit two-point formula), 0 outside the table."""
V_MICRON = 0.55


def interp(wt, ct, x):
    """Two-point linear interpolation on an increasing table; None outside."""
    if x < wt[0] or x > wt[-1]:
        return None
    for j in range(len(wt) - 1):
        if wt[j] <= x <= wt[j + 1]:
            if x == wt[j]:
                return ct[j]
            if x == wt[j + 1]:
                return ct[j + 1]
            return ct[j] + (ct[j + 1] - ct[j]) * (x - wt[j]) / (wt[j + 1] - wt[j])
    return None


def pattern(wt, ct, queries):
    """wt, ct: table in micron / any opacity unit; queries in micron."""
    v = interp(wt, ct, V_MICRON)
    out = []
    for x in queries:
        c = interp(wt, ct, x)
        out.append(0.0 if c is None else -0.4 * c / v)
    return out
