"""Reference models: small, boring, independent of the implementation."""
