"""C04 -- results are ranked by chi^2 and every row describes one model.

Engine E1: grids built to collide (exact duplicates => tied chi^2; confidence-1
limits => chi^2 >= 1e30, several models tied at k*1e30; resolved models removed
=> some trial distances excluded), every permutation of the package order for <= 4 models
(covering set above), both fitting modes, three load variants.  Every row of
every result is recomputed by the reference *for the model the row names*.
"""
import itertools

import numpy as np

from props import _fitcommon as fc
from ref import fitref

ID = 'C04'
LEVEL = 'model_checking'
TECHNIQUE = 'exhaustive enumeration of package orders x colliding grids x modes through the real Fitter; each row recomputed from the named model by the reference'
LEVEL_TEXT = ('All permutations of the package order for 1..4 models (and a covering set for 5 and 8), with grids that contain exact duplicates, sources whose '
              'confidence-1 limits push several models to exactly tied chi^2 of 1e30 and 2e30, and resolved-model removal (chi^2 set to infinity at the excluded distances), in both modes '
              'and three load variants: each result must list every model once, be non-decreasing in chi^2, have model_id index the package order of '
              'model_name, and every row (A_V, scale, chi^2, predicted fluxes) must equal the reference recomputed for the named model.')
LEVEL_NOTE = ('Rows with tied chi^2 may come in any order; resolved-model removal is not modelled by the reference: with it switched on, rows with infinite chi^2 are '
              'judged for ranking/identity only and finite rows must be consistent with the reference at their reported distance. Finite value alphabets.')
RULE = ("cases: (mode, load variant, n_models, package permutation); executions: Fitter.fit on 7 sources built to produce ties/1e30/inf, one evaluation per row; "
        "non-trivial = distinct (case, source) whose result has >= 2 rows")
ASSUMPTIONS = ["finite value alphabets", "ties may be ordered either way"]
REQUIRED_CLASSES = ['cube-tabulated-in-Jy', 'single-known-distance', 'ninety-trial-distances', 'grid-of-hundreds-of-models', 'tied-chi2-duplicates', 'chi2>=1e30', 'tied-at-1e30', 'chi2==2e30', 'resolved-removal-moves-best-distance', 'model-removed-at-every-distance', 'infinite-and-1e30-rows-in-one-ranking', 'n_models==1', 'n_models==8', 'permuted-package',
                    'mode-2d', 'mode-3d', 'float32-path', 'dead-model', 'near-tied-chi2']
TIMEOUT = {'quick': 300, 'thorough': 1200}
VARIANTS = [('v1', False), ('v2', True), ('v2', False), ('v2Jy', False), ('v2Jy', True)]          # v2Jy: the cube is tabulated in Jy (the convolved files stay in mJy)
BANDS = ['B1', 'B2', 'B3', 'B5']

SOURCES = [  # flags, limit flux factor, confidences
    ((1, 1, 1, 1), None),
    ((1, 1, 1, 3), (0.05, 1.0)),
    ((1, 1, 3, 3), (0.05, 1.0)),
    ((4, 1, 1, 2), (20.0, 0.9)),
    ((1, 1, 1, 0), None),
    ((1, 9, 1, 1), None),
    ((1, 1, 2, 3), (1.0, 1.0)),
]


def perms_for(n, tier):
    if n <= 4 or (tier == 'thorough' and n <= 6):
        return list(itertools.permutations(range(n)))          # thorough: every permutation of up to 6 models
    out = [tuple(range(n)), tuple(reversed(range(n)))]
    out += [tuple((i + r) % n for i in range(n)) for r in range(1, n)]
    for i in range(n - 1):
        p = list(range(n))
        p[i], p[i + 1] = p[i + 1], p[i]
        out.append(tuple(p))
    return out if tier == 'thorough' else out[:2] + out[2::3]


def setup(tier, seed):
    out = []
    for mode in ('2d', '3d'):
        for iv in range(len(VARIANTS)):
            for n in ((1, 2, 3, 4, 5, 8) if tier == 'quick' else (1, 2, 3, 4, 5, 6, 8)):
                for p in perms_for(n, tier):
                    if tier == 'thorough' and n == 6 and not (iv == 0 or (mode == '2d' and iv == 1)):
                        continue          # 720 permutations: per-file packages in both modes, cube packages in the distance-independent mode
                    if tier == 'quick' and n == 4 and iv != 0 and (sum(i * x for i, x in enumerate(p)) + seed) % 3:
                        continue
                    if iv >= 3 and (n not in (3, 5) or (tier == 'quick' and list(p) != sorted(p) and p != perms_for(n, tier)[1])):
                        continue
                    out.append({'mode': mode, 'variant': iv, 'n': n, 'perm': list(p)})
    # scale: a few hundred models (row and rank indices beyond 127 / 255), package order scrambled
    nbig = 300 if tier == 'quick' else 1000
    for mode in ('2d', '3d'):
        for iv in ((0, 1) if tier == 'quick' else (0, 1, 2)):
            out.append({'mode': mode, 'variant': iv, 'n': nbig, 'perm': [(i * 7919 + 5) % nbig for i in range(nbig)]})
    # scale: several thousand models (beyond 4096) in the distance-independent mode
    nhuge = 5000 if tier == 'quick' else 20000
    out.append({'mode': '2d', 'variant': 0, 'n': nhuge, 'perm': [(i * 7919 + 5) % nhuge for i in range(nhuge)]})
    # a distance-dependent package fitted at ONE known distance (not 1 kpc)
    for iv in (0, 1):
        out.append({'mode': '3d', 'variant': iv, 'n': 5, 'perm': [4, 2, 0, 3, 1], 'single_distance': True})
    # scale: 90 trial distances (beyond 64) in the distance-dependent mode
    for iv in ((0, 1) if tier == 'quick' else (0, 1, 2)):
        for p in ([4, 2, 0, 3, 1], [0, 1, 2, 3, 4]):
            out.append({'mode': '3d', 'variant': iv, 'n': 5, 'perm': p, 'fine': True})
    return {'tier': tier, 'seed': seed, 'cases': out}


def cases(ctx):
    return iter(ctx['cases'])


def evidence_extra(ctx):
    return {'bounds': 'n_models {1,2,3,4 all permutations (thorough: 5 and 6 too); 5,8 covering set} x 2 modes x 3 load variants x 7 sources (+ remove_resolved on/off in the distance-dependent mode)',
            'alphabet_digest': 'seed=%d' % ctx['seed']}


def _grid(seed, n):
    """n physical models 'p0..': p1 duplicates p0; for n>=5 p4 duplicates p0 too (three-way tie)."""
    f = fc.grid2d(seed * 10 + 2, n_models=max(n, 2), bands=BANDS, special=False)[:n]
    if n >= 2:
        f[1] = f[0]
    if n >= 5:
        f[4] = f[0]
    # near-ties: a pure scaling of p0 (same chi^2 up to rounding in the 2-parameter mode) and a copy that differs
    # in the 9th digit -- the ranking must be non-decreasing to the last bit, not only to single precision
    if n >= 3:
        f[2] = f[0] * 1.7
    if n >= 8:
        f[5] = f[0] * (1.0 + 3e-9 * np.array([1.0, -1.0, 1.0, -1.0]))
        f[6] = f[0] * (1.0 - 2e-9 * np.array([1.0, 1.0, -1.0, -1.0])) * 0.31
    return f


def run_case(ctx, case, rec, d):
    seed = ctx['seed']
    mode, n = case['mode'], case['n']
    fmt, memmap = VARIANTS[case['variant']]
    cube_unit = 'mJy'
    if fmt.endswith('Jy'):
        fmt, cube_unit = fmt[:-2], 'Jy'
        rec.cls('cube-tabulated-in-Jy')
    perm = case['perm']
    phys_names = ['p%d_%s' % (i, 'kcsaqdeb'[i % 8]) for i in range(n)]          # (names ending in s, d, e or _ are names like any other)
    if n >= 2:
        phys_names[1] = phys_names[1] + '_'
    names = [phys_names[i] for i in perm]                 # package order
    k = fc.law_k('power', [fc.BAND_WAV[b] for b in BANDS])
    avlo, avhi = (0.0, 10.0) if case['variant'] != 2 else (2.5, 2.5)        # one load variant runs with A_V pinned to a non-zero value
    rec.cls('mode-' + mode)
    if n == 1:
        rec.cls('n_models==1')
    if n == 8:
        rec.cls('n_models==8')
    if n > 256:
        rec.cls('grid-of-hundreds-of-models')
    if list(perm) != sorted(perm):
        rec.cls('permuted-package')
    if mode == '2d':
        fphys = _grid(seed, n)
        spec = {'fmt': fmt, 'names': names, 'bands': BANDS, 'flux': fphys[perm], 'cube_unit': cube_unit}
        md = fc.build_package(d, 'pkg', spec)
        fitters = [(fc.make_fitter(md, BANDS, 'power', (avlo, avhi), memmap=memmap), False)]
        logm = np.log10(fphys[perm])
        base = fphys[0] * 10 ** (2.0 * k) * 5.0
    else:
        ap, tphys = fc.grid3d(seed * 10 + 4, n_models=max(n, 2), n_ap=4, bands=BANDS)
        tphys = tphys[:n]
        if n >= 2:
            tphys[1] = tphys[0]
        if n >= 5:
            tphys[4] = tphys[0]
        # make the last physical model strongly extended (surface brightness rising outwards: resolved at every trial distance)
        tphys[n - 1] = tphys[n - 1][:, :1] * np.array([1.0, 1e3, 1e6, 1e9])[None, :]
        step = 0.02 if case.get('fine') else 0.15
        spec = {'fmt': fmt, 'names': names, 'bands': BANDS, 'apertures': ap, 'tables': tphys[perm], 'logd_step': step, 'cube_unit': cube_unit}
        md = fc.build_package(d, 'pkg', spec)
        dmin, dmax = (0.2, 12.0) if case.get('fine') else (0.4, 6.0)
        if case.get('single_distance'):
            dmin = dmax = 1.7
            rec.cls('single-known-distance')
        if case.get('fine'):
            rec.cls('ninety-trial-distances')
        dunit = ['kpc', 'pc', 'cm'][case['variant'] % 3]
        fitters = [(fc.make_fitter(md, BANDS, 'power', (avlo, avhi), distance_range_kpc=(dmin, dmax), memmap=memmap, dunit=dunit), False),
                   (fc.make_fitter(md, BANDS, 'power', (avlo, avhi), distance_range_kpc=(dmin, dmax), memmap=memmap, remove_resolved=True, dunit=dunit), True)]
        prob, grid = fc.judge_grid(fitters[0][0], dmin, dmax, step)
        if prob:
            rec.violation('grid|%s' % prob.split(':')[0], {}, {'problem': prob})
            return
        logm3 = fitref.model_logflux_3d([tphys[perm][:, b, :] for b in range(len(BANDS))], [ap] * len(BANDS), [1.0] * len(BANDS), grid)
        logd = np.log10(grid)
        base = 10 ** (logm3[perm.index(0), len(grid) // 2, :] + 2.0 * k)
    cfg = (mode, case['variant'], n, tuple(perm), bool(case.get('fine')), bool(case.get('single_distance')))
    # ---- a model that emits nothing in one band (zero flux): it is outside the strict quantifier (positive fluxes) but must at least
    # end up behind every live model (chi^2 >= 1e30 or undefined), and must not disturb the other rows (differential oracle: the same package without it)
    if n in (3, 5) and mode == '2d':
        dead_names = names + ['p_dead']
        fdead = np.vstack([fphys[perm], fphys[perm][0:1] * 1.0])
        fdead[-1, 1] = 0.0
        # (in a cube package the dead model is also flagged invalid in the cube: it is still a model of the package)
        md_d = fc.build_package(d, 'pkg_dead', {'fmt': fmt, 'names': dead_names, 'bands': BANDS, 'flux': fdead, 'valid': [1] * (len(dead_names) - 1) + [0]})
        ft_d = fc.make_fitter(md_d, BANDS, 'power', (avlo, avhi), memmap=memmap)
        for si, (fv, lim) in enumerate(SOURCES[:1] + SOURCES[4:6]):
            fl = base * np.array([1.0, 1.15, 0.9, 1.05])
            er = fl * 0.1
            a = fitters[0][0].fit(fc.make_source(fv, fl, er))
            b = ft_d.fit(fc.make_source(fv, fl, er))
            rec.trans(2)
            rec.ev(n + 1)
            rec.cls('dead-model')
            bn = [str(x).strip() for x in np.asarray(b.model_name)]
            an = [str(x).strip() for x in np.asarray(a.model_name)]
            bch = fc._asf(b.chi2)
            prob = None
            if sorted(bn) != sorted(dead_names):
                prob = 'names %r' % bn
            elif bn[-1] != 'p_dead' or not (bch[-1] >= 1e30 or bch[-1] != bch[-1]):
                prob = 'the model with zero flux in a fitted band is at rank %d with chi2 %r (expected last, with chi2 >= 1e30 or undefined)' % (bn.index('p_dead') + 1, bch[bn.index('p_dead')])
            else:
                # compared by model name: rows with exactly tied chi^2 may come in either order
                da = {nm_: (c_, v_) for nm_, c_, v_ in zip(an, fc._asf(a.chi2), fc._asf(a.av))}
                db = {nm_: (c_, v_) for nm_, c_, v_ in zip(bn[:-1], bch[:-1], fc._asf(b.av)[:-1])}
                if set(da) != set(db) or any(not np.allclose(da[k_], db[k_], rtol=1e-12, atol=1e-12) for k_ in da) or np.any(np.diff(bch[:-1]) < 0):
                    prob = 'live rows differ from the package without the dead model'
            if prob:
                rec.violation('rank|2d|dead-model', {'source': si}, {'problem': prob, 'flags': list(fv), 'ranking': bn, 'chi2': bch})
    from mc.canon import canon as _canon
    for fitter, rr in fitters:
        handed_out = []
        f32 = fc.observed_f32(fitter)
        if f32:
            rec.cls('float32-path')
        for si, (fv, lim) in enumerate(SOURCES):
            fl = base * np.array([1.0, 1.15, 0.9, 1.05])
            er = fl * 0.1
            fl, er = fl.copy(), er.copy()
            for j, v in enumerate(fv):
                if v in (2, 3):
                    fl[j] = base[j] * (lim[0] if v == 3 else 1.0 / lim[0] if lim[0] < 1 else lim[0])
                    er[j] = lim[1]
                elif v == 4:
                    fl[j] = np.log10(fl[j])
                    er[j] = 0.04
            if si == 6:       # lower limit far above and upper limit far below: every model violates one of them at least
                fl[2] = base[2] * 50.0
                fl[3] = base[3] * 0.02
            info = fitter.fit(fc.make_source(fv, fl, er))
            # a result stays what it was when later sources are fitted with the same fitter (rows must keep describing one model)
            for old_info, old_c, old_si in handed_out:
                if _canon([np.asarray(old_info.model_name), np.asarray(old_info.av), np.asarray(old_info.sc), np.asarray(old_info.chi2), np.asarray(old_info.model_id), np.asarray(old_info.model_fluxes)]) != old_c:
                    rec.violation('rank|%s|earlier-result-changed' % mode, {'source': si, 'remove_resolved': rr}, {'problem': 'the result for source %d changed when source %d was fitted' % (old_si, si), 'n_models': n})
                    handed_out = []
                    break
            handed_out.append((info, _canon([np.asarray(info.model_name), np.asarray(info.av), np.asarray(info.sc), np.asarray(info.chi2), np.asarray(info.model_id), np.asarray(info.model_fluxes)]), si))
            rec.trans()
            rec.ev(n)
            rec.trace()
            rec.state((cfg, si, rr))
            if n >= 2:
                rec.nontriv((cfg, si, rr))
            if mode == '2d':
                probs, st = fc.judge_2d(info, (list(fv), fl, er), names, logm, k, avlo, avhi, f32=f32)
            else:
                probs, st = fc.judge_3d(info, (list(fv), fl, er), names, logm3, logd, k, avlo, avhi, f32=f32, resolved_removed=rr)
            for kind, detail in probs:
                rec.violation('rank|%s|%s' % (mode, kind), {'source': si, 'remove_resolved': rr}, {'problem': detail, 'flags': list(fv), 'flux': fl, 'error': er,
                                                                                                  'names_package_order': names})
            if probs:
                continue
            ch = st['chi2']
            rec.outcome(tuple(np.round(np.minimum(ch, 1e300), 4)))
            # (ties up to rounding: whether two copies of a model get bit-identical chi^2 is up to the implementation's arithmetic)
            if n >= 2 and abs(ch[perm.index(0)] - ch[perm.index(1)]) <= 1e-9 * (1 + abs(ch[perm.index(0)])):
                rec.cls('tied-chi2-duplicates')
            if n >= 3 and mode == '2d' and abs(ch[perm.index(2)] - ch[perm.index(0)]) <= 1e-7 * abs(ch[perm.index(0)]):
                rec.cls('near-tied-chi2')
            big = ch[(ch >= 1e30) & np.isfinite(ch)]
            if len(big):
                rec.cls('chi2>=1e30')
                if len(big) >= 2 and len(set(big.tolist())) < len(big):
                    rec.cls('tied-at-1e30')
                if np.any(big >= 2e30):
                    rec.cls('chi2==2e30')
            if np.any(np.isinf(ch)):
                rec.notes['rows-with-infinite-chi2'] += 1
            if rr and mode == '3d':
                # the same source on the fitter without removal: removal can only raise a model's minimum
                base_info = fitters[0][0].fit(fc.make_source(fv, fl, er))
                b = dict(zip([str(x).strip() for x in base_info.model_name], zip(fc._asf(base_info.chi2), fc._asf(base_info.sc))))
                for m, nm in enumerate(names):
                    if ch[m] < b[nm][0] - 1e-9 * (1 + abs(b[nm][0])):
                        rec.violation('rank|3d|removal-lowers-chi2', {'source': si, 'remove_resolved': rr}, {'model': nm, 'with': ch[m], 'without': b[nm][0]})
                    if st['sc'][m] != b[nm][1]:
                        rec.cls('resolved-removal-moves-best-distance')
            if rr and mode == '3d' and si in (1, 2, 6) and isinstance(getattr(fitter.models, 'extended', None), np.ndarray):
                # one model marked resolved at EVERY trial distance (the package reader never does that at the largest distance, so the mark is
                # set on the Models object, which is all Models.fit looks at): its chi^2 is infinite and the ranking must still be a ranking --
                # infinite rows behind the finite 1e30 / 2e30 rows of models that violate a confidence-1 limit, every row one model
                keep_ext = fitter.models.extended
                for victim in sorted({0, n - 1}):
                    ext2 = keep_ext.copy()
                    ext2[victim] = True
                    fitter.models.extended = ext2
                    try:
                        info_x = fitter.fit(fc.make_source(fv, fl, er))
                    finally:
                        fitter.models.extended = keep_ext
                    rec.trans()
                    rec.ev(n)
                    prob_x, rows_x = fc.alignment(info_x, names)
                    chx = fc._asf(info_x.chi2)
                    if prob_x is None:
                        got_x = [str(x).strip() for x in np.asarray(info_x.model_name)]
                        if not np.isinf(chx[got_x.index(names[victim])]):
                            prob_x = 'the model marked resolved at every distance has chi2 %r' % chx[got_x.index(names[victim])]
                        else:
                            # the other rows are those of the fit without the mark
                            bx = dict(zip([str(x).strip() for x in info.model_name], fc._asf(info.chi2)))
                            if any(nm_ != names[victim] and c_ != bx[nm_] and not (c_ != c_ and bx[nm_] != bx[nm_]) for nm_, c_ in zip(got_x, chx)):
                                prob_x = 'marking one model resolved changed the chi2 of another'
                    rec.cls('model-removed-at-every-distance')
                    if np.any((chx >= 1e30) & np.isfinite(chx)):
                        rec.cls('infinite-and-1e30-rows-in-one-ranking')
                    if prob_x:
                        rec.violation('rank|3d|all-distances-resolved', {'source': si, 'victim': victim}, {'problem': prob_x, 'ranking': [str(x) for x in info_x.model_name], 'chi2': chx})
            if si == 1 and not rr and len(rec.samples) == 0 and n >= 3:
                rec.sample({'case': case, 'package_order': names, 'flags': list(fv), 'flux': fl, 'error': er,
                            'result_names': [str(x) for x in info.model_name], 'result_model_id': np.asarray(info.model_id), 'result_chi2': fc._asf(info.chi2)})
