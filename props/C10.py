"""C10 -- fit() writes one faithful record per eligible source and reads back
unchanged; post-processing is interchangeable over input forms and non-destructive.

(a) E1: every sequence of line kinds (3 / 2+limit / 1 / 0 fitted points) of length
    1..4 (quick) / 1..6 (thorough) plus covering longer files, deviation-bounded
    over n_data_min, output selector, output_convolved, format and mode, through
    the real fit() and the real reader, against the object interface.
(b) E2: operation histories of post-processing calls on the same results, in the
    three input forms (path / one object / list): BFS with canonical hashing of
    what was handed in, and plain enumeration of all sequences to depth 2 (3).
(c) hand-built records with NaN / inf written and read back.
"""
import hashlib
import itertools
import os

import numpy as np

from mc.canon import canon
from mc.enumerate import deviation_bounded
from props import _fitcommon as fc
from props import _postcommon as pc

ID = 'C10'
LEVEL = 'model_checking'
TECHNIQUE = 'exhaustive enumeration of data-file line sequences through the real fit()/reader, and explicit-state exploration of post-processing call histories over three input forms with canonical-state comparison'
LEVEL_TEXT = ('(a) every sequence of eligible/ineligible line kinds up to length 4 (quick) / 6 (thorough) and covering files up to 12 lines, with n_data_min, output selector, '
              'output_convolved, package format and fitting mode varied within 2 deviations: the output file must hold exactly one record per eligible line, in order, each '
              'canon-equal (NaN-aware, all fields) to Fitter.fit + keep on that line, with the metadata unchanged. (b) every sequence of up to 2 (quick) / 3 (thorough) calls out '
              'of 19 post-processing operations (plus the two parameter plots, each tried in every input form) on the same results, given as a path, one object, or a list: after every call the results handed in must be canon-identical to '
              'before (file bytes included), every output must equal the output of the same call made first, and the three forms must give identical outputs.')
LEVEL_NOTE = ('Photometry from a finite alphabet; records are compared through the canonical encoding (bit-wise on arrays). plot() is run with output_dir=None and its LineCollection '
              'segments are the observable. A fit() run that writes no record is outside the claim. The one-object form is compared on single-source results.')
RULE = ("(a) cases: (line sequence chunk, configuration); one execution per data file, one evaluation per record. (b) a state is the canonical hash of everything handed to the calls "
        "(objects and file bytes); a transition is one post-processing call; non-trivial = distinct (configuration, sequence) of length >= 2 / data files with at least one ineligible line")
ASSUMPTIONS = ["finite value alphabets", "output paths are always fresh (the library prompts before overwriting)"]
REQUIRED_CLASSES = ['drawn-data-of-a-source-with-a-plot-only-point', 'line-repeating-the-numbers-of-the-previous-line-under-other-flags', 'held-result-keeps-its-metadata', 'remove-resolved-after-a-default-call', 'ineligible-line-skipped', 'all-eligible', 'selector-cuts', 'without-model-fluxes', 'with-model-fluxes', 'mode-2d', 'mode-3d', 'format-v2', 'history-depth-2',
                    'form-path', 'form-object', 'form-list', 'op-plot', 'op-filter_output', 'op-write_parameters', 'op-write_parameter_ranges', 'op-extract_parameters',
                    'nan-inf-record-roundtrip', 'longer-file', 'law-in-other-unit', 'op-plot_params_1d', 'op-plot_params_2d', 'op-plot-convolved', 'no-trailing-newline', 'selector-keeps-nothing', 'data-as-open-file', 'single-model-package', 'duplicate-source-names', 'record-without-fits-handed-on']
TIMEOUT = {'quick': 900, 'thorough': 3600}

KINDS = {'A': (1, 1, 1), 'B': (1, 4, 3), 'C': (1, 0, 9), 'D': (0, 2, 3)}
B3 = ['B1', 'B3', 'B5']
AXES_A = {'n_data_min': [2, 1, 3, 0], 'sel': [('A', 0), ('N', 2), ('F', 3.0), ('N', 0), ('C', 1e-6)], 'conv': [True, False], 'fmt': ['v1', 'v2'], 'mode': ['2d', '3d'], 'law': ['power', 'nonmono@nm'], 'n_models': [5, 1], 'rr': [False, True]}
SELS_B = [('N', 1), ('N', 3), ('A', 0), ('F', 2.0)]


def setup(tier, seed):
    out = []
    lmax = 4 if tier == 'quick' else 6
    seqs = [''.join(t) for L in range(1, lmax + 1) for t in itertools.product('ABCD', repeat=L)]
    cfgs = list(deviation_bounded(AXES_A, 2 if tier == 'quick' else 3))
    chunk = 40 if tier == 'quick' else 200
    for ci, cfg in enumerate(cfgs):
        sub = seqs if cfg['_deviations'] <= 1 else seqs[:84]           # deeper deviations: all sequences up to length 3
        for i in range(0, len(sub), chunk):
            out.append({'part': 'a', 'cfg': {k: v for k, v in cfg.items()}, 'seqs': sub[i:i + chunk]})
    long_seqs = ['ABCDABCDABCD', 'DDDDDDDDDDDA', 'ACACACACAC', 'BBBBBBBB', 'DCBADCBA', 'CCCCCCCCCCCC']
    out.append({'part': 'a', 'cfg': dict(next(iter(deviation_bounded(AXES_A, 0)))), 'seqs': long_seqs, 'long': True})
    depth = 2 if tier == 'quick' else 3
    for fmt in ('v2',):
        for n_src in (1, 3, 2):
            for first in range(19 if n_src != 2 else 17):
                out.append({'part': 'b', 'fmt': fmt, 'n_src': n_src, 'first_op': first, 'depth': depth, 'zero_fit_record': (n_src == 2)})
    out.append({'part': 'c'})
    for n_src in (1, 3):
        for fname in ('plot_params_1d', 'plot_params_2d'):
            out.append({'part': 'b2', 'n_src': n_src, 'fname': fname})
    for n_src in (1, 3, 5):
        out.append({'part': 'b3', 'n_src': n_src})
    return {'tier': tier, 'seed': seed, 'cases': out}


def cases(ctx):
    return iter(ctx['cases'])


def evidence_extra(ctx):
    return {'bounds': '(a) all line sequences of length 1..%d over 4 kinds x configurations within %d deviations over %s + 6 longer files; (b) all sequences of <=%d of 19 operations x 3 input forms x {1,3} sources; (b3) plot() writing files for {1,3,5} sources x 3 input forms, drawn data compared; (c) record sequences'
                      % (4 if ctx['tier'] == 'quick' else 6, 2 if ctx['tier'] == 'quick' else 3, {k: len(v) for k, v in AXES_A.items()}, 2 if ctx['tier'] == 'quick' else 3),
            'alphabet_digest': 'seed=%d' % ctx['seed']}


def run_case(ctx, case, rec, d):
    if case['part'] == 'a':
        return _part_a(ctx, case, rec, d)
    if case['part'] == 'b':
        return _part_b(ctx, case, rec, d)
    if case['part'] == 'b2':
        return _part_b2(ctx, case, rec, d)
    if case['part'] == 'b3':
        return _part_b3(ctx, case, rec, d)
    return _part_c(ctx, case, rec, d)


# ---------------------------------------------------------------------------

def _line(name, kind, base, idx, seed):
    from sedfitter.source import Source
    fv = KINDS[kind]
    fl, er = fc.photometry(fv, base * (1.0 + 0.17 * (idx % 5)), idx + 4 * seed, conf_rot=idx)
    for j, v in enumerate(fv):
        if v in (2, 3):
            er[j] = 0.5
    s = Source()
    s.name = name
    s.x = 10.0 + idx
    s.y = -1.5 * idx
    s.valid = np.array(fv)
    s.flux = fl
    s.error = er
    return s.to_ascii()


def _strip(info, with_meta=False):
    out = [info.source, np.asarray(info.av), np.asarray(info.sc), np.asarray(info.chi2), np.asarray(info.model_id), np.asarray(info.model_name),
           None if info.model_fluxes is None else np.asarray(info.model_fluxes)]
    if with_meta:
        out += [info.meta.model_dir, info.meta.filters, info.meta.extinction_law]
    return out


def _part_a(ctx, case, rec, d):
    from astropy import units as u
    from sedfitter.fit import fit, Fitter
    from sedfitter.fit_info import FitInfoFile
    from sedfitter.source import Source
    seed = ctx['seed']
    cfg = case['cfg']
    mode, fmt = cfg['mode'], cfg['fmt']
    sel = tuple(cfg['sel'])
    rec.cls('mode-' + mode)
    if fmt == 'v2':
        rec.cls('format-v2')
    nm_ = cfg.get('n_models', 5)
    names = fc.names_for(nm_)
    if nm_ == 1:
        rec.cls('single-model-package')
    k = fc.law_k(cfg.get('law', 'power'), [fc.BAND_WAV[b] for b in B3])
    if cfg.get('law', 'power') != 'power':
        rec.cls('law-in-other-unit')
    if mode == '2d':
        f = fc.grid2d(seed * 10 + 13, n_models=5, bands=B3, special=False)[:nm_]
        md = fc.build_package(d, 'pkg', {'fmt': fmt, 'names': names, 'bands': B3, 'flux': f})
        base = f[min(2, nm_ - 1)] * 10 ** (1.2 * k) * 3.0
    else:
        ap, t = fc.grid3d(seed * 10 + 14, n_models=5, n_ap=3, bands=B3)
        t = t[:nm_]
        if nm_ == 5:
            t[4] = t[4][:, :1] * np.array([1.0, 1.0, 1e6])[None, :]          # one model resolved at most trial distances (matters with remove_resolved)
        md = fc.build_package(d, 'pkg', {'fmt': fmt, 'names': names, 'bands': B3, 'apertures': ap, 'tables': t, 'logd_step': 0.25})
        base = t[min(2, nm_ - 1)][:, 1] * 10 ** (1.2 * k) * 0.5
    law = fc.law_object(cfg.get('law', 'power'))
    kw = dict(extinction_law=law, av_range=[0.0, 6.0], distance_range=np.array([0.5, 4.0]) * u.kpc)
    theta = np.ones(3) * u.arcsec
    rr = bool(cfg.get('rr')) and mode == '3d'
    if rr:
        rec.cls('remove-resolved-after-a-default-call')
    ref_fitter = Fitter(list(B3), theta, md, remove_resolved=rr, **kw)
    kw_fit = dict(kw, remove_resolved=True) if rr else kw
    ckey = tuple(sorted((kk, str(v)) for kk, v in cfg.items()))
    # a result held in memory keeps ITS metadata when another fitter (other package directory, other filters, other law) is
    # built and used in the same process
    try:
        if case['seqs'][0] != 'A':
            raise StopIteration          # once per configuration (its first chunk of line sequences)
        s_held = Source.from_ascii(_line('held', 'A', base, 0, seed))
        held_info = ref_fitter.fit(s_held)
        m0 = canon([held_info.meta.model_dir, held_info.meta.filters, held_info.meta.extinction_law])
        if mode == '2d':
            md_o = fc.build_package(d, 'pkg_other', {'fmt': fmt, 'names': names, 'bands': B3, 'flux': f * 2.0})
        else:
            md_o = fc.build_package(d, 'pkg_other', {'fmt': fmt, 'names': names, 'bands': B3, 'apertures': ap, 'tables': t * 2.0, 'logd_step': 0.25})
        other = Fitter(list(B3[:2]), np.ones(2) * 2.0 * u.arcsec, md_o, extinction_law=fc.law_object('three'), av_range=[0.0, 3.0], distance_range=np.array([0.5, 4.0]) * u.kpc)
        s_o = Source()
        s_o.name, s_o.x, s_o.y = 'other', 0.0, 0.0
        s_o.valid = np.array([1, 1])
        s_o.flux = np.array([1.0, 2.0])
        s_o.error = np.array([0.1, 0.2])
        other.fit(s_o)
        rec.trans(2)
        rec.ev()
        rec.cls('held-result-keeps-its-metadata')
        if held_info.meta.model_dir != md or canon([held_info.meta.model_dir, held_info.meta.filters, held_info.meta.extinction_law]) != m0:
            rec.violation('fit()|metadata', {'held_result': True}, {'problem': 'a result held in memory reports model_dir %r after another fitter (package %r) was used; it was obtained with %r' % (held_info.meta.model_dir, md_o, md)})
    except StopIteration:
        pass
    except Exception as e:
        from mc.runner import exc_signature
        rec.violation('fit()|' + exc_signature(e), {'held_result': True}, {'type': type(e).__name__, 'msg': str(e)[:300]})
    for si, seq in enumerate(case['seqs']):
        # every third file repeats a source name (two lines may well carry the same name)
        lines = [_line('s%02d_%s' % ((i if (si % 3 or i == 0) else i - 1), kd) if si % 3 == 0 and False else (('s#%02d' if si % 4 == 1 else 's%02d') % (i // 2 if si % 3 == 0 else i)), kd, base, i, seed) for i, kd in enumerate(seq)]          # (a '#' is a character like any other in a name)
        if si % 3 == 0 and len(seq) >= 2:
            rec.cls('duplicate-source-names')
        if si % 5 == 2:
            # a line may carry exactly the numbers of the line before it under other flags (a catalogue that repeats a measurement as a limit, say)
            for i in range(1, len(seq)):
                if seq[i - 1] == 'A' and seq[i] != 'A':
                    prev_ = Source.from_ascii(lines[i - 1])
                    cur_ = Source.from_ascii(lines[i])
                    cur_.valid = np.array(KINDS[seq[i]])
                    cur_.flux = np.array(prev_.flux, float)
                    cur_.error = np.array(prev_.error, float)
                    lines[i] = cur_.to_ascii()
                    rec.cls('line-repeating-the-numbers-of-the-previous-line-under-other-flags')
        srcs = [Source.from_ascii(l) for l in lines]
        elig = [s for s in srcs if sum(1 for v in s.valid if v in (1, 4)) >= cfg['n_data_min']]
        if not elig:
            rec.notes['no-eligible-line: outside the claim'] += 1
            continue
        data = os.path.join(d, 'data_%d.txt' % si)
        with open(data, 'w') as fh:
            # the last line of a data file may or may not end with a newline
            fh.write('\n'.join(lines) + ('\n' if si % 2 == 0 else ''))
        if si % 2:
            rec.cls('no-trailing-newline')
        out = os.path.join(d, 'out_%d.fitinfo' % si)
        sub = {'lines': seq}
        try:
            if rr and si == 0:
                # the same package is first fitted with the option at its default, in the same process
                fit(data, list(B3), theta, md, os.path.join(d, 'out_default.fitinfo'), n_data_min=cfg['n_data_min'], output_format=sel, output_convolved=cfg['conv'], **kw)
            if si % 3 == 2:
                # the data may also be handed over as an open file
                with open(data, 'r') as fh_in:
                    fit(fh_in, list(B3), theta, md, out, n_data_min=cfg['n_data_min'], output_format=sel, output_convolved=cfg['conv'], **kw_fit)
                rec.cls('data-as-open-file')
            else:
                fit(data, list(B3), theta, md, out, n_data_min=cfg['n_data_min'], output_format=sel, output_convolved=cfg['conv'], **kw_fit)
            fin = FitInfoFile(out, 'r')
            recs = list(fin)
            meta = fin.meta
            fin.close()
        except Exception as e:
            from mc.runner import exc_signature
            rec.violation('fit()|' + exc_signature(e), sub, {'type': type(e).__name__, 'msg': str(e)[:300]})
            continue
        rec.trans()
        rec.trace()
        rec.state((ckey, seq))
        rec.ev(len(recs))
        rec.outcome((len(recs), len(lines)))
        if len(elig) < len(lines):
            rec.cls('ineligible-line-skipped')
            rec.nontriv((ckey, seq))
        else:
            rec.cls('all-eligible')
        rec.cls('with-model-fluxes' if cfg['conv'] else 'without-model-fluxes')
        if case.get('long'):
            rec.cls('longer-file')
        if [r.source.name for r in recs] != [s.name for s in elig]:
            rec.violation('fit()|records-vs-eligible-lines', sub, {'records': [r.source.name for r in recs], 'eligible': [s.name for s in elig], 'n_data_min': cfg['n_data_min']})
            continue
        bad = None
        held = [ref_fitter.fit(s) for s in elig]          # the object interface, all results held before any is looked at
        for r, s, e in zip(recs, elig, held):
            if not cfg['conv']:
                e.model_fluxes = None
            n_before = len(e.chi2)
            e.keep(sel)
            if len(e.chi2) < n_before:
                rec.cls('selector-cuts')
            if len(e.chi2) == 0:
                rec.cls('selector-keeps-nothing')
            if canon(_strip(r)) != canon(_strip(e)):
                what = [nm for nm, a, b in zip(('source', 'av', 'sc', 'chi2', 'model_id', 'model_name', 'model_fluxes'), _strip(r), _strip(e)) if canon(a) != canon(b)]
                bad = 'record of %s differs from Fitter.fit + keep%r in %s' % (s.name, sel, what)
                break
        if bad is None:
            want_filters = held[0].meta.filters          # what the object interface attaches to its results
            if meta.model_dir != md or canon(meta.filters) != canon(want_filters) or canon(meta.extinction_law) != canon(law):
                bad = 'metadata read back differs (model_dir / filters / extinction law)'
            elif any(canon([r.meta.model_dir, r.meta.filters, r.meta.extinction_law]) != canon([md, want_filters, law]) for r in recs):
                bad = 'a record carries other metadata'
        if bad:
            rec.violation('fit()|%s' % ('metadata' if 'metadata' in bad else 'record-content'), sub, {'problem': bad, 'config': {kk: v for kk, v in cfg.items()}})
        if si == 5 and cfg.get('_deviations') == 0:
            rec.sample({'part': 'a', 'lines': seq, 'line_kinds': {kk: list(v) for kk, v in KINDS.items()}, 'config': {kk: v for kk, v in cfg.items()}, 'records': [r.source.name for r in recs]})


# ---------------------------------------------------------------------------

def _ops():
    ops = []
    for fn in ('write_parameters', 'write_parameter_ranges', 'extract_parameters', 'plot'):
        for s in SELS_B:
            ops.append((fn, s))
    ops.append(('plot-convolved', ('N', 2)))
    ops.append(('filter_output', ('chi', None)))
    ops.append(('filter_output', ('cpd', None)))
    return ops


def _run_op(op, arg, d, tag, thr):
    """Execute one post-processing call; return a canonical digest of everything it produced."""
    import sedfitter
    from sedfitter.fit_info import FitInfoFile
    fn, sel = op
    if fn == 'write_parameters':
        out = os.path.join(d, tag + '.wp')
        sedfitter.write_parameters(arg, out, select_format=tuple(sel))
        return open(out).read()
    if fn == 'write_parameter_ranges':
        out = os.path.join(d, tag + '.wr')
        sedfitter.write_parameter_ranges(arg, out, select_format=tuple(sel))
        return open(out).read()
    if fn == 'extract_parameters':
        pre = os.path.join(d, tag + '_ex_')
        sedfitter.extract_parameters(input=arg, output_prefix=pre, output_suffix='.txt', select_format=tuple(sel))
        import glob
        return [(os.path.basename(p)[len(tag) + 4:], open(p).read()) for p in sorted(glob.glob(pre + '*'))]
    if fn == 'plot':
        figs = sedfitter.plot(arg, output_dir=None, select_format=tuple(sel))
        return {k: [np.asarray(sg) for sg in v['lines'].get_segments()] if 'lines' in v else None for k, v in figs.items()}
    if fn == 'plot-convolved':
        figs = sedfitter.plot(arg, output_dir=None, select_format=tuple(sel), show_convolved=True)
        return {k: [np.asarray(sg) for sg in v['lines'].get_segments()] if 'lines' in v else None for k, v in figs.items()}
    if fn == 'filter_output':
        good, bad = os.path.join(d, tag + '.good'), os.path.join(d, tag + '.bad')
        kw = {'chi': thr['chi']} if sel[0] == 'chi' else {'cpd': thr['cpd']}
        sedfitter.filter_output(arg, output_good=good, output_bad=bad, **kw)
        res = []
        for p in (good, bad):
            if os.path.getsize(p) == 0:
                res.append([])
                continue
            f = FitInfoFile(p, 'r')
            res.append([_strip(r) for r in f])
            f.close()
        return res
    raise ValueError(fn)


def _part_b(ctx, case, rec, d):
    seed = ctx['seed']
    md, pk = pc.build(d, 'pkg', case['fmt'], 4, perm=[2, 0, 3, 1], n_cols=2, seed=seed)
    fitter = pc.fitter_for(md)
    srcs = pc.sources(pk, seed, n_sources=case['n_src'])
    ops = _ops()
    if case.get('zero_fit_record'):
        # filter_output splits by each source's best chi^2: a record without fits has none (outside C18's quantifier too)
        ops = [o for o in ops if o[0] != 'filter_output']
    base_infos = pc.fit_all(fitter, srcs)
    chis = sorted(float(np.asarray(i.chi2, float)[0]) for i in base_infos)
    thr = {'chi': (0.5 * (chis[0] + chis[-1]) if len(chis) > 1 else chis[0] * 2) + 1e-3, 'cpd': chis[0] * 0.9 / 4 + 1e-4}
    forms = ['path', 'list'] + (['object'] if case['n_src'] == 1 else [])

    def fresh(form, tag):
        infos = pc.fit_all(fitter, srcs)
        if case.get('zero_fit_record'):
            infos[1].keep(('N', 0))          # a record without fits, as fit() writes it when its selector keeps nothing for a source
            rec.cls('record-without-fits-handed-on')
        if form == 'path':
            p = pc.write_file(os.path.join(d, tag + '.fitinfo'), infos)
            return p, ('path', p)
        if form == 'object':
            return infos[0], ('objs', [infos[0]])
        return infos, ('objs', infos)

    def state_of(handle):
        kind, h = handle
        if kind == 'path':
            return hashlib.sha1(open(h, 'rb').read()).hexdigest()
        return canon([_strip(i, with_meta=True) for i in h])

    # outputs of every operation made FIRST, per form
    first_out = {}
    n = [0]
    for form in forms:
        rec.cls('form-' + form)
        for oi, op in enumerate(ops):
            n[0] += 1
            arg, handle = fresh(form, 'f%d' % n[0])
            try:
                first_out[(form, oi)] = canon(_run_op(op, arg, d, 'o%d' % n[0], thr))
            except Exception as e:
                from mc.runner import exc_signature
                rec.violation('post|%s|%s' % (op[0], exc_signature(e)), {'op': [op[0], list(op[1])], 'form': form}, {'type': type(e).__name__, 'msg': str(e)[:300]})
                first_out[(form, oi)] = None
            rec.trans()
            rec.cls('op-' + op[0])
    for oi, op in enumerate(ops):
        vals = {form: first_out[(form, oi)] for form in forms}
        rec.ev()
        if len(set(vals.values())) > 1 and None not in vals.values():
            rec.violation('post|forms-disagree|%s' % op[0], {'op': [op[0], list(op[1])]}, {'problem': 'the same call gives different output depending on the form the results are passed in', 'forms': forms, 'n_sources': case['n_src']})
    # histories: all sequences starting with first_op, to the depth bound, no deduplication
    seqs = [[case['first_op']] + list(t) for L in range(0, case['depth']) for t in itertools.product(range(len(ops)), repeat=L)]
    seen_states = {}
    for form in forms:
        for seq in seqs:
            n[0] += 1
            arg, handle = fresh(form, 'h%d' % n[0])
            s0 = state_of(handle)
            seen_states.setdefault(form, set()).add(s0)
            rec.state((case['n_src'], form, s0))
            for step, oi in enumerate(seq):
                op = ops[oi]
                sub = {'form': form, 'sequence': [[ops[q][0], list(ops[q][1])] for q in seq[:step + 1]]}
                try:
                    got = canon(_run_op(op, arg, d, 'q%d_%d' % (n[0], step), thr))
                except Exception as e:
                    from mc.runner import exc_signature
                    if first_out[(form, oi)] is not None:
                        rec.violation('post|history-exception|%s' % op[0], sub, {'type': type(e).__name__, 'msg': str(e)[:200], 'site': exc_signature(e)})
                    break
                rec.trans()
                rec.ev()
                s1 = state_of(handle)
                if s1 not in seen_states[form]:
                    seen_states[form].add(s1)
                    rec.state((case['n_src'], form, s1))
                rec.outcome(got)
                if s1 != s0:
                    rec.violation('post|results-modified|%s|%s' % (op[0], form), sub, {'problem': 'the results handed to %s are not what they were before the call' % op[0]})
                    s0 = s1
                if first_out[(form, oi)] is not None and got != first_out[(form, oi)]:
                    rec.violation('post|output-depends-on-history|%s|%s' % (op[0], form), sub, {'problem': 'output differs from the same call made first on the same results'})
            rec.trace()
            if len(seq) >= 2:
                rec.nontriv((case['n_src'], form, tuple(seq)))
                rec.cls('history-depth-2')
    if case['first_op'] == 0:
        rec.sample({'part': 'b', 'operations': [[o[0], list(o[1])] for o in ops], 'forms': forms, 'n_sequences_per_form': len(seqs), 'example_sequence': [[ops[q][0], list(ops[q][1])] for q in seqs[-1]]})


def _part_c(ctx, case, rec, d):
    """hand-built records (NaN, inf, 0 fits, with/without predicted fluxes): every sequence of length 1..3"""
    from sedfitter.fit_info import FitInfoFile
    from props import C19
    meta = C19._meta(d)
    kinds = ['f0', 'f1m', 'f3mx', 'f3x', 'f1L', 'f3mW', 'f3mE', 'f3Ex', 'f3mA', 'f3mO', 'f3U', 'f3mR']
    n = 0
    for L in (1, 2, 3):
        for seq in itertools.product(kinds, repeat=L):
            p = os.path.join(d, 'c_%d.fitinfo' % n)
            n += 1
            # (written through the history helper of C19: a kind with R writes the very same result object as the record before
            # it, cut down to its best fit in between; what must come back is each record as it was when it was written)
            recs, written_c = C19._write_history(p, list(seq), meta)
            fin = FitInfoFile(p, 'r')
            got = list(fin)
            m = fin.meta
            fin.close()
            rec.ev(len(recs))
            rec.trans()
            rec.state(('c', seq))
            rec.cls('nan-inf-record-roundtrip')
            rec.outcome(len(got))
            if [canon(g) for g in got] != written_c or canon([m.model_dir, m.filters, m.extinction_law]) != canon(list(meta)):
                rec.violation('fitinfofile|roundtrip', {'kinds': list(seq)}, {'read': len(got), 'written': len(recs)})


def _part_b3(ctx, case, rec, d):
    """plot() writing files: what it draws for the DATA of each source (markers and error bars, recorded at matplotlib's Axes.scatter /
    Axes.errorbar -- the plotting library, not the fitter) must not depend on whether the results come from the file or are the objects
    the fitter returned (which have been through a fit, and may have been looked at since)."""
    import matplotlib
    matplotlib.use('Agg')
    from matplotlib.axes import Axes
    import sedfitter
    seed = ctx['seed']
    md, pk = pc.build(d, 'pkg', 'v2', 4, perm=[2, 0, 3, 1], n_cols=2, seed=seed)
    fitter = pc.fitter_for(md)
    srcs = pc.sources(pk, seed, n_sources=case['n_src'])
    infos = pc.fit_all(fitter, srcs)
    path = pc.write_file(os.path.join(d, 'b3.fitinfo'), infos)
    if any(9 in fv for _, fv, _, _ in srcs):
        rec.cls('drawn-data-of-a-source-with-a-plot-only-point')
    drawn = {}
    orig_sc, orig_eb = Axes.scatter, Axes.errorbar
    for form in ('file', 'list', 'objects'):
        calls = []

        def sc(self, x, y, *a, **k):
            calls.append(['scatter', np.asarray(x, float).ravel().tolist(), np.asarray(y, float).ravel().tolist(), str(k.get('marker')), str(k.get('facecolor'))])
            return orig_sc(self, x, y, *a, **k)

        def eb(self, x, y, *a, **k):
            calls.append(['errorbar', np.asarray(x, float).ravel().tolist(), np.asarray(y, float).ravel().tolist(), np.asarray(k.get('yerr'), float).ravel().tolist()])
            return orig_eb(self, x, y, *a, **k)
        Axes.scatter, Axes.errorbar = sc, eb
        try:
            od = os.path.join(d, 'plots_' + form)
            if form == 'objects':
                for j_, i_ in enumerate(infos):
                    sedfitter.plot(i_, output_dir=od + '_%d' % j_, select_format=('N', 1), format='png')
            else:
                sedfitter.plot(path if form == 'file' else infos, output_dir=od, select_format=('N', 1), format='png')
        except Exception as e:
            from mc.runner import exc_signature
            rec.violation('post|plot-files|' + exc_signature(e), {'form': form}, {'type': type(e).__name__, 'msg': str(e)[:300]})
            return
        finally:
            Axes.scatter, Axes.errorbar = orig_sc, orig_eb
        rec.ev()
        rec.trans()
        drawn[form] = calls
        rec.state(('b3', case['n_src'], form))
        rec.nontriv(('b3', case['n_src'], form))
    rec.trace()
    rec.outcome(len(drawn['file']))
    if not drawn['file']:
        rec.violation('post|plot-files|nothing-drawn', {}, {'problem': 'no data point was drawn'})
        return
    for form in ('list', 'objects'):
        if canon(drawn[form]) != canon(drawn['file']):
            diff = next((i for i, (a_, b_) in enumerate(zip(drawn[form], drawn['file'])) if canon(a_) != canon(b_)), None)
            rec.violation('post|plot-files|drawn-data-depends-on-form', {'form': form, 'n_src': case['n_src']},
                          {'problem': 'the data points drawn for results passed as %s differ from those drawn for the same results read from the file' % form,
                           'first_difference': None if diff is None else {'from_' + form: drawn[form][diff], 'from_file': drawn['file'][diff]}, 'n_calls': [len(drawn[form]), len(drawn['file'])]})



def _part_b2(ctx, case, rec, d):
    """The two parameter plots (each call renders a figure, so they are not part of the 18-operation histories):
    three input forms, the results handed in must be unchanged, the table they are handed must not depend on the
    form, and a writer called afterwards must give what it gives when called first."""
    import sedfitter
    from sedfitter.fit_info import FitInfo
    seed = ctx['seed']
    md, pk = pc.build(d, 'pkg', 'v2', 4, perm=[2, 0, 3, 1], n_cols=2, seed=seed)
    fitter = pc.fitter_for(md)
    srcs = pc.sources(pk, seed, n_sources=case['n_src'])
    forms = ['path', 'list'] + (['object'] if case['n_src'] == 1 else [])
    captured = []
    orig = FitInfo.filter_table

    def spy(self, input_table, additional={}):
        r = orig(self, input_table, additional=additional)
        captured.append(([str(x).strip() for x in np.asarray(self.model_name)], [str(x).strip() for x in r['MODEL_NAME']], [float(x) for x in r['PAR1']]))
        return r
    ref_first = None
    tables = {}
    n = 0
    for form in forms:
        for fname, kw in [x for x in (('plot_params_1d', {'parameter': 'PAR1', 'log_x': False}), ('plot_params_2d', {'parameter_x': 'PAR1', 'parameter_y': 'PAR2', 'log_x': False, 'log_y': False})) if x[0] == case['fname']]:
            n += 1
            infos = pc.fit_all(fitter, srcs)
            if form == 'path':
                arg = pc.write_file(os.path.join(d, 'b2_%d.fitinfo' % n), infos)
                state = lambda: hashlib.sha1(open(arg, 'rb').read()).hexdigest()
            else:
                arg = infos[0] if form == 'object' else infos
                state = lambda: canon([_strip(i, with_meta=True) for i in infos])
            s0 = state()
            del captured[:]
            FitInfo.filter_table = spy
            try:
                getattr(sedfitter, fname)(arg, output_dir=os.path.join(d, 'pp_%d' % n), select_format=('N', 2), format='png', **kw)
            except Exception as e:
                from mc.runner import exc_signature
                rec.violation('post|%s|%s' % (fname, exc_signature(e)), {'form': form}, {'type': type(e).__name__, 'msg': str(e)[:300]})
                continue
            finally:
                FitInfo.filter_table = orig
            rec.trans()
            rec.ev()
            rec.cls('op-' + fname)
            rec.state(('b2', case['n_src'], form, s0))
            rec.nontriv(('b2', case['n_src'], form, fname))
            rec.outcome(canon(captured))
            if state() != s0:
                rec.violation('post|results-modified|%s|%s' % (fname, form), {'form': form}, {'problem': 'the results handed to %s are not what they were before the call' % fname})
            tables.setdefault(fname, {})[form] = canon(captured)
            # a writer called after the plot, on the same results
            out = os.path.join(d, 'b2_after_%d.txt' % n)
            sedfitter.write_parameters(arg, out, select_format=('A', 0))
            txt = open(out).read()
            if ref_first is None:
                fresh = pc.fit_all(fitter, srcs)
                ref_path = os.path.join(d, 'b2_ref.txt')
                sedfitter.write_parameters(fresh if form != 'object' else fresh[0], ref_path, select_format=('A', 0))
                ref_first = open(ref_path).read()
            if txt != ref_first:
                rec.violation('post|output-depends-on-history|write_parameters|%s' % form, {'form': form, 'after': fname}, {'problem': 'write_parameters after %s differs from write_parameters made first' % fname})
    for fname, t in tables.items():
        if len(set(t.values())) > 1:
            rec.violation('post|forms-disagree|%s' % fname, {'op': fname}, {'problem': 'the table handed to the plot depends on the form the results are passed in', 'forms': list(t)})
    rec.trace()
