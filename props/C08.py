"""C08 -- a planted model is recovered through the whole pipeline.

E1: package configurations (format, mode, number of models, parameter-table
permutation, spectral order, photometric error) within 2 deviations; inside
each, EVERY model is planted at every (A_V0 in {range low, interior, range high})
x (distance in {first, middle, last grid point} or scale in {-1, 0, 0.7}).
The chain is the real one: convolve_model_dir -> data file -> fit() -> output
file -> write_parameters.
"""
import math
import os

import numpy as np

from mc.enumerate import deviation_bounded
from props import _fitcommon as fc
from props import _postcommon as pc
from props import _sedpkg as sp
from ref import fitref

ID = 'C08'
LEVEL = 'model_checking'
TECHNIQUE = 'deviation-bounded enumeration of package configurations x exhaustive planted (model, A_V0, distance/scale) through the real convolve -> fit() -> write_parameters chain'
LEVEL_TEXT = ('For every configuration within 2 (quick) / 3 (thorough) deviations over format, fitting mode, number of models, parameter-table permutation, spectral order and relative '
              'photometric error, every model of the package is planted at three extinctions (both ends of the A_V range and an interior value) and three distances (first, middle, '
              'last grid point) or scales; photometry is synthesised from exact convolved fluxes, written to a data file, fitted with the real fit() on convolved files produced '
              'by the real convolve_model_dir, and listed by write_parameters: the planted model must rank first with chi^2 <= n r^2/4 + eps, A_V and scale must be the '
              'planted ones within the reference\'s own shift, and the first data row of the listing must show the planted model with its own parameter-file row.')
LEVEL_NOTE = ('Grids are pairwise non-degenerate by construction and the reference measures the margin (every other model\'s best chi^2 >= max(1, 10 x bound)), otherwise the plant is '
              'skipped and counted. fit() uses the default memory-mapped (float32) path for cube packages; eps covers it. Printed precision for the listing.')
RULE = ("cases: package configurations; executions: one whole pipeline run (data file with all plants of the configuration) and one evaluation per planted source; non-trivial = "
        "distinct (configuration, planted model, A_V0, distance) with a non-identity parameter table or a multi-aperture package")
ASSUMPTIONS = ["pairwise non-degenerate model grids (margin measured by the reference)", "photometric errors equal relative size on all bands"]
REQUIRED_CLASSES = ['ignored-band-with-wrong-value', 'convolved-without-memory-mapping', 'neighbouring-file-with-dotted-suffix', 'package-of-100-models', 'two-packages-under-one-relative-path', 'mode-2d', 'mode-3d', 'fmt-v1', 'fmt-v2', 'planted-at-av-range-end', 'planted-first-distance', 'planted-last-distance', 'permuted-table', 'listing-first-row', 'seds-on-different-grids', 'dead-model-in-package', 'plot-only-band-with-wrong-value', 'seds-stored-in-Jy', 'pipeline-run-twice', 'distance-range-in-pc', 'object-result-after-other-package', 'layout-changed-between-convolutions']
TIMEOUT = {'quick': 600, 'thorough': 3000}

AXES = {'fmt': ['v1', 'v2'], 'n_ap': [3, 1], 'n_models': [4, 2, 6], 'perm': ['rotated', 'identity', 'reversed'], 'sord': ['wav-desc', 'wav-asc'], 'rel': [0.01, 0.1], 'grids': ['same', 'interior'], 'dead': [False, True], 'funit': ['mJy', 'Jy'], 'dunit': ['kpc', 'pc'], 'cmemmap': [True, False]}


def setup(tier, seed):
    cfgs = [c for c in deviation_bounded(AXES, 2 if tier == 'quick' else 4)]
    # scale: a hundred models and more (blocks, row indices, names filling the column), planted at the first, last and the models around position 64
    default = {k: v[0] for k, v in AXES.items()}
    for fmt in ('v1', 'v2'):
        for n_ap in (3, 1):
            cfgs.append(dict(default, fmt=fmt, n_ap=n_ap, n_models=100 if tier == 'quick' else 200, _deviations=0 if fmt == 'v1' else 1))
    return {'tier': tier, 'seed': seed, 'cases': cfgs}


def cases(ctx):
    return iter(ctx['cases'])


def evidence_extra(ctx):
    return {'bounds': 'deviation bound %d over %s; x every model x 3 A_V0 x 3 distances/scales' % (2 if ctx['tier'] == 'quick' else 4, {k: len(v) for k, v in AXES.items()}),
            'alphabet_digest': 'seed=%d' % ctx['seed']}


def run_case(ctx, case, rec, d):
    from astropy import units as u
    import sedfitter
    from sedfitter.convolve import convolve_model_dir
    from sedfitter.fit import fit
    from sedfitter.fit_info import FitInfoFile
    from sedfitter.source import Source
    seed = ctx['seed']
    n_models, n_ap, fmt, rel = case['n_models'], case['n_ap'], case['fmt'], case['rel']
    mode = '3d' if n_ap > 1 else '2d'
    perm = {'identity': list(range(n_models)), 'reversed': list(range(n_models))[::-1], 'rotated': [(i + 1) % n_models for i in range(n_models)]}[case['perm']]
    pk = sp.build(d, 'pkg', fmt, n_models, n_ap, perm, sord=case['sord'], seed=seed, grids=case['grids'], dead=case['dead'], funit=case.get('funit', 'mJy'))
    if case.get('funit', 'mJy') != 'mJy':
        rec.cls('seds-stored-in-Jy')
    if case['grids'] != 'same' and fmt == 'v1':
        rec.cls('seds-on-different-grids')
    if case['dead']:
        rec.cls('dead-model-in-package')
    filt, fdefs = sp.filters()
    rec.cls('mode-' + mode)
    rec.cls('fmt-' + fmt)
    if case.get('dunit', 'kpc') != 'kpc':
        rec.cls('distance-range-in-pc')
    if perm != sorted(perm):
        rec.cls('permuted-table')
    cfg = tuple(sorted((k, str(v)) for k, v in case.items() if k != '_deviations'))
    rec.state(cfg)
    try:
        # the filters are convolved in two separate runs; between them one SED file of a per-file package gets gzipped
        # (the format allows either), which changes the order in which the files are found
        ckw = {} if case.get('cmemmap', True) else {'memmap': False}          # (how the convolution reads a cube is an option of the call)
        if ckw:
            rec.cls('convolved-without-memory-mapping')
        convolve_model_dir(pk['md'], filt[:2], **ckw)
        if fmt == 'v1' and n_models >= 2:
            import gzip, shutil, glob as _g
            victim = sorted(_g.glob(os.path.join(pk['md'], 'seds', '*.fits')))[-1]
            with open(victim, 'rb') as fi_, gzip.open(victim + '.gz', 'wb') as fo_:
                shutil.copyfileobj(fi_, fo_)
            os.remove(victim)
            rec.cls('layout-changed-between-convolutions')
        convolve_model_dir(pk['md'], filt[2:], **ckw)
    except Exception as e:
        from mc.runner import exc_signature
        rec.violation('pipeline|convolve|' + exc_signature(e), {'stage': 'convolve'}, {'type': type(e).__name__, 'msg': str(e)[:300]})
        return
    rec.trans()
    # another filter's file whose name extends the first filter's name with a dotted suffix sits next to it: it is never asked for
    import shutil as _shu
    _b0, _b1 = filt[0].name, filt[1].name
    _shu.copy(os.path.join(pk['md'], 'convolved', _b1 + '.fits'), os.path.join(pk['md'], 'convolved', _b0 + '.cc.fits'))
    rec.cls('neighbouring-file-with-dotted-suffix')
    conv = sp.exact_convolved(pk, fdefs, filt)                 # (n_models, 3 bands, n_ap)
    bands = [f.name for f in filt]
    cw = [x[1] for x in fdefs]
    k = fc.law_k('power', cw)
    theta = np.array([1.0, 2.0, 1.5])
    avlo, avhi = 0.0, 10.0
    dmin, dmax, step = 0.5, 3.0, 0.1
    if mode == '3d':
        n_ok = fitref.n_distances_allowed(dmin, dmax, step)
        grid = fitref.distance_grid(dmin, dmax, min(n_ok))
        logm3 = fitref.model_logflux_3d([conv[:, b, :] for b in range(3)], [pk['ap']] * 3, theta, grid)      # (n_models, n_dist, 3)
    else:
        logm = np.log10(conv[:, :, 0])
    plants = []
    lines = []
    live = [m for m in range(n_models) if not (case['dead'] and m == n_models - 1)]
    if n_models > 8:
        live = [m for m in (0, 1, 63, 64, 65, n_models - 2, n_models - 1) if m in live]
        rec.cls('package-of-100-models')
    with np.errstate(divide='ignore'):
        if mode == '3d':
            logm3 = np.where(np.isfinite(logm3), logm3, -300.0)
        else:
            logm = np.where(np.isfinite(logm), logm, -300.0)
    for m in live:
        for ia, a0 in enumerate((avlo, 4.0, avhi)):
            for idd in range(3):
                if mode == '3d':
                    jd = [0, len(grid) // 2, len(grid) - 1][idd]
                    lf = logm3[m, jd, :] + a0 * k
                    planted_sc = math.log10(grid[jd])
                else:
                    planted_sc = [-1.0, 0.0, 0.7][idd]
                    lf = logm[m] + a0 * k - 2.0 * planted_sc
                    jd = None
                fl = 10 ** lf
                er = fl * rel
                s = Source()
                s.name = 'plant_m%d_a%d_d%d' % (m, ia, idd)
                s.x, s.y = 1.0, 2.0
                s.valid = np.array([1, 1, 1])
                s.flux = fl
                s.error = er
                # the data file carries the printed (%11.3e) values: the reference works from what the file says
                line = s.to_ascii()
                s2 = Source.from_ascii(line)
                plants.append({'m': m, 'a0': a0, 'jd': jd, 'sc': planted_sc, 'flux': np.asarray(s2.flux, float), 'err': np.asarray(s2.error, float), 'name': s.name, 'ia': ia, 'idd': idd, 'flags': [1, 1, 1]})
                lines.append(line)
                if idd == 1:
                    # the same plant with one band ignored (flag 0) and carrying a wrong value there: with two points left it is only distinguishable in the
                    # distance-dependent mode (the reference decides), but the sources after it in the file must be fitted as if it had not been there
                    s0_ = Source()
                    s0_.name = s.name + '_f0'
                    s0_.x, s0_.y = 1.0, 2.0
                    s0_.valid = np.array([1, 0, 1])
                    f0_ = fl.copy()
                    f0_[1] *= 0.04
                    s0_.flux = f0_
                    s0_.error = er
                    line0 = s0_.to_ascii()
                    t0_ = Source.from_ascii(line0)
                    plants.append({'m': m, 'a0': a0, 'jd': jd, 'sc': planted_sc, 'flux': np.asarray(t0_.flux, float), 'err': np.asarray(t0_.error, float), 'name': s0_.name, 'ia': ia, 'idd': idd, 'flags': [1, 0, 1]})
                    lines.append(line0)
                if idd == 1 and mode == '3d':
                    # the same plant with one band marked plot-only (flag 9) and carrying a wrong value there: still recovered
                    s9 = Source()
                    s9.name = s.name + '_f9'
                    s9.x, s9.y = 1.0, 2.0
                    s9.valid = np.array([1, 9, 1])
                    f9 = fl.copy()
                    f9[1] *= 25.0
                    s9.flux = f9
                    s9.error = er
                    line9 = s9.to_ascii()
                    t9 = Source.from_ascii(line9)
                    plants.append({'m': m, 'a0': a0, 'jd': jd, 'sc': planted_sc, 'flux': np.asarray(t9.flux, float), 'err': np.asarray(t9.error, float), 'name': s9.name, 'ia': ia, 'idd': idd, 'flags': [1, 9, 1]})
                    lines.append(line9)
    data = os.path.join(d, 'data.txt')
    with open(data, 'w') as fh:
        fh.write('\n'.join(lines) + '\n')
    out = os.path.join(d, 'fits.out')
    law = fc.law_object('power')
    try:
        fit(data, bands, theta * u.arcsec, pk['md'], out, n_data_min=2, extinction_law=law, av_range=[avlo, avhi], distance_range=(np.array([dmin, dmax]) * u.kpc).to(u.Unit(case.get('dunit', 'kpc'))),
            output_format=('N', 3), output_convolved=False)
        fin = FitInfoFile(out, 'r')
        recs = list(fin)
        fin.close()
        listing = os.path.join(d, 'listing.txt')
        sedfitter.write_parameters(out, listing, select_format=('N', 2))
        header, blocks = pc.parse_write_parameters(listing)
    except Exception as e:
        from mc.runner import exc_signature
        rec.violation('pipeline|' + exc_signature(e), {'stage': 'fit/list'}, {'type': type(e).__name__, 'msg': str(e)[:300]})
        return
    rec.trans(2)
    rec.trace()
    # ---- the same package fitted a second time after it has been listed: the records must be the same
    try:
        out2 = os.path.join(d, 'fits_again.out')
        fit(data, bands, theta * u.arcsec, pk['md'], out2, n_data_min=2, extinction_law=law, av_range=[avlo, avhi], distance_range=np.array([dmin, dmax]) * u.kpc,
            output_format=('N', 3), output_convolved=False)
        fin = FitInfoFile(out2, 'r')
        recs2 = list(fin)
        fin.close()
        from mc.canon import canon as _canon
        strip = lambda r_: [r_.source, np.asarray(r_.av), np.asarray(r_.sc), np.asarray(r_.chi2), np.asarray(r_.model_id), np.asarray(r_.model_name)]
        rec.trans()
        rec.cls('pipeline-run-twice')
        if [_canon(strip(a_)) for a_ in recs] != [_canon(strip(b_)) for b_ in recs2]:
            rec.violation('pipeline|second-run-differs', {'stage': 'fit again after listing'}, {'problem': 'fitting the same data with the same package again, after write_parameters, gives other records'})
    except Exception as e:
        from mc.runner import exc_signature
        rec.violation('pipeline|second-run|' + exc_signature(e), {'stage': 'fit again'}, {'type': type(e).__name__, 'msg': str(e)[:300]})
    # ---- the object interface: fit a planted source with a Fitter, fit another package (same model names, other parameter
    # file) with a second Fitter, then list both results: each must show its own package's parameter row.  In every other
    # configuration the two packages are addressed by the SAME relative path ('pkg') from two working directories.
    cwd0 = os.getcwd()
    try:
        from sedfitter.fit import Fitter
        relative = (case.get('_deviations', 0) % 2 == 0)
        if relative:
            os.chdir(d)
            rec.cls('two-packages-under-one-relative-path')
        md_a = 'pkg' if relative else pk['md']
        fa = Fitter(list(bands), theta * u.arcsec, md_a, extinction_law=law, av_range=[avlo, avhi], distance_range=np.array([dmin, dmax]) * u.kpc)
        p0 = plants[len(plants) // 2]
        s0 = Source()
        s0.name, s0.x, s0.y = 'objplant', 1.0, 2.0
        s0.valid = np.array(p0['flags'])
        s0.flux, s0.error = p0['flux'], p0['err']
        info_a = fa.fit(s0)
        d_b = os.path.join(d, 'elsewhere')
        os.makedirs(d_b)
        pk_b = sp.build(d_b, 'pkg', fmt, n_models, n_ap, perm[::-1], sord=case['sord'], seed=seed + 3, n_cols=2)
        from ref import pkgwriter as _pw
        names_b = pk_b['table_order'] if fmt == 'v2' else pk_b['names']
        _pw.write_parameters(pk_b['md'], names_b, {c_: np.arange(n_models) * -1.0 - 100.0 * (i_ + 1) for i_, c_ in enumerate(pk_b['colnames'])},
                             order=None if fmt == 'v2' else perm[::-1])
        pardict_b = {nm_: [-1.0 * j_ - 100.0 * (i_ + 1) for i_ in range(len(pk_b['colnames']))] for j_, nm_ in enumerate(names_b)}
        if relative:
            os.chdir(d_b)
        md_b = 'pkg' if relative else pk_b['md']
        convolve_model_dir(md_b, filt)
        fb = Fitter(list(bands), theta * u.arcsec, md_b, extinction_law=law, av_range=[avlo, avhi], distance_range=np.array([dmin, dmax]) * u.kpc)
        info_b = fb.fit(s0)
        lst_b = os.path.join(d, 'listing_obj_b.txt')
        sedfitter.write_parameters(info_b, lst_b, select_format=('N', 1))
        _, blk_b = pc.parse_write_parameters(lst_b)
        if relative:
            os.chdir(d)
        lst = os.path.join(d, 'listing_obj.txt')
        sedfitter.write_parameters(info_a, lst, select_format=('N', 1))
        _, blk_o = pc.parse_write_parameters(lst)
        rec.trans(5)
        rec.ev(2)
        rec.cls('object-result-after-other-package')
        row = blk_o[0]['rows'][0]
        if not all(pc.close_e(a_, b_) for a_, b_ in zip(row['pars'], pk['pardict'][row['model']])):
            rec.violation('pipeline|listing|other-package', {'stage': 'object interface', 'relative_paths': relative}, {'problem': 'listing of a result obtained with package A shows %r for %s after package B was fitted; A says %r' % (row['pars'], row['model'], pk['pardict'][row['model']])})
        row_b = blk_b[0]['rows'][0]
        if not all(pc.close_e(a_, b_) for a_, b_ in zip(row_b['pars'], pardict_b[row_b['model']])):
            rec.violation('pipeline|listing|other-package', {'stage': 'object interface, second package', 'relative_paths': relative}, {'problem': 'listing of a result obtained with package B (used after package A%s) shows %r for %s; B says %r' % (
                ", same relative path from another working directory" if relative else '', row_b['pars'], row_b['model'], pardict_b[row_b['model']])})
    except Exception as e:
        from mc.runner import exc_signature
        rec.violation('pipeline|object-interface|' + exc_signature(e), {'stage': 'object interface'}, {'type': type(e).__name__, 'msg': str(e)[:300]})
    finally:
        os.chdir(cwd0)
    if len(recs) != len(plants) or len(blocks) != len(plants):
        rec.violation('pipeline|record-count', {}, {'records': len(recs), 'listing_blocks': len(blocks), 'sources': len(plants)})
        return
    f32 = (fmt == 'v2')
    names = pk['names']
    for p, r, blk in zip(plants, recs, blocks):
        sub = {'planted_model': names[p['m']], 'A_V0': p['a0'], 'planted_scale': p['sc']}
        # the reference decides whether the plant is distinguishable, from the printed photometry
        flags = p['flags']
        if 9 in flags:
            rec.cls('plot-only-band-with-wrong-value')
        if 0 in flags:
            rec.cls('ignored-band-with-wrong-value')
        if mode == '3d':
            ref = fitref.fit3d(flags, p['flux'], p['err'], logm3, k, avlo, avhi)
            best_other = min(float(np.min(ref['chi2_hi'][q])) for q in range(n_models) if q != p['m']) if n_models > 1 else np.inf
            chi_ref = float(ref['chi2_hi'][p['m'], p['jd']])
            av_ref = float(ref['av'][p['m'], p['jd']])
            # the printed photometry carries 4 significant digits: chi2 of the true model is bounded by n*((r^2/2/ln10 + 5e-4/ln10)/ (r/ln10))^2
        else:
            ref = fitref.fit2d(flags, p['flux'], p['err'], logm, k, avlo, avhi)
            lo, hi = fitref.chi2_bounds(flags, ref['w'], ref['lf'], ref['le'], logm + ref['av'][:, None] * k[None, :] - 2 * ref['sc'][:, None])
            best_other = min(float(hi[q]) for q in range(n_models) if q != p['m']) if n_models > 1 else np.inf
            chi_ref = float(hi[p['m']])
            av_ref = float(ref['av'][p['m']])
        bound = 3 * (rel / 2.0 + 5.1e-4 / rel) ** 2 + (2e-4 if f32 else 1e-8)          # n * (bias + print rounding, in sigma)^2
        rec.ev()
        if best_other < max(1.0, 10 * bound):
            rec.notes['plant-skipped-degenerate-margin'] += 1
            continue
        key = (cfg, p['m'], p['ia'], p['idd'])
        if perm != sorted(perm) or n_ap > 1:
            rec.nontriv(key)
        if p['ia'] != 1:
            rec.cls('planted-at-av-range-end')
        if mode == '3d' and p['idd'] == 0:
            rec.cls('planted-first-distance')
        if mode == '3d' and p['idd'] == 2:
            rec.cls('planted-last-distance')
        got_name = str(np.asarray(r.model_name)[0]).strip()
        chi = float(np.asarray(r.chi2, float)[0])
        av = float(np.asarray(r.av, float)[0])
        sc = float(np.asarray(r.sc, float)[0])
        rec.outcome((got_name, round(av, 3), round(sc, 3)))
        bad = None
        if r.source.name != p['name']:
            bad = 'record order: got %s for %s' % (r.source.name, p['name'])
        elif got_name != names[p['m']]:
            bad = 'ranked first: %s (chi2 %r); planted %s (reference chi2 %r, best other model %r)' % (got_name, chi, names[p['m']], chi_ref, best_other)
        elif not (chi <= bound):
            bad = 'chi2 of the planted model %r exceeds n r^2/4 + eps = %r' % (chi, bound)
        elif abs(av - av_ref) > (5e-3 if f32 else 1e-6) or abs(av_ref - p['a0']) > 0.2:
            bad = 'A_V %r, reference %r, planted %r' % (av, av_ref, p['a0'])
        elif mode == '3d' and abs(sc - p['sc']) > 1e-9:
            bad = 'scale %r is not log10 of the planted grid distance %r' % (sc, p['sc'])
        elif mode == '2d' and abs(sc - p['sc']) > 0.25 * rel ** 2 / fitref.LN10 + 5e-4 + (1e-4 if f32 else 0):
            bad = 'scale %r, planted %r' % (sc, p['sc'])
        if bad:
            rec.violation('pipeline|recovery|%s' % ('rank' if 'ranked first' in bad else 'chi2' if 'exceeds' in bad else 'params' if ('A_V' in bad or 'scale' in bad) else 'order'), sub, {'problem': bad, 'config': {kk: v for kk, v in case.items()}})
            continue
        # the listing: first data row of this source's block
        rec.cls('listing-first-row')
        row = blk['rows'][0] if blk['rows'] else None
        want = pk['pardict'][names[p['m']]]
        if blk['source'] != p['name'] or row is None or row['model'] != names[p['m']] or not all(pc.close_e(a, b) for a, b in zip(row['pars'], want)) or blk['n_data'] != sum(1 for v in p['flags'] if v in (1, 4)):
            rec.violation('pipeline|listing', sub, {'problem': 'first row of the write_parameters block is not the planted model with its own parameter row', 'row': row, 'expected_model': names[p['m']], 'expected_parameters': want})
    if case.get('_deviations') == 0:
        rec.sample({'config': {kk: v for kk, v in case.items()}, 'first_plant': {kk: (v.tolist() if hasattr(v, 'tolist') else v) for kk, v in plants[1].items()}, 'data_line': lines[1], 'table_order': pk['table_order']})
