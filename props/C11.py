"""C11 -- fits do not depend on labelling, ordering, units of brightness, or history.

E1 for the three invariances (all filter permutations, all model permutations,
brightness constants over 8 decades) and E2 for histories: every sequence of
up to 3 fits (quick) / up to 4 fits and every permutation of 6 sources (thorough) over an 8-source alphabet on ONE real
Fitter; after every transition canon(source) must be unchanged and the result
must be bit-identical (canonical encoding) to the result a fresh Fitter gives
for that source.  canon(fitter) identifies the states of that exploration: on
the current tree it never changes, so every history ends in the one initial
state and the sequences enumerated are a fixpoint, not just a depth bound.
"""
import itertools

import numpy as np

from mc.canon import canon
from props import _fitcommon as fc

ID = 'C11'
LEVEL = 'model_checking'
TECHNIQUE = 'exhaustive enumeration of permutations / constants (paired executions) and explicit-state exploration of fit histories on one real Fitter with canonical-state comparison'
LEVEL_TEXT = ('All permutations of up to 4 (quick) / 6 (thorough) filters and of up to 4 (quick) / 5 (thorough, files) / 8 (thorough, in-memory Models) models, ten '
              'brightness constants over 15 decades, and every sequence of up to 3 fits over an 8-source alphabet, two pairs of which share their flag vector but not their photometry (up to 4 fits, and every permutation of 6 of them, in thorough) on one '
              'Fitter in each format/mode: permuted runs must give the same per-model results, constants must shift scale by -0.5 log10 c exactly and leave A_V '
              'and chi^2, each fit in a history must equal the fresh-fitter result bit for bit, results handed out earlier must stay what they were, and the source may not change. The canonical fitter state is recorded per transition: where it never changes (the current tree) the histories close at depth 1.')
LEVEL_NOTE = ('Finite value alphabets; sums reorder under permutation, so permuted results are compared to 1e-10 (float32 path: propagated bound) rather than bit-wise; '
              'permutations of 8 models are exhaustive only at the in-memory Models seam (no files); Fitter state = every array the fitter owns (canonical encoding).')
RULE = ("cases: (kind, configuration, chunk); executions: Fitter.fit calls compared pairwise; for histories a state is (fitter canonical hash, history) and a transition one fit; "
        "non-trivial = distinct non-identity permutations / constants != 1 / histories of length >= 2")
ASSUMPTIONS = ["finite value alphabets", "canonical encoding of Fitter covers all state that can influence a fit (models.fluxes, names, wavelengths, distances, logd, extended, av_law, sc_law, av_range, filters)"]
REQUIRED_CLASSES = ['history-of-faint-sources', 'filter-perm-with-unused-band-and-resolved-removal', 'two-fitters-built-before-either-is-used', 'model-perm-hundreds-of-models', 'filter-list-mixes-names-and-wavelengths', 'history-on-package-with-a-dead-model', 'history-same-flags-different-photometry', 'integer-typed-photometry', 'earlier-results-rechecked', 'both-limit-kinds-different-confidence', 'filter-perm', 'model-perm-files', 'brightness-constant', 'history-len3', 'history-repeat-same-source', 'mode-2d', 'mode-3d', 'float32-path',
                    'source-with-limits', 'source-all-flag4']
TIMEOUT = {'quick': 600, 'thorough': 3000}

VARIANTS = [('v1', False), ('v2', True), ('v2', False)]
CONSTS = [1e-8, 1e-6, 1e-4, 1e-2, 0.5, 2.0, 10.0, 1e3, 1e4, 1e7]
# the last two repeat the flag vectors of the first two with other fluxes and errors: anything remembered per flag pattern
# (rather than per source) is then re-used for a different source
SRC_FLAGS = [(1, 1, 1, 1), (1, 4, 3, 1), (4, 4, 4, 4), (1, 0, 1, 2), (9, 1, 1, 1), (1, 1, 3, 3), (1, 1, 1, 1), (1, 4, 3, 1)]
N_SRC = len(SRC_FLAGS)
B4 = ['B1', 'B2', 'B3', 'B5']


def setup(tier, seed):
    out = []
    kmax = 4 if tier == 'quick' else 6
    for mode in ('2d', '3d'):
        for iv in range(3):
            out.append({'kind': 'const', 'mode': '2d', 'variant': iv}) if mode == '2d' else None
            for k in range(2, kmax + 1):
                perms = list(itertools.permutations(range(k)))
                if k >= 5 and iv != 0:
                    continue
                for i in range(0, len(perms), 24):
                    out.append({'kind': 'fperm', 'mode': mode, 'variant': iv, 'k': k, 'first': i, 'count': min(24, len(perms) - i)})
            for k in range(2, (4 if tier == 'quick' else 5) + 1):
                perms = list(itertools.permutations(range(k)))
                if k == 5 and iv != 0:
                    continue
                for i in range(0, len(perms), 12):
                    out.append({'kind': 'mperm', 'mode': mode, 'variant': iv, 'k': k, 'first': i, 'count': min(12, len(perms) - i)})
            for s0 in range(N_SRC):
                out.append({'kind': 'hist', 'mode': mode, 'variant': iv, 'first_source': s0})
            # histories on a package in which one model emits nothing in one band (its rows are undefined, and must stay so)
            for s0 in ((0, 3) if tier == 'quick' else range(N_SRC)):
                out.append({'kind': 'hist', 'mode': mode, 'variant': iv, 'first_source': s0, 'dead': True})
            # histories of very faint sources (photometry of order 1e-11 mJy and fainter): different sources, however close in absolute terms
            for s0 in ((0, 6) if tier == 'quick' else range(N_SRC)):
                out.append({'kind': 'hist', 'mode': mode, 'variant': iv, 'first_source': s0, 'faint': True})
            # scale: a few hundred models, scrambled and reversed (most of them clipped at an end of the A_V range)
            if iv != 1 or tier == 'thorough':
                out.append({'kind': 'mperm', 'mode': mode, 'variant': iv, 'k': 300 if tier == 'quick' else 700, 'first': 0, 'count': 2, 'big': True})
    if tier == 'thorough':
        for k in (6, 7, 8):
            n = len(list(itertools.permutations(range(k)))) if k < 8 else 40320
            for i in range(0, n, 2520):
                out.append({'kind': 'mperm-mem', 'k': k, 'first': i, 'count': min(2520, n - i)})
    return {'tier': tier, 'seed': seed, 'cases': [c for c in out if c]}


def cases(ctx):
    return iter(ctx['cases'])


def evidence_extra(ctx):
    t = ctx['tier']
    return {'bounds': 'filter permutations S_k k<=%d; model permutations via files k<=%d%s; 7 constants; histories: %s; 3 load variants x 2 modes'
                      % (4 if t == 'quick' else 6, 4 if t == 'quick' else 5, '' if t == 'quick' else ', in-memory k<=8',
                         'all sequences of length <=3 over 8 sources' if t == 'quick' else 'all sequences of length <=4 over 8 sources and all 720 permutations of 6 of them'),
            'alphabet_digest': 'seed=%d' % ctx['seed']}


def _sources(seed, base, mode):
    out = []
    for i, fv in enumerate(SRC_FLAGS):
        n = len(base)
        fl, er = fc.photometry(fv[:n], base * [1.0, 2.5, 0.4, 1.7, 0.9, 1.2, 3.1, 0.6][i], i + 4 * seed, conf_rot=i)
        for j, v in enumerate(fv[:n]):
            if v in (2, 3) and er[j] == 1.0:
                er[j] = 0.8
        out.append((fv[:n], fl, er))
    return out


def _res(info, names):
    got = [str(x).strip() for x in np.asarray(info.model_name)]
    idx = {g: i for i, g in enumerate(got)}
    rows = [idx[n] for n in names]
    return fc._asf(info.av)[rows], fc._asf(info.sc)[rows], fc._asf(info.chi2)[rows]


def _build(d, tag, mode, fmt, names, bands_pkg, seed, perm=None, n_models=None, dead=False, ext_band=None):
    """physical grid depends on seed only; perm reorders the package."""
    n_models = n_models or len(names)
    if mode == '2d':
        f = fc.grid2d(seed * 10 + 6, n_models=n_models, bands=bands_pkg, special=False)
        if dead:
            f[2, 1] = 0.0
        p = list(range(n_models)) if perm is None else list(perm)
        spec = {'fmt': fmt, 'names': [names[i] for i in p], 'bands': bands_pkg, 'flux': f[p]}
        return fc.build_package(d, tag, spec), f, None
    ap, t = fc.grid3d(seed * 10 + 8, n_models=n_models, n_ap=3, bands=bands_pkg)
    if dead:
        t[2, 1, :] = 0.0
    if ext_band is not None and n_models >= 3:
        t[2, ext_band, :] = t[2, ext_band, 0] * np.array([1.0, 1.0, 1e6])          # model 2 is extended in that one band only
    p = list(range(n_models)) if perm is None else list(perm)
    spec = {'fmt': fmt, 'names': [names[i] for i in p], 'bands': bands_pkg, 'apertures': ap, 'tables': t[p], 'logd_step': 0.25}
    return fc.build_package(d, tag, spec), t, ap


def _tol(f32):
    return 3e-5 if f32 else 1e-9


def run_case(ctx, case, rec, d):
    seed = ctx['seed']
    kind = case['kind']
    if kind == 'mperm-mem':
        return _mperm_mem(ctx, case, rec)
    mode = case['mode']
    fmt, memmap = VARIANTS[case['variant']]
    rec.cls('mode-' + mode)
    avr = (0.0, 6.0)
    dr = (0.5, 4.0)
    kw = dict(distance_range_kpc=dr, memmap=memmap)

    if kind == 'const':
        names = fc.names_for(5)
        md, f, _ = _build(d, 'pkg', '2d', fmt, names, B4, seed)
        fitter = fc.make_fitter(md, B4, 'power', avr, **kw)
        k = fc.law_k('power', [fc.BAND_WAV[b] for b in B4])
        base = f[2] * 10 ** (1.0 * k) * 4.0
        for si, (fv, fl, er) in enumerate(_sources(seed, base, mode)):
            b0 = _res(fitter.fit(fc.make_source(fv, fl, er)), names)
            for c in CONSTS:
                f2, e2 = fl.copy(), er.copy()
                for j, v in enumerate(fv):
                    if v in (1, 9, 0):
                        f2[j] *= c
                        e2[j] *= c
                    elif v == 4:
                        f2[j] += np.log10(c)
                    elif v in (2, 3):
                        f2[j] *= c
                r = _res(fitter.fit(fc.make_source(fv, f2, e2)), names)
                rec.ev(len(names))
                rec.trans(2)
                rec.cls('brightness-constant')
                if 4 not in fv and c in (2.0, 10.0, 1e3) and all(v not in (2, 3) or e_ in (0.0, 1.0) for v, e_ in zip(fv, er)):
                    # the same relation on whole-number photometry handed over as python ints
                    fi = np.maximum(np.round(fl * 1000.0), 1.0)
                    ei = np.array([e_ if v in (2, 3) else max(round(e_ * 1000.0), 1.0) for v, e_ in zip(fv, er)])
                    bi = _res(fitter.fit(fc.make_source(fv, fi, ei, as_int=True)), names)
                    ri = _res(fitter.fit(fc.make_source(fv, [x * (c if v not in (2, 3) else c) for x, v in zip(fi, fv)], [e_ * (c if v not in (2, 3) else 1) for e_, v in zip(ei, fv)], as_int=True)), names)
                    rec.cls('integer-typed-photometry')
                    if not (np.allclose(ri[0], bi[0], rtol=1e-9, atol=1e-9) and np.allclose(ri[1], bi[1] - 0.5 * np.log10(c), rtol=1e-9, atol=1e-9) and np.allclose(ri[2], bi[2], rtol=1e-8, atol=1e-8 * (1 + np.max(np.abs(bi[2]))))):
                        rec.violation('invariance|brightness|integer-photometry', {'source': si, 'const': c}, {'flags': list(fv), 'base': list(bi), 'scaled': list(ri)})
                rec.nontriv(('const', case['variant'], si, c))
                rec.state(('const', case['variant'], si, c))
                rec.outcome(tuple(np.round(r[1], 6)))
                t = _tol(fc.observed_f32(fitter))
                ok = (np.allclose(r[0], b0[0], rtol=t, atol=t) and np.allclose(r[1], b0[1] - 0.5 * np.log10(c), rtol=t, atol=t)
                      and np.allclose(r[2], b0[2], rtol=max(t, 1e-8), atol=max(t, 1e-8) * (1 + np.max(np.abs(b0[2])))))
                if not ok:
                    rec.violation('invariance|brightness', {'source': si, 'const': c}, {'flags': list(fv), 'base': [b0[0], b0[1], b0[2]], 'scaled': [r[0], r[1], r[2]]})
        return

    if kind == 'fperm':
        kf = case['k']
        bands_all = ['B1', 'K', 'Ks', 'B4', 'B5', 'B6'][:kf]          # (K and Ks: names that extend one another)
        names = fc.names_for(4)
        md, f, ap = _build(d, 'pkg', mode, fmt, names, bands_all, seed, ext_band=(1 if mode == '3d' else None))
        kk = fc.law_k('power', [fc.BAND_WAV[b] for b in bands_all])
        theta = np.array([1.0, 3.0, 1.0, 2.0, 1.0, 3.0][:kf])
        base = (f[1] if mode == '2d' else f[1][:, 1]) * 10 ** (1.5 * kk) * (2.0 if mode == '2d' else 0.5)
        # from 4 filters on: a lower AND an upper limit with different confidences next to the fitted points
        flags = tuple({2: [1, 1], 3: [1, 4, 3]}.get(kf, [1, 2, 3, 1, 4, 1][:kf]))
        fl, er = fc.photometry(flags, base, 1 + 4 * seed, conf_rot=1)
        for j, v in enumerate(flags):
            if v == 3:
                er[j] = 0.7
                fl[j] = base[j] * 0.3          # most models violate it
            if v == 2:
                er[j] = 0.35
                fl[j] = base[j] * 3.0
        if kf >= 4:
            rec.cls('both-limit-kinds-different-confidence')
        # in cube packages the filter list mixes names and wavelengths (every second band is given by its wavelength)
        mixed = [bool(fmt == 'v2' and j % 2 == 1) for j in range(kf)]
        if any(mixed):
            rec.cls('filter-list-mixes-names-and-wavelengths')
        ident = fc.make_fitter(md, bands_all, 'power', avr, theta=theta, **dict(kw, by_wavelength=mixed))
        b0 = _res(ident.fit(fc.make_source(flags, fl, er)), names)
        f32 = fc.observed_f32(ident)
        if f32:
            rec.cls('float32-path')
        perms = list(itertools.permutations(range(kf)))[case['first']:case['first'] + case['count']]
        for p in perms:
            p = list(p)
            fp = fc.make_fitter(md, [bands_all[i] for i in p], 'power', avr, theta=theta[p], **dict(kw, by_wavelength=[mixed[i] for i in p]))
            r = _res(fp.fit(fc.make_source([flags[i] for i in p], fl[p], er[p])), names)
            rec.ev(len(names))
            rec.trans()
            rec.state(('fperm', mode, case['variant'], tuple(p)))
            rec.outcome(tuple(np.round(r[2], 5)))
            if p != sorted(p):
                rec.cls('filter-perm')
                rec.nontriv(('fperm', mode, case['variant'], tuple(p)))
            t = _tol(f32)
            ok = all(np.allclose(x, y, rtol=max(t, 1e-10), atol=max(t, 1e-10) * (1 + np.max(np.abs(y)))) for x, y in zip(r, b0))
            if not ok:
                rec.violation('invariance|filter-permutation|%s' % mode, {'perm': p}, {'identity': list(b0), 'permuted': list(r)})
        # the same with resolved models removed and one band switched off (the band in which one model is extended): where the unused
        # band stands in the list does not matter
        if mode == '3d' and kf >= 3:
            flags0 = tuple(0 if j == 1 else (1 if j != 2 else 4) for j in range(kf))
            fl0, er0 = fl.copy(), er.copy()
            if flags0[2] == 4 and flags[2] != 4:
                fl0[2], er0[2] = np.log10(base[2]), 0.04
            for j in range(kf):
                if flags0[j] == 1 and flags[j] != 1:
                    fl0[j], er0[j] = base[j], 0.1 * base[j]
            ident_rr = fc.make_fitter(md, bands_all, 'power', avr, theta=theta, **dict(kw, by_wavelength=mixed, remove_resolved=True))
            b1 = _res(ident_rr.fit(fc.make_source(flags0, fl0, er0)), names)
            for p in perms:
                p = list(p)
                fp = fc.make_fitter(md, [bands_all[i] for i in p], 'power', avr, theta=theta[p], **dict(kw, by_wavelength=[mixed[i] for i in p], remove_resolved=True))
                r = _res(fp.fit(fc.make_source([flags0[i] for i in p], fl0[p], er0[p])), names)
                rec.ev(len(names))
                rec.trans()
                rec.cls('filter-perm-with-unused-band-and-resolved-removal')
                t = _tol(f32)
                fin_ = np.isfinite(b1[2]) & np.isfinite(r[2])
                ok = np.array_equal(np.isfinite(b1[2]), np.isfinite(r[2])) and all(np.allclose(x[fin_], y[fin_], rtol=max(t, 1e-10), atol=max(t, 1e-10) * (1 + np.max(np.abs(y[fin_])) if np.any(fin_) else 1)) for x, y in zip(r, b1))
                if not ok:
                    rec.violation('invariance|filter-permutation|%s|remove-resolved' % mode, {'perm': p, 'flags': list(flags0)}, {'identity': list(b1), 'permuted': list(r)})
        return

    if kind == 'mperm':
        km = case['k']
        names = fc.names_for(km)
        md0, f, ap = _build(d, 'pkg0', mode, fmt, names, B4, seed, n_models=km)
        kk = fc.law_k('power', [fc.BAND_WAV[b] for b in B4])
        base = (f[0] if mode == '2d' else f[0][:, 1]) * 10 ** (0.8 * kk) * (3.0 if mode == '2d' else 0.4)
        flags = (1, 4, 3, 1)
        fl, er = fc.photometry(flags, base, 2 + 4 * seed)
        er[2] = 0.6
        f0 = fc.make_fitter(md0, B4, 'power', avr, **kw)
        b0 = _res(f0.fit(fc.make_source(flags, fl, er)), names)
        f32 = fc.observed_f32(f0)
        perms = list(itertools.permutations(range(km)))[case['first']:case['first'] + case['count']] if not case.get('big') else \
            [tuple((i * 7919 + 5) % km for i in range(km)), tuple(range(km))[::-1]]
        if case.get('big'):
            rec.cls('model-perm-hundreds-of-models')
        for ip_, p in enumerate(perms):
            md, _, _ = _build(d, 'pkg_%d_%d' % (case['first'], ip_), mode, fmt, names, B4, seed, perm=p, n_models=km)
            fp = fc.make_fitter(md, B4, 'power', avr, **kw)
            r = _res(fp.fit(fc.make_source(flags, fl, er)), names)
            rec.ev(km)
            rec.trans()
            rec.state(('mperm', mode, case['variant'], tuple(p)))
            rec.outcome(tuple(np.round(r[2], 5)))
            if list(p) != sorted(p):
                rec.cls('model-perm-files')
                rec.nontriv(('mperm', mode, case['variant'], tuple(p)))
            t = _tol(f32)
            ok = all(np.allclose(x, y, rtol=max(t, 1e-12), atol=max(t, 1e-12) * (1 + np.max(np.abs(y)))) for x, y in zip(r, b0))
            if not ok:
                rec.violation('invariance|model-permutation|%s' % mode, {'perm': list(p)}, {'identity': list(b0), 'permuted': list(r)})
        return

    if kind == 'hist':
        names = fc.names_for(5)
        md, f, ap = _build(d, 'pkg', mode, fmt, names, B4, seed, dead=case.get('dead', False))
        if case.get('dead'):
            rec.cls('history-on-package-with-a-dead-model')
        kk = fc.law_k('power', [fc.BAND_WAV[b] for b in B4])
        base = (f[3] if mode == '2d' else f[3][:, 1]) * 10 ** (1.1 * kk) * (2.0 if mode == '2d' else 0.7)
        srcs = _sources(seed, base * (1e-12 if case.get('faint') else 1.0), mode)
        if case.get('faint'):
            rec.cls('history-of-faint-sources')
        rec.cls('source-with-limits')
        rec.cls('source-all-flag4')
        fresh = []
        for fv, fl, er in srcs:
            ft = fc.make_fitter(md, B4, 'power', avr, **kw)
            fresh.append(canon(_strip(ft.fit(fc.make_source(fv, fl, er)))))
        if fc.observed_f32(ft):
            rec.cls('float32-path')
        # two fitters built one after the other on the same package, THEN used (the first one last): each still gives the fresh result
        if case['first_source'] in (0, 3):
            fa = fc.make_fitter(md, B4, 'power', avr, **kw)
            fb = fc.make_fitter(md, B4, 'power', avr, **dict(kw, remove_resolved=(mode == '3d')))
            for which_, ft_, si_ in (('second', fb, 1), ('first', fa, case['first_source'])):
                fv_, fl_, er_ = srcs[si_]
                got_ = canon(_strip(ft_.fit(fc.make_source(fv_, fl_, er_))))
                rec.trans()
                rec.ev()
                rec.cls('two-fitters-built-before-either-is-used')
                if which_ == 'first' and got_ != fresh[si_]:
                    rec.violation('history|result-depends-on-history|%s' % mode, {'two_fitters': True}, {'problem': 'a fitter built before another fitter on the same package, and used after it, does not give the fresh-fitter result for source %d' % si_})
        seqs = [[case['first_source']] + list(t) for L in (0, 1, 2) for t in itertools.product(range(N_SRC), repeat=L)]
        if ctx['tier'] == 'thorough':
            seqs += [[case['first_source']] + list(t) for t in itertools.product(range(N_SRC), repeat=3)]
            seqs += [[case['first_source']] + list(t) for t in itertools.permutations([x for x in range(6) if x != case['first_source']])]
        for seq in seqs:
            fitter = fc.make_fitter(md, B4, 'power', avr, **kw)
            c0 = canon(fitter)
            rec.state(('hist', mode, case['variant'], c0))
            handed_out = []
            for step, si in enumerate(seq):
                fv, fl, er = srcs[si]
                src = fc.make_source(fv, fl, er)
                cs = canon(src)
                info = fitter.fit(src)
                rec.trans()
                rec.ev()
                got = canon(_strip(info))
                c1 = canon(fitter)
                rec.state(('hist', mode, case['variant'], c1))
                rec.outcome(got)
                sub = {'history': seq[:step + 1]}
                if got != fresh[si]:
                    rec.violation('history|result-depends-on-history|%s' % mode, sub, {'problem': 'result for source %d after history %r differs from the fresh-fitter result' % (si, seq[:step])})
                if c1 != c0:
                    # not a violation in itself (an implementation may keep private state): it is a new STATE, and what the
                    # property demands -- the same result as a fresh fitter -- is checked from it by the rest of the history
                    rec.cls('fitter-state-changed-by-a-fit')
                    c0 = c1
                if canon(src) != cs:
                    rec.violation('history|source-modified|%s' % mode, sub, {'problem': 'the source passed in was modified', 'flags': list(fv)})
                # results handed out by earlier fits are the caller's: a later fit must not change them
                for (old_info, old_canon, old_step) in handed_out:
                    if canon(_strip(old_info)) != old_canon:
                        rec.violation('history|earlier-result-changed|%s' % mode, sub, {'problem': 'the result of fit #%d changed when fit #%d ran on the same fitter' % (old_step + 1, step + 1)})
                        handed_out = []
                        break
                handed_out.append((info, got, step))
                rec.cls('earlier-results-rechecked') if step else None
            rec.trace()
            if len(seq) >= 2:
                rec.nontriv(('hist', mode, case['variant'], tuple(seq)))
            if len(seq) == 3:
                rec.cls('history-len3')
            if len(seq) >= 2 and seq[0] == seq[1]:
                rec.cls('history-repeat-same-source')
            if len(seq) >= 2 and seq[0] != seq[1] and SRC_FLAGS[seq[0]] == SRC_FLAGS[seq[1]]:
                rec.cls('history-same-flags-different-photometry')
        rec.sample({'kind': 'history', 'mode': mode, 'variant': [fmt, memmap], 'sources_flags': [list(s[0]) for s in srcs], 'example_history': seqs[-1], 'n_histories': len(seqs)})


def _strip(info):
    """everything a fit result carries except the (per-object) metadata"""
    return [info.source, np.asarray(info.av), np.asarray(info.sc), np.asarray(info.chi2), np.asarray(info.model_id),
            np.asarray(info.model_name), None if info.model_fluxes is None else np.asarray(info.model_fluxes)]


def _mperm_mem(ctx, case, rec):
    """All permutations of k models at the in-memory Models seam (no files)."""
    from astropy import units as u
    from sedfitter.models import Models
    seed = ctx['seed']
    km = case['k']
    names = np.array(['m%d' % i for i in range(km)])
    f = fc.grid2d(seed * 10 + 9, n_models=km, bands=B4, special=False)
    kk = fc.law_k('power', [fc.BAND_WAV[b] for b in B4])
    sc_law = -2.0 * np.ones(4)
    flags = (1, 4, 3, 1)
    base = f[0] * 10 ** (0.8 * kk) * 3.0
    fl, er = fc.photometry(flags, base, 2 + 4 * seed)
    er[2] = 0.6

    def run(p):
        m = Models()
        m.names = names[p]
        m.wavelengths = np.array([fc.BAND_WAV[b] for b in B4]) * u.micron
        m.fluxes = f[p] * u.mJy
        info = m.fit(fc.make_source(flags, fl, er), kk, sc_law, 0.0, 6.0)
        return _res(info, list(names))
    b0 = run(list(range(km)))
    for idx, p in enumerate(itertools.islice(itertools.permutations(range(km)), case['first'], case['first'] + case['count'])):
        p = list(p)
        r = run(p)
        rec.ev(km)
        rec.trans()
        rec.state(('mem', km, tuple(p)))
        rec.nontriv(('mem', km, tuple(p)))
        rec.outcome(tuple(np.round(r[2][:2], 5)))
        if not all(np.allclose(x, y, rtol=1e-12, atol=1e-12 * (1 + np.max(np.abs(y)))) for x, y in zip(r, b0)):
            rec.violation('invariance|model-permutation|in-memory', {'perm': p}, {'identity': list(b0), 'permuted': list(r)})
    rec.cls('model-perm-in-memory')
