"""Shared harness for the post-processing properties (C08, C09, C10, C17, C18):
small packages written by ref.pkgwriter, real fits, parsers for the three text
formats the post-processing functions write."""
import os

import numpy as np

from props import _fitcommon as fc
from ref import pkgwriter, selref

B4 = ['B1', 'B2', 'B3', 'B5']


def build(d, tag, fmt, n_models, perm=None, n_cols=2, nan_col=False, seed=0, mode='2d', text_col=False, par_gz=False, name_pos=0, extreme=False):
    """Package whose convolved files and parameter table are both in `perm` order.  Returns (model_dir, info dict)."""
    names = ['pm_%s' % 'kcxaqfzb'[i] for i in range(n_models)]
    perm = list(range(n_models)) if perm is None else list(perm)
    order_names = [names[i] for i in perm]
    cols = {}
    for c in range(n_cols):
        v = np.array([10.0 ** (c - 1) * (c + 1) + 0.731 * m * (1 + c) for m in range(n_models)])
        if nan_col and c == n_cols - 1 and n_models > 1:
            v[1] = np.nan
        cols['PAR%d' % (c + 1)] = v
    if extreme:
        # magnitudes a cgs luminosity or a dust mass fraction can have: beyond the range of single precision on both sides
        cols['PAR%d' % (n_cols + 1)] = np.array([(3.3e40 * (m + 1)) if m % 2 == 0 else (-2.2e-50 * (m + 1)) for m in range(n_models)])
        n_cols += 1
        # ... negative values with three-digit exponents (eleven characters in %.3e), and a column whose values are all tiny but distinct
        cols['PAR%d' % (n_cols + 1)] = np.array([(-2.5e120 * (m + 1)) if m % 2 == 0 else (-3.0e-105 * (m + 1)) for m in range(n_models)])
        n_cols += 1
        cols['PAR%d' % (n_cols + 1)] = np.array([6.0e-10 * (m + 1) for m in range(n_models)])
        n_cols += 1
    md = os.path.join(d, tag)
    os.makedirs(md)
    apdep = (mode == '3d')
    pkgwriter.write_conf(md, apdep, logd_step=0.2, version=1 if fmt == 'v1' else 2)
    pcols = {k: v[perm] for k, v in cols.items()}
    if text_col:
        pcols['DUST'] = np.array(['dust_%d' % i for i in perm])
    pkgwriter.write_parameters(md, order_names, pcols, gz=par_gz, name_pos=name_pos)
    if apdep:
        ap, t = fc.grid3d(seed * 10 + 11, n_models=n_models, n_ap=3, bands=B4)
        for ib, b in enumerate(B4):
            fl = t[perm][:, ib, :]
            pkgwriter.write_convolved(md, b, order_names, fl, fl * 0.01, apertures_au=ap, filtwav_micron=fc.BAND_WAV[b])
        grid = (ap, t)
    else:
        f = fc.grid2d(seed * 10 + 12, n_models=n_models, bands=B4, special=False)
        for ib, b in enumerate(B4):
            fl = f[perm][:, ib:ib + 1]
            pkgwriter.write_convolved(md, b, order_names, fl, fl * 0.01, apertures_au=None, filtwav_micron=fc.BAND_WAV[b])
        grid = f
    if fmt == 'v2':
        order = np.argsort([-fc.BAND_WAV[b] for b in B4])
        wav = np.array([fc.BAND_WAV[B4[i]] for i in order])
        if apdep:
            val = np.transpose(grid[1][perm], (0, 2, 1))[:, :, order]
            pkgwriter.write_cube(md, order_names, wav, val, unc=val * 0.01, apertures_au=grid[0])
        else:
            val = grid[perm][:, None, :][:, :, order]
            pkgwriter.write_cube(md, order_names, wav, val, unc=val * 0.01)
    file_columns = ['MODEL_NAME'] + list(pcols)
    if name_pos:
        file_columns.insert(min(name_pos, len(file_columns) - 1), file_columns.pop(0))
    pardict = {names[m]: [cols['PAR%d' % (c + 1)][m] for c in range(n_cols)] for m in range(n_models)}
    return md, {'file_columns': file_columns, 'names': names, 'order_names': order_names, 'pardict': pardict, 'colnames': ['PAR%d' % (c + 1) for c in range(n_cols)], 'grid': grid, 'mode': mode}


SRC_FLAGS = [(1, 1, 1, 1), (1, 4, 3, 1), (1, 1, 0, 9), (4, 1, 2, 1), (1, 1, 1, 3)]


def sources(info, seed, n_sources=3, mode='2d'):
    kk = fc.law_k('power', [fc.BAND_WAV[b] for b in B4])
    grid = info['grid']
    out = []
    for i in range(n_sources):
        fv = SRC_FLAGS[i % len(SRC_FLAGS)]
        p = i % len(info['names'])
        if mode == '2d':
            base = grid[p] * 10 ** ((0.7 + 0.4 * i) * kk) * (2.0 + i)
        else:
            base = grid[1][p][:, 1] * 10 ** ((0.7 + 0.4 * i) * kk) * 0.6
        fl, er = fc.photometry(fv, base, i + 4 * seed, conf_rot=i)
        for j, v in enumerate(fv):
            if v in (2, 3):
                er[j] = 0.5
        out.append(('src_%02d' % i, fv, fl, er))
    return out


def fitter_for(md, mode='2d', memmap=False):
    return fc.make_fitter(md, B4, 'power', (0.0, 6.0), distance_range_kpc=(0.5, 4.0), memmap=memmap)


def fit_all(fitter, srcs, output_convolved=True):
    infos = []
    for nm, fv, fl, er in srcs:
        i = fitter.fit(fc.make_source(fv, fl, er, name=nm))
        if not output_convolved:
            i.model_fluxes = None
        infos.append(i)
    return infos


def write_file(path, infos):
    from sedfitter.fit_info import FitInfoFile
    fo = FitInfoFile(path, 'w')
    for i in infos:
        fo.write(i)
    fo.close()
    return path


def expected_rows(info, sel):
    """Reference view of one result after a selector: list of (model_name, chi2, av, sc) for the kept fits."""
    chi = [float(x) for x in np.asarray(info.chi2, float)]
    nd = selref.n_data(list(np.asarray(info.source.valid)))
    k = selref.kept(chi, nd, sel)
    names = [str(x).strip() for x in np.asarray(info.model_name)]
    av = np.asarray(info.av, float)
    sc = np.asarray(info.sc, float)
    return nd, [(names[i], chi[i], float(av[i]), float(sc[i])) for i in range(k)]


# ---------------------------------------------------------------------------
# parsers

def parse_write_parameters(path):
    lines = open(path).read().splitlines()
    header = lines[1].split()
    body = lines[3:]
    out = []
    i = 0
    while i < len(body):
        t = body[i].split()
        if not t:
            i += 1
            continue
        name, nd, nf = t[0], int(t[1]), int(t[2])
        rows = []
        for j in range(nf):
            r = body[i + 1 + j].split()
            rows.append({'fit_id': int(r[0]), 'model': r[1], 'chi2': float(r[2]), 'av': float(r[3]), 'sc': float(r[4]), 'pars': [float(x) for x in r[5:]]})
        out.append({'source': name, 'n_data': nd, 'n_fits': nf, 'rows': rows})
        i += 1 + nf
    return header, out


def ranges_header(path):
    """names in the first header line of a write_parameter_ranges file (each centred in 32 characters)"""
    return open(path).read().splitlines()[0].split()


def parse_ranges(path):
    lines = open(path).read().splitlines()
    out = []
    for ln in lines[3:]:
        t = ln.split()
        if not t:
            continue
        vals = [None if x == '-' else float(x) for x in t[3:]]
        out.append({'source': t[0], 'n_data': int(t[1]), 'n_fits': int(t[2]), 'triples': [vals[k:k + 3] for k in range(0, len(vals), 3)]})
    return out


def parse_extract(path, header=True):
    lines = open(path).read().splitlines()
    cols = lines[0].split() if header else None
    rows = [ln.split() for ln in lines[(1 if header else 0):] if ln.strip()]
    return cols, rows


def close_f(a, b, nd=3):
    """printed with %10.3f"""
    if a != a or b != b:
        return (a != a) and (b != b)
    if abs(b) == float('inf'):
        return a == b
    return abs(a - b) <= 0.5 * 10 ** (-nd) + 1e-9 * abs(b)


def close_e(a, b):
    """printed with %.3e"""
    if a is None or b is None:
        return a is None and b is None
    if a != a or b != b:
        return (a != a) and (b != b)
    if abs(b) == float('inf'):
        return a == b
    return abs(a - b) <= 5.01e-4 * abs(b) + 1e-300
