"""C19 -- a fit output file cut short by a crash never yields a wrong record.

Engine E3 (crash-point enumerator): files are written by the real
FitInfoFile.write from hand-built FitInfo records of different sizes; *every*
truncation offset 0..len-1 is materialised and read back with the real reader,
consuming the iterator one record at a time.
"""
import hashlib
import itertools
import os
import pickle

import numpy as np

from mc.canon import canon

ID = 'C19'
LEVEL = 'fault_enumeration'
TECHNIQUE = 'exhaustive crash-point enumeration: every truncation offset of every written file is read back by the real reader'
LEVEL_TEXT = ('Every byte offset 0..len-1 of every file in a family of files written by the real writer (all sequences of '
              'length 1..2 over the record kinds, plus covering sequences of length 3..4) is truncated and read by the real '
              'FitInfoFile reader, one record at a time; whatever is yielded -- before a clean end or before an exception -- '
              'must be canon-equal (NaN-aware, all fields, metadata included) to a prefix of what was written.')
LEVEL_NOTE = ('The crash model is the property\'s: a prefix of the final file (append-only writer). Record contents come from a '
              'finite family (0/1/3 fits, with/without predicted fluxes, NaN/inf values, short/long names); the offsets are '
              'exhaustive for every file of the family. Trusts pickle and the canonical encoding.')
RULE = ("files: every sequence of record kinds of length 1..Lfull plus covering sequences up to length 4, written with the real "
        "FitInfoFile.write; executions: every truncation offset of every file; non-trivial = offsets strictly inside the file "
        "at which at least the metadata had been completely written (so the reader can open the file) -- counted as distinct "
        "(file, offset) pairs")
ASSUMPTIONS = ["a crash leaves a byte prefix of the file (append-only stream)",
               "record contents range over a finite family; offsets are exhaustive"]
REQUIRED_CLASSES = ['same-result-object-written-twice', 'opened-by-relative-name-then-directory-changed', 'offset-in-metadata', 'offset-on-record-boundary', 'offset-inside-numpy-payload', 'offset-last-byte',
                    'open-raises', 'iteration-raises', 'clean-end-after-prefix', 'yields-some-then-raises-or-ends',
                    'full-file', 'record-with-thousands-of-fits', 'same-source-twice', 'blank-padded-names', 'same-source-object-changed-in-place']
TIMEOUT = {'quick': 300, 'thorough': 900}

KINDS_QUICK = ['f0', 'f1m', 'f3m', 'f3', 'f1L', 'f3mx', 'f1D', 'f1mP', 'f1S', 'f3mW', 'f3mE', 'f0m', 'f3mA', 'f3mO', 'f3U', 'f3mR', 'f3mB']          # B: big-endian arrays; D: same source content as the record before it; P: blank-padded names; S: the very same Source object, changed in place
KINDS_ALL = ['f0', 'f0m', 'f1', 'f1m', 'f3', 'f3m', 'f1L', 'f3mL', 'f3mx', 'f3x', 'f0L', 'f1mL', 'f1D', 'f3mD', 'f1mP', 'f3P', 'f1S', 'f3mS', 'f3mW', 'f1W', 'f3mE', 'f3Ex', 'f3mA', 'f3mO', 'f3U', 'f3mR', 'f1mO', 'f3mB', 'f1B']


def setup(tier, seed):
    kinds = KINDS_QUICK if tier == 'quick' else KINDS_ALL
    files = []
    lfull = 2
    # quick tier: all pairs over the first nine kinds; the newer kinds (wide names, ties, a zero-fit record with stored fluxes) alone and
    # paired, in both orders, with three of the others.  thorough: every pair over all kinds.
    core = kinds if tier != 'quick' else kinds[:9]
    for L in range(1, lfull + 1):
        for seq in itertools.product(core, repeat=L):
            files.append(list(seq))
    for kx in [k_ for k_ in kinds if k_ not in core]:
        files.append([kx])
        for ky in ('f1m', 'f3m', 'f0'):
            files.append([kx, ky])
            files.append([ky, kx])
    # covering longer sequences: rotations, seed decides the rotation offset
    rng = np.random.default_rng(seed)
    n_long = 6 if tier == 'quick' else 40
    for i in range(n_long):
        L = 3 + (i % 2)
        off = int(rng.integers(0, len(kinds)))
        files.append([kinds[(off + i + j * (1 + i % 3)) % len(kinds)] for j in range(L)])
    # The metadata bytes are the same for every file of the family; the reader is a
    # deterministic function of the bytes it is given, so offsets inside the metadata are
    # explored once (file 0) and skipped for the other files *iff* their metadata bytes
    # are identical to file 0's (checked per file with a digest).
    import hashlib
    from mc import env
    from sedfitter.fit_info import FitInfoFile
    with env.case_dir() as d:
        p = os.path.join(d, 'm.fitinfo')
        fo = FitInfoFile(p, 'w')
        fo.write(_record('f0', 0, _meta(d)))
        fo.close()
        data = open(p, 'rb').read()
        meta_end = _first_openable(data, os.path.join(d, 'probe.fitinfo'))
        meta_sha = hashlib.sha1(data[:meta_end]).hexdigest()
    return {'tier': tier, 'seed': seed, 'files': files, 'kinds': kinds, 'meta_sha': meta_sha, 'meta_end': meta_end, 'big_parts': 32}


def cases(ctx):
    for i, seq in enumerate(ctx['files']):
        yield {'file': i, 'seq': seq}
    # one file with a record of thousands of fits between two small ones (every per-fit array >= 64 kB); its offsets
    # are spread over several cases
    # (quick tier: the complete file and every offset in the last eighth of it -- the end of the big record and the record
    # after it; thorough tier: every offset)
    parts = range(ctx['big_parts']) if ctx['tier'] == 'thorough' else [0] + list(range(ctx['big_parts'] - 4, ctx['big_parts']))
    for part in parts:
        yield {'file': 10000, 'seq': ['f1m', 'big', 'f3'], 'part': [part, ctx['big_parts']], 'only_full': (ctx['tier'] != 'thorough' and part == 0)}


def evidence_extra(ctx):
    nlong = sum(1 for f_ in ctx['files'] if len(f_) >= 3)
    ncore = len(ctx['kinds']) if ctx['tier'] != 'quick' else 9
    return {'bounds': '%d files (all sequences of length 1..2 over %d record kinds%s + %d covering sequences of length 3..4); '
                      'every truncation offset of each; plus one file with an 8192-fit record (every offset in the thorough tier, the last eighth of the file in the quick tier)'
                      % (len(ctx['files']), ncore, '' if ctx['tier'] != 'quick' else '; the other %d kinds alone and paired both ways with three of them' % (len(ctx['kinds']) - ncore), nlong),
            'alphabet_digest': 'kinds=%s seed=%d' % (ctx['kinds'], ctx['seed'])}


def _meta(d):
    from astropy import units as u
    from sedfitter.extinction import Extinction
    e = Extinction()
    e.wav = np.array([0.1, 0.55, 2.0, 50.0]) * u.micron
    e.chi = np.array([900.0, 220.0, 30.0, 0.5]) * u.cm ** 2 / u.g
    filters = [{'aperture_arcsec': 1.0, 'name': 'F1', 'wav': 1.25 * u.micron},
               {'aperture_arcsec': 3.0, 'wav': 8.0 * u.micron},
               {'aperture_arcsec': 3.0, 'name': 'F3', 'wav': 24.0 * u.micron}]
    return '/nonexistent/model/package_dir', filters, e


def _record(kind, idx, meta):
    from sedfitter.fit_info import FitInfo
    from sedfitter.source import Source
    s = Source()
    sidx = max(idx - 1, 0) if 'D' in kind else idx         # 'D': the very same source as the previous record (e.g. a source fitted twice)
    s.name = ('source_with_a_rather_long_name_%02d' % sidx) if 'L' in kind else ('s%d   ' % sidx if 'P' in kind else 's%d' % sidx)
    s.x = 10.25 + sidx
    s.y = -0.5 * sidx
    nb = 3
    if 'O' in kind:        # a source observed in ONE band (its predicted fluxes are an (n_fits, 1) array)
        s.valid, s.flux, s.error, nb = np.array([1]), np.array([1.5 + sidx]), np.array([0.25]), 1
    else:
        s.valid = np.array([1, 4, 3])
        s.flux = np.array([1.5 + sidx, 0.25, 7.0])
        s.error = np.array([0.1, 0.05, 0.9])
    if kind == 'big':
        return _big_record(s, idx, meta)
    n = int(kind[1])
    i = FitInfo(s)
    i.chi2 = np.array([0.5, 2.5, 1e30][:n]) + idx
    i.av = np.array([0.0, 1.25, 3.5][:n])
    i.sc = np.array([-1.0, 0.0, 0.5][:n])
    if 'x' in kind and n:
        i.chi2 = i.chi2.copy()
        i.chi2[-1] = np.nan
        i.av = i.av.copy()
        i.av[0] = np.inf
    if 'E' in kind and n >= 2:        # the last two fits exactly tied at 1e30, or (with x) both infinite
        i.chi2 = i.chi2.copy()
        i.chi2[-2:] = np.inf if 'x' in kind else 1e30
    if 'A' in kind and n:        # A_V and scale of the kept fits almost, but not exactly, equal
        i.av = np.array([2.5, 2.50001, 2.500015][:n])
        i.sc = np.array([-1.0, -1.000001, -1.0000005][:n])
    # indices into a large grid of which only a few fits were kept: several hundred thousand models, or a grid whose largest kept index lies
    # just above 127 / 32767
    i.model_id = np.array([[200000, 70, 300], [200, 70, 130], [40000, 5, 33000]][idx % 3][:n])
    if 'U' in kind:        # non-ASCII names that fill the width of their array
        i.model_name = np.array(['grid_\u03b2_0010', 'grid_\u03b2_0002', 'grid_\u03b2_0001'][:n])
    elif 'W' in kind:        # names that spell out the parameters: 48 characters, the first 47 shared
        i.model_name = np.array(['grid_model_with_all_its_parameters_spelled_out_' + c_ for c_ in 'cab'][:n])
    else:
        i.model_name = np.array(['model_c', 'model_a', 'model_b'][:n], dtype='U30') if 'P' not in kind else np.array(['model_c    ', 'model_a    ', 'model_b    '][:n], dtype='U30')
    i.model_fluxes = ((np.arange(n * nb, dtype=float).reshape(n, nb) + 0.5 * idx) / 3.0) if 'm' in kind else None          # thirds: not representable in single precision
    if 'B' in kind:        # every array in non-native (big-endian) byte order, as arrays that come out of a FITS table are
        for a_ in ('chi2', 'av', 'sc', 'model_id', 'model_fluxes'):
            v_ = getattr(i, a_)
            if v_ is not None:
                setattr(i, a_, v_.astype(v_.dtype.newbyteorder('>')))
    i.meta.model_dir, i.meta.filters, i.meta.extinction_law = meta
    return i


def big_file_hint(case):
    return False


def _first_openable(data, path):
    """Smallest truncation offset at which the real reader opens the file without raising:
    the point where the shared metadata is completely on disk.  Found by scanning (no knowledge
    of the file format)."""
    from sedfitter.fit_info import FitInfoFile
    for t in range(0, len(data) + 1):
        with open(path, 'wb') as f:
            f.write(data[:t])
        try:
            fin = FitInfoFile(path, 'r')
        except Exception:
            continue
        fin.close()
        return t
    return len(data)


def _write_history(path, seq, meta, upto=None, rec=None):
    """Write the first `upto` records of the sequence with the real writer, replaying the same history on fresh objects
    (including the in-place change of a shared Source object between two writes).  Returns (records, canon of each record
    as it was when it was written)."""
    from sedfitter.fit_info import FitInfoFile
    records = [_record(k, i, meta) for i, k in enumerate(seq)]
    upto = len(records) if upto is None else upto
    fout = FitInfoFile(path, 'w')
    written = []
    for i, (k, r) in enumerate(zip(seq[:upto], records[:upto])):
        if 'R' in k and i > 0:
            # the very same result object as the previous record, cut down to its best fit in between (written, selected, written again)
            r = records[i - 1]
            r.keep(('N', 1))
            records[i] = r
            if rec is not None:
                rec.cls('same-result-object-written-twice')
        if 'S' in k and i > 0:
            r.source = records[i - 1].source
            j_ = min(2, len(r.source.valid) - 1)          # (the previous record's source may have a single band)
            r.source.valid[j_] = 0 if r.source.valid[j_] != 0 else 1
            if rec is not None:
                rec.cls('same-source-object-changed-in-place')
        written.append(canon(r))
        fout.write(r)
    fout.close()
    return records, written


def _record_ends(seq, meta, d, data):
    """Offsets at which each record is completely on disk, obtained with the real writer only:
    size of the file holding the first k records (same write history), provided that file is a byte prefix
    of the full file (append-only stream).  Returns None when the format is not append-only (then the
    boundary classes cannot be assigned)."""
    ends = []
    for k in range(1, len(seq) + 1):
        p = os.path.join(d, 'prefix%d.fitinfo' % k)
        _write_history(p, seq, meta, upto=k)
        b = open(p, 'rb').read()
        if data[:len(b)] != b:
            return None
        ends.append(len(b))
    return ends


N_BIG = 8192          # 8192 fits: every per-fit float64 / int64 array is exactly 64 kB


def _big_record(s, idx, meta):
    from sedfitter.fit_info import FitInfo
    i = FitInfo(s)
    n = N_BIG
    i.chi2 = np.arange(n, dtype=float) * 0.5 + 1.0
    i.av = (np.arange(n) % 40) * 0.25
    i.sc = -0.001 * np.arange(n)
    i.model_id = np.arange(n)[::-1].copy()
    i.model_name = np.array(['%04x' % q for q in range(n)], dtype='U4')
    i.model_fluxes = None
    i.meta.model_dir, i.meta.filters, i.meta.extinction_law = meta
    return i


def _boundaries(data):
    """Offsets at which each top-level pickle ends (harness-side, independent of the reader)."""
    import io
    f = io.BytesIO(data)
    ends = []
    while f.tell() < len(data):
        pickle.Unpickler(f).load()
        ends.append(f.tell())
    return ends


def _numpy_payload_ranges(data):
    """Byte ranges of raw array payloads (searching the float64 bytes of known values)."""
    out = []
    for val in (0.25, 7.0, 1.25):
        b = np.float64(val).tobytes()
        start = 0
        while True:
            j = data.find(b, start)
            if j < 0:
                break
            out.append((j, j + 8))
            start = j + 1
    return out


def run_case(ctx, case, rec, d):
    from sedfitter.fit_info import FitInfoFile
    meta = _meta(d)
    if any('D' in k for k in case['seq'][1:]):
        rec.cls('same-source-twice')
    if any('P' in k for k in case['seq']):
        rec.cls('blank-padded-names')
    meta_canon = canon([meta[0], meta[1], meta[2]])
    path = os.path.join(d, 'full.fitinfo')
    records, written = _write_history(path, case['seq'], meta, rec=rec)
    data = open(path, 'rb').read()
    rec_ends = _record_ends(case['seq'], meta, d, data)
    if rec_ends is None:
        rec.notes['file-format-not-append-only'] += 1
        rec_ends = []
    tpath0 = os.path.join(d, 'probe.fitinfo')
    meta_end = ctx['meta_end'] if hashlib.sha1(data[:ctx['meta_end']]).hexdigest() == ctx['meta_sha'] else _first_openable(data, tpath0)
    payload = _numpy_payload_ranges(data)
    rec.sample({'record_kinds': case['seq'], 'file_bytes': len(data), 'metadata_end': meta_end, 'record_ends': rec_ends,
                'offsets_explored': '0..%d' % len(data)})
    tpath = os.path.join(d, 'cut.fitinfo')
    start = 0
    if big_file_hint(case) or case['file'] != 0 and meta_end == ctx['meta_end'] and hashlib.sha1(data[:meta_end]).hexdigest() == ctx['meta_sha']:
        start = meta_end - 16         # same bytes as file 0 below this offset: already explored there
        rec.notes['metadata-offsets-shared-with-file-0'] += start
    # a decoy: another complete file (different records) is written to the very path the truncated
    # files will use and is read completely first -- the reader must depend on the current bytes only
    decoy = [_record(k, 50 + i, meta) for i, k in enumerate(reversed(case['seq']))]
    fo = FitInfoFile(tpath, 'w')
    for r in decoy:
        fo.write(r)
    fo.close()
    fin = FitInfoFile(tpath, 'r')
    n_decoy = sum(1 for _ in fin)
    fin.close()
    if n_decoy != len(decoy):
        rec.violation('complete-read|count', {'decoy': True}, {'read': n_decoy, 'written': len(decoy)})
    # the same decoy also sits under the same NAME in another directory: for every seventh offset the truncated file is opened
    # by its relative name and the working directory is changed to that other directory before the records are read
    import shutil as _sh
    other_dir = os.path.join(d, 'elsewhere')
    os.makedirs(other_dir, exist_ok=True)
    _sh.copy(tpath, os.path.join(other_dir, 'cut.fitinfo'))
    cwd0 = os.getcwd()
    offsets = [len(data)] + list(range(start, len(data)))
    big = 'part' in case
    if big:
        lo = start + (len(data) - start) * case['part'][0] // case['part'][1]
        hi = start + (len(data) - start) * (case['part'][0] + 1) // case['part'][1]
        offsets = ([len(data)] if case['part'][0] == 0 else []) + ([] if case.get('only_full') else list(range(hi - 1, lo - 1, -1)))       # descending: one copy, truncated step by step
        rec.cls('record-with-thousands-of-fits')
        with open(tpath, 'wb') as f:
            f.write(data)
    for t in offsets:
        if big:
            os.truncate(tpath, t)
        else:
            with open(tpath, 'wb') as f:
                f.write(data[:t])
        complete = sum(1 for e in rec_ends if e <= t)
        got = []
        how = None
        got_meta = None
        relative = (not big) and (t % 7 == 3 or t == len(data))
        try:
            if relative:
                os.chdir(d)
                rec.cls('opened-by-relative-name-then-directory-changed')
            fin = FitInfoFile('cut.fitinfo' if relative else tpath, 'r')
        except Exception as e:
            how = 'open-raises:' + type(e).__name__
            fin = None
        finally:
            if relative:
                os.chdir(other_dir)
        if fin is not None:
            try:
                got_meta = canon([fin.meta.model_dir, fin.meta.filters, fin.meta.extinction_law])
                it = iter(fin)
                while True:
                    try:
                        r = next(it)
                    except StopIteration:
                        how = 'clean-end'
                        break
                    except Exception as e:
                        how = 'iteration-raises:' + type(e).__name__
                        break
                    got.append(r)
                    if len(got) > len(records) + 2:
                        how = 'runaway'
                        break
            finally:
                try:
                    fin.close()
                except Exception:
                    pass
        os.chdir(cwd0)
        rec.ev()
        rec.trans()
        rec.state(('big', t) if big else hashlib.sha1(data[:t]).digest())       # a state is a distinct byte prefix
        rec.outcome((how, len(got)))
        # ---- oracle
        bad = None
        try:
            got_c = [canon(g) for g in got]
        except Exception as e:      # a partially built object that cannot even be encoded
            got_c = None
            bad = 'yielded an object that is not a well-formed record: %s' % type(e).__name__
        if bad is None:
            if len(got_c) > len(written) or got_c != written[:len(got_c)]:
                k = next((j for j, (a, b) in enumerate(zip(got_c, written)) if a != b), len(written))
                bad = 'yielded record %d differs from the written one (or was never written)' % k
            elif got and got_meta != meta_canon:
                bad = 'records carry metadata that differs from the written metadata'
            elif fin is not None and how == 'clean-end' and got_meta != meta_canon:
                bad = 'file opened with metadata that differs from the written metadata'
            elif rec_ends and len(got) > complete:
                bad = 'yielded %d records although only %d were completely on disk at this offset' % (len(got), complete)
            elif t == len(data) and (how != 'clean-end' or len(got) != len(records)):
                bad = 'complete file did not yield all records (%s, %d of %d)' % (how, len(got), len(records))
        if bad:
            where = 'meta' if t < meta_end else ('boundary' if t in rec_ends else 'record')
            rec.violation('truncated-read|%s' % where, {'offset': t}, {'problem': bad, 'how': how, 'yielded': len(got),
                                                                         'complete_on_disk': complete, 'file_len': len(data)})
            continue
        # ---- classes
        if t == len(data):
            rec.cls('full-file')
            continue
        if t < meta_end:
            rec.cls('offset-in-metadata')
        else:
            rec.nontriv((case['file'], t))
        if t in rec_ends or t == meta_end:
            rec.cls('offset-on-record-boundary')
        if any(a < t < b for a, b in payload):
            rec.cls('offset-inside-numpy-payload')
        if t == len(data) - 1:
            rec.cls('offset-last-byte')
        if how.startswith('open-raises'):
            rec.cls('open-raises')
        elif how.startswith('iteration-raises'):
            rec.cls('iteration-raises')
        elif how == 'clean-end':
            rec.cls('clean-end-after-prefix')
        if got and len(got) < len(records):
            rec.cls('yields-some-then-raises-or-ends')
