"""C06 -- broadband convolution is the binned integral of F_nu * R_nu.

E1, four families:
 lattice   every filter (node subset of {2..6}, every response assignment, both
           storage orders) against every SED grid (subset of {0..8}, both orders):
           all relative placements of two small grids, exact oracle;
 irregular seed-derived irregular filters (6..60 samples) x SED grids (2..80),
           exact rational oracle;
 object    filters read by Filter.read from wavelength text files; normalize();
           flat spectrum; linearity;
 package   the real convolve_model_dir on per-file and cube packages (either
           spectral order), fluxes and errors read back with astropy.io.fits.
"""
import itertools
import os
from fractions import Fraction as Fr

import numpy as np

from ref import convref, pkgwriter

ID = 'C06'
LEVEL = 'model_checking'
TECHNIQUE = 'exhaustive enumeration of all relative placements of two small lattice grids through the real Filter.rebin / convolve_model_dir, against exact rational integration'
LEVEL_TEXT = ('Every filter on the node lattice {2..6} (all node subsets of size 2..4(5), all response assignments, both storage orders) is rebinned by the real '
              'Filter.rebin onto every SED grid on the lattice {0..8} (all subsets of size 2..4(6), both orders) and each R_i is compared with the exact rational '
              'integral of the piecewise-linear response over the clipped mid-point bin; sum R_i must equal the exact integral over the overlap. Irregular '
              'seed-derived grids (up to 60 filter samples / 80 SED points), filters read from wavelength files, normalisation, flat spectra, linearity and the '
              'package-level fluxes and quadrature errors written by convolve_model_dir (both formats, both spectral orders) are checked the same way.')
LEVEL_NOTE = ('Exhaustive over relative placements on the small lattice only; larger grids are covered by a seed-derived irregular family. Comparison tolerance '
              '1e-12 relative to the filter integral. Package files are written with astropy.io.fits directly and read back with it. Trusts fractions.Fraction.')
RULE = ("lattice: cases = (filter node subset, storage order), executions = response assignments x SED grids; irregular/object/package: one case per configuration; "
        "non-trivial = distinct (filter, SED grid) pairs whose overlap is non-empty and whose filter has a non-zero response")
ASSUMPTIONS = ["non-negative responses, strictly positive distinct frequencies", "lattice exhaustive; beyond it a finite seed-derived family"]
REQUIRED_CLASSES = ['same-filter-binned-again-on-a-grid-of-equal-length', 'spectrum-resolving-a-narrow-filter', 'rebinned-before-normalising', 'package-of-100-models-and-100-wavelengths', 'integer-response', 'filter-file-overwritten-and-read-again', 'bin-edge-on-filter-end', 'several-nodes-in-one-bin', 'filter-decreasing-nu', 'sed-decreasing-nu', 'partial-overlap-low', 'partial-overlap-high',
                    'filter-outside-sed', 'empty-bin', 'normalized-flat', 'linearity', 'file-filter', 'pkg-v1', 'pkg-v2', 'pkg-errors', 'irregular', 'seds-with-different-grids', 'filter-nu-in-other-unit', 'two-filters-one-response-array', 'normalize-after-nu-reassigned']
TIMEOUT = {'quick': 600, 'thorough': 3000}

LAT_F = [2, 3, 4, 5, 6]
LAT_S = list(range(0, 9))


def setup(tier, seed):
    out = []
    kf_max = 4 if tier == 'quick' else 5
    for kf in range(2, kf_max + 1):
        for nodes in itertools.combinations(LAT_F, kf):
            for ford in (1, -1):
                if kf >= 4:
                    nr = len(_resp_alpha(tier)) ** kf
                    for part in range(4):
                        out.append({'fam': 'lattice', 'nodes': list(nodes), 'ford': ford, 'part': part, 'parts': 4})
                else:
                    out.append({'fam': 'lattice', 'nodes': list(nodes), 'ford': ford, 'part': 0, 'parts': 1})
    n_irr = 48 if tier == 'quick' else 400
    for i in range(n_irr):
        out.append({'fam': 'irregular', 'i': i})
    for i in range(6 if tier == 'quick' else 24):
        out.append({'fam': 'object', 'i': i})
    for fmt in ('v1', 'v2'):
        for sord in (1, -1):
            for n_ap in (1, 3):
                for memmap in ((True, False) if fmt == 'v2' else (False,)):
                    for rep in range(1 if tier == 'quick' else 4):
                        out.append({'fam': 'package', 'fmt': fmt, 'sord': sord, 'n_ap': n_ap, 'memmap': memmap, 'rep': rep})
                        if fmt == 'v1':
                            for g in ('interior', 'interior+length'):
                                out.append({'fam': 'package', 'fmt': fmt, 'sord': sord, 'n_ap': n_ap, 'memmap': memmap, 'rep': rep, 'grids': g})
    # scale: a hundred models (cube blocks, row indices) on spectra of a hundred points
    for fmt in ('v1', 'v2'):
        for sord in (1, -1):
            for memmap in ((True, False) if fmt == 'v2' else (False,)):
                out.append({'fam': 'package', 'fmt': fmt, 'sord': sord, 'n_ap': 3 if sord == 1 else 1, 'memmap': memmap, 'rep': 0, 'scale': (100, 100) if tier == 'quick' else (300, 150)})
    return {'tier': tier, 'seed': seed, 'cases': out}


def _resp_alpha(tier):
    return [0, 1, 3] if tier == 'quick' else [0, 1, 2, 3]


def cases(ctx):
    return iter(ctx['cases'])


def evidence_extra(ctx):
    t = ctx['tier']
    return {'bounds': 'lattice: filter nodes subsets of {2..6} size 2..%d, responses %s^k, both orders; SED subsets of {0..8} size 2..%d, both orders; irregular family; objects; packages'
                      % (4 if t == 'quick' else 5, _resp_alpha(t), 4 if t == 'quick' else 6),
            'alphabet_digest': 'seed=%d' % ctx['seed']}


def _mkfilter(nu, resp, name='f', cw=1.0, nu_unit='Hz'):
    from astropy import units as u
    from sedfitter.filter import Filter
    f = Filter()
    f.name = name
    f.central_wavelength = cw * u.micron
    f.nu = (np.array(nu, dtype=float) * u.Hz).to(u.Unit(nu_unit))
    f.response = np.array(resp, dtype=float)
    return f


def _classes(rec, fx, sx, R):
    fl, fh = min(fx), max(fx)
    sl, sh = min(sx), max(sx)
    if fx[0] > fx[-1]:
        rec.cls('filter-decreasing-nu')
    if sx[0] > sx[-1]:
        rec.cls('sed-decreasing-nu')
    if sh < fl or sl > fh:
        rec.cls('filter-outside-sed')
        return False
    if sl > fl:
        rec.cls('partial-overlap-low')
    if sh < fh:
        rec.cls('partial-overlap-high')
    edges = convref.bin_edges([Fr(x) for x in sx])
    for a, b in edges:
        if a in (fl, fh) or b in (fl, fh):
            rec.cls('bin-edge-on-filter-end')
        if sum(1 for x in fx if a < x < b) >= 2:
            rec.cls('several-nodes-in-one-bin')
        if min(max(a, fl), fh) == min(max(b, fl), fh):
            rec.cls('empty-bin')
    return True


def run_case(ctx, case, rec, d):
    fam = case['fam']
    if fam == 'lattice':
        return _lattice(ctx, case, rec)
    if fam == 'irregular':
        return _irregular(ctx, case, rec)
    if fam == 'object':
        return _object(ctx, case, rec, d)
    return _package(ctx, case, rec, d)


def _lattice(ctx, case, rec):
    from astropy import units as u
    tier = ctx['tier']
    nodes = case['nodes'][::case['ford']]
    kf = len(nodes)
    ks_max = 4 if tier == 'quick' else 6
    grids = []
    for ks in range(2, ks_max + 1):
        for sn in itertools.combinations(LAT_S, ks):
            for sord in (1, -1):
                grids.append(list(sn[::sord]))
    grid_q = [np.array(g, dtype=float) * u.Hz for g in grids]
    half = [Fr(i, 2) for i in range(0, 17)]
    resps = [r for r in itertools.product(_resp_alpha(tier), repeat=kf) if any(r)]
    resps = resps[case['part']::case['parts']]
    sampled = False
    for resp in resps:
        f = _mkfilter(nodes, resp)
        fx = [Fr(x) for x in nodes]
        fy = [Fr(y) for y in resp]
        sfx, sfy = (fx, fy) if fx[0] < fx[-1] else (fx[::-1], fy[::-1])
        # exact antiderivative at every half-integer (all bin edges of lattice grids are half-integers);
        # values are multiples of 1/16, so float arithmetic on them is exact
        G = {h: float(convref.pl_integral(sfx, sfy, sfx[0], min(max(h, sfx[0]), sfx[-1]))) for h in half}
        tot = G[half[-1]]
        held = None
        for g, gq in zip(grids, grid_q):
            try:
                r = f.rebin(gq).response
            except Exception as e:
                rec.ev()
                rec.violation('rebin|exception|%s' % type(e).__name__, {'resp': list(resp), 'sed': g}, {'filter_nu': nodes, 'msg': str(e)[:200]})
                continue
            rec.ev()
            rec.trans()
            # the binned response handed out for the previous grid is a result like any other: binning the same filter again leaves it as it was
            if held is not None and not np.array_equal(np.asarray(held[0]), held[1]):
                rec.violation('rebin|earlier-result-changed', {'resp': list(resp), 'sed': held[2]},
                              {'filter_nu': nodes, 'response': list(resp), 'first_sed_nu': held[2], 'then_sed_nu': g, 'first_result_was': held[1], 'first_result_now': np.asarray(held[0])})
            if held is not None and len(held[2]) == len(g):
                rec.cls('same-filter-binned-again-on-a-grid-of-equal-length')
            held = (r, np.array(r, dtype=float, copy=True), g)
            n = len(g)
            R = []
            for i in range(n):
                e1 = Fr(g[0]) if i == 0 else Fr(g[i - 1] + g[i], 2)
                e2 = Fr(g[-1]) if i == n - 1 else Fr(g[i] + g[i + 1], 2)
                a, b = min(e1, e2), max(e1, e2)
                R.append(G[b] - G[a])
            ok = len(r) == n and all(abs(float(r[i]) - R[i]) <= 1e-12 * (1 + tot) for i in range(n))
            key = (tuple(nodes), resp, tuple(g))
            rec.state(key)
            rec.outcome(tuple(R))
            if not ok:
                fo = 'dec' if nodes[0] > nodes[-1] else 'inc'
                endhit = any((Fr(g[0]) if i == 0 else Fr(g[i - 1] + g[i], 2)) in (sfx[-1],) or (Fr(g[-1]) if i == n - 1 else Fr(g[i] + g[i + 1], 2)) in (sfx[-1],) for i in range(n))
                rec.violation('rebin|value|filter-%s-nu%s' % (fo, '|bin-ends-on-last-node' if endhit else ''), {'resp': list(resp), 'sed': g},
                              {'filter_nu': nodes, 'response': list(resp), 'sed_nu': g, 'got': r, 'exact': R})
                continue
            if _classes(rec, fx, [Fr(x) for x in g], R):
                rec.nontriv(key)
            if not sampled and kf >= 3 and n >= 3 and g[0] < g[-1] and any(R):
                rec.sample({'family': 'lattice', 'filter_nu': nodes, 'response': list(resp), 'sed_nu': g, 'R_exact': R, 'R_impl': r})
                sampled = True
    rec.trace(len(resps))


def _irr_grids(seed, i):
    rng = np.random.default_rng(seed * 100003 + i)
    nf = int(rng.integers(6, 61))
    ns = int(rng.integers(2, 81))
    f_lo, f_hi = sorted(rng.uniform(1e13, 3e14, 2))
    if f_hi < f_lo * 1.05:
        f_hi = f_lo * 1.5
    fx = np.sort(rng.uniform(f_lo, f_hi, nf))
    fx = np.unique(np.r_[f_lo, fx[1:-1], f_hi])
    fy = rng.uniform(0, 1, len(fx)) * (rng.random(len(fx)) > 0.15)
    if i % 3 == 0:
        fy[0] = fy[-1] = 0.0
    mode = i % 4
    span = f_hi - f_lo
    if mode == 0:
        s_lo, s_hi = f_lo - 0.5 * span, f_hi + 0.5 * span            # filter inside the SED range
    elif mode == 1:
        s_lo, s_hi = f_lo + 0.3 * span, f_hi + 0.5 * span            # partial overlap
    elif mode == 2:
        s_lo, s_hi = f_lo - 0.5 * span, f_hi - 0.4 * span
    else:
        s_lo, s_hi = f_lo, f_hi                                       # SED ends exactly on the filter ends
    sx = np.unique(np.r_[s_lo, rng.uniform(s_lo, s_hi, max(ns - 2, 0)), s_hi])
    if i % 5 == 0 and len(sx) > 3:
        sx[len(sx) // 2] = fx[len(fx) // 2]                           # an SED frequency exactly on a filter node
        sx = np.unique(sx)
    ford = 1 if (i // 2) % 2 == 0 else -1
    sord = 1 if (i // 4) % 2 == 0 else -1
    return fx[::ford], fy[::ford], sx[::sord]


def _irregular(ctx, case, rec):
    from astropy import units as u
    fx, fy, sx = _irr_grids(ctx['seed'], case['i'])
    nu_unit = ['Hz', 'THz', 'GHz'][case['i'] % 3]
    f = _mkfilter(fx, fy, nu_unit=nu_unit)
    if nu_unit != 'Hz':
        rec.cls('filter-nu-in-other-unit')
    if case['i'] % 2 and float(sum(fy)) > 0:
        # normalised in memory: the integral over frequency (in Hz) must become 1
        f.normalize()
        if case['i'] % 4 == 1:
            # history: the same object is given another frequency axis (twice as wide) and normalised again, then its own
            # axis back and normalised a third time -- each normalize() must refer to the axis the object has at that moment
            rec.cls('normalize-after-nu-reassigned')
            own_nu = f.nu
            f.nu = own_nu * 2.0
            f.normalize()
            rec.trans()
            _, _, tot2 = convref.rebin_exact((np.asarray(fx) * 2.0), np.asarray(f.response, float), np.asarray(sx) * 2.0)
            if abs(float(tot2) - 1.0) > 1e-11:
                rec.violation('normalize|integral|after-nu-reassigned', {'i': case['i'], 'nu_unit': nu_unit}, {'integral_over_Hz_after_second_normalize': float(tot2)})
                return
            f.nu = own_nu
            f.normalize()
            rec.trans()
        fy = np.asarray(f.response, float)
        R0, over0, tot0 = convref.rebin_exact((np.asarray(fx) * 1.0), fy, sx)
        rec.ev()
        if abs(float(tot0) - 1.0) > 1e-11:
            rec.violation('normalize|integral', {'i': case['i'], 'nu_unit': nu_unit}, {'integral_over_Hz_after_normalize': float(tot0)})
            return
    R, over, tot = convref.rebin_exact(fx, fy, sx)
    rec.cls('irregular')
    try:
        r = f.rebin(sx * u.Hz).response
    except Exception as e:
        rec.ev()
        rec.violation('rebin|exception|%s' % type(e).__name__, {'i': case['i']}, {'n_filter': len(fx), 'n_sed': len(sx), 'msg': str(e)[:200]})
        return
    rec.ev()
    rec.trans()
    rec.trace()
    rec.state(('irr', case['i']))
    rec.nontriv(('irr', case['i']))
    rec.outcome(round(float(over), 3))
    scale = float(tot) + 1e-300
    worst = max(abs(Fr(float(r[i])) - R[i]) for i in range(len(sx)))
    fo = 'dec' if fx[0] > fx[-1] else 'inc'
    if float(worst) > 1e-11 * scale:
        i = max(range(len(sx)), key=lambda j: abs(Fr(float(r[j])) - R[j]))
        rec.violation('rebin|value|filter-%s-nu' % fo, {'i': case['i']}, {'n_filter': len(fx), 'n_sed': len(sx), 'bin': i, 'got': r[i], 'exact': float(R[i]), 'filter_integral': float(tot)})
        return
    if abs(float(sum(Fr(float(x)) for x in r) - over)) > 1e-11 * scale:
        rec.violation('rebin|sum', {'i': case['i']}, {'sum': float(sum(r)), 'exact_overlap_integral': float(over)})
    _classes(rec, [Fr(float(x)) for x in fx], [Fr(float(x)) for x in sx], R) if len(sx) <= 12 else None
    if case['i'] == 0:
        rec.sample({'family': 'irregular', 'n_filter': len(fx), 'n_sed': len(sx), 'filter_nu_first': fx[:4], 'sed_nu_first': sx[:4], 'sum_R': float(sum(r)), 'exact_overlap_integral': float(over)})


def _object(ctx, case, rec, d):
    """filters read from wavelength text files, normalize(), flat spectrum, linearity"""
    from astropy import units as u
    from sedfitter.filter import Filter
    i = case['i']
    rng = np.random.default_rng(ctx['seed'] * 7 + i)
    n = [3, 5, 12, 40][i % 4]
    wav = np.sort(rng.uniform(1.0, 3.0, n))
    if i % 2:
        wav = wav[::-1]                      # file in decreasing wavelength
    resp = rng.uniform(0.1, 1.0, n)
    if i % 3 == 0:
        resp[0] = resp[-1] = 0.0
    path = pkgwriter.write_filter_file(os.path.join(d, 'FX%d.txt' % i), wav, resp, 2.0)
    f = Filter.read(path)
    rec.cls('file-filter')
    rec.ev()
    sub = {'i': i}
    if f.name != 'FX%d' % i or abs(f.central_wavelength.to(u.micron).value - 2.0) > 1e-12:
        rec.violation('filter-read|metadata', sub, {'name': f.name, 'cw': str(f.central_wavelength)})
    nu_file = f.nu.to(u.Hz).value
    if not np.allclose(nu_file, pkgwriter.C_M_S / (wav * 1e-6), rtol=1e-12) or not np.array_equal(np.asarray(f.response), resp):
        rec.violation('filter-read|columns', sub, {'nu': nu_file[:4], 'wav': wav[:4]})
        return
    # the filter is used once BEFORE it is normalised (any order of the two operations is legal): what it gives afterwards must
    # be that of the normalised curve
    try:
        f.rebin(np.sort(np.r_[min(nu_file) * 0.7, nu_file, max(nu_file) * 1.2]) * u.Hz)
        rec.cls('rebinned-before-normalising')
    except Exception as e:
        rec.violation('rebin|exception|%s' % type(e).__name__, sub, {'msg': str(e)[:200], 'from': 'rebin before normalize'})
    f.normalize()
    fx = [Fr(float(x)) for x in nu_file]
    fy = [Fr(float(y)) for y in np.asarray(f.response)]
    # SED grid that contains the filter
    lo, hi = min(nu_file), max(nu_file)
    ns = [2, 7, 30][i % 3]
    sx = np.unique(np.r_[lo * 0.5, rng.uniform(lo * 0.5, hi * 1.5, ns), hi * 1.5])
    if (i // 2) % 2:
        sx = sx[::-1]
    R, over, tot = convref.rebin_exact(fx, fy, sx)
    try:
        fb = f.rebin(sx * u.Hz)
        r = np.asarray(fb.response)
    except Exception as e:
        rec.violation('rebin|exception|%s' % type(e).__name__, sub, {'msg': str(e)[:200], 'from': 'Filter.read'})
        return
    rec.ev(3)
    rec.trans(3)
    rec.trace()
    rec.state(('obj', i))
    rec.nontriv(('obj', i))
    rec.outcome(tuple(np.round(r, 9)))
    fo = 'dec' if nu_file[0] > nu_file[-1] else 'inc'
    if abs(float(tot) - 1.0) > 1e-12:
        rec.violation('normalize|integral', sub, {'integral_after_normalize': float(tot)})
    if max(abs(float(R[j]) - r[j]) for j in range(len(sx))) > 1e-11:
        rec.violation('rebin|value|filter-%s-nu' % fo, dict(sub, via='Filter.read'), {'got': r[:6], 'exact': [float(x) for x in R[:6]]})
        return
    # flat spectrum returns c; linearity in the SED
    c = 3.25
    if abs(np.sum(c * r) - c) > 1e-11 * c:
        rec.violation('rebin|flat-spectrum', sub, {'sum_R': float(np.sum(r))})
    rec.cls('normalized-flat')
    F1 = rng.uniform(0.5, 2, len(sx))
    F2 = rng.uniform(0.5, 2, len(sx))
    a = 2.75
    if abs(np.sum((F1 + a * F2) * r) - (np.sum(F1 * r) + a * np.sum(F2 * r))) > 1e-12 * np.sum((F1 + a * F2) * r):
        rec.violation('convolve|linearity', sub, {})
    rec.cls('linearity')
    if fb.name != f.name or fb.central_wavelength != f.central_wavelength:
        rec.violation('rebin|metadata', sub, {})
    # ---- a narrow filter (relative width 4e-4) on a spectrum that resolves it with 90 points: bins of a few parts in 10^6
    nu0 = float(np.mean(nu_file))
    fn = Filter()
    fn.name = 'NARROW'
    fn.central_wavelength = 2.0 * u.micron
    fn.nu = np.array([nu0 * (1 - 2e-4), nu0 * (1 - 0.5e-4), nu0 * (1 + 1e-4), nu0 * (1 + 2e-4)]) * u.Hz
    fn.response = np.array([0.0, 1.0, 0.6, 0.0])
    fn.normalize()
    sg = np.linspace(nu0 * (1 - 3e-4), nu0 * (1 + 3e-4), 90)
    Rn, _, totn = convref.rebin_exact([Fr(float(x)) for x in fn.nu.value], [Fr(float(y)) for y in np.asarray(fn.response)], sg)
    try:
        rn = np.asarray(fn.rebin(sg * u.Hz).response, float)
        rec.ev()
        rec.trans()
        rec.cls('spectrum-resolving-a-narrow-filter')
        scale_n = max(abs(float(x)) for x in Rn)
        if max(abs(float(Rn[j]) - rn[j]) for j in range(len(sg))) > 1e-9 * scale_n or abs(float(np.sum(rn)) - 1.0) > 1e-9:
            rec.violation('rebin|value|narrow-filter-fine-grid', sub, {'sum_R': float(np.sum(rn)), 'expected_sum': float(totn), 'got': rn[40:46], 'exact': [float(x) for x in Rn[40:46]]})
    except Exception as e:
        rec.violation('rebin|exception|%s' % type(e).__name__, dict(sub, narrow=True), {'msg': str(e)[:200]})
    # ---- a response given as whole numbers (per cent, or a 0/1 top-hat), not normalised: R_i are still exact integrals
    for resp_i in (np.array([0, 100, 80, 60, 0]), np.array([0, 1, 1, 1, 0]), np.array([3, 7, 2], dtype=np.int32)):
        nn = np.sort(rng.uniform(lo, hi, len(resp_i)))
        fi = _F() if False else Filter()
        fi.name = 'INT'
        fi.central_wavelength = 2.0 * u.micron
        fi.nu = nn * u.Hz
        fi.response = resp_i
        sgrid = np.unique(np.r_[lo * 0.5, rng.uniform(lo * 0.6, hi * 1.2, 6), hi * 1.5])
        Ri, _, toti = convref.rebin_exact([Fr(float(x)) for x in nn], [Fr(int(y)) for y in resp_i], sgrid)
        try:
            ri = np.asarray(fi.rebin(sgrid * u.Hz).response, float)
        except Exception as e:
            rec.violation('rebin|exception|%s' % type(e).__name__, dict(sub, response='integers'), {'msg': str(e)[:200]})
            continue
        rec.ev()
        rec.trans()
        rec.cls('integer-response')
        scale_i = max(abs(float(x)) for x in Ri) or 1.0
        if max(abs(float(Ri[j]) - ri[j]) for j in range(len(sgrid))) > 1e-11 * scale_i:
            rec.violation('rebin|value|integer-response', dict(sub, response=[int(x) for x in resp_i]), {'got': ri[:8], 'exact': [float(x) for x in Ri[:8]]})
        elif abs(float(np.sum(ri)) - float(toti)) > 1e-10 * abs(float(toti)):
            rec.violation('rebin|sum', dict(sub, response='integers'), {'sum_R': float(np.sum(ri)), 'integral_over_overlap': float(toti)})
    # ---- the filter file is replaced by another curve under the same name and read again
    wav2 = np.sort(rng.uniform(1.2, 2.6, 4))
    resp2 = rng.uniform(0.2, 0.9, 4)
    pkgwriter.write_filter_file(path, wav2, resp2, 1.9)
    f2 = Filter.read(path)
    rec.ev()
    rec.trans()
    rec.cls('filter-file-overwritten-and-read-again')
    if len(f2.nu) != 4 or not np.allclose(f2.nu.to(u.Hz).value, pkgwriter.C_M_S / (wav2 * 1e-6), rtol=1e-12) or not np.array_equal(np.asarray(f2.response), resp2) \
            or abs(f2.central_wavelength.to(u.micron).value - 1.9) > 1e-12:
        rec.violation('filter-read|columns', dict(sub, second_read_of_same_path=True), {'nu': f2.nu.to(u.Hz).value[:4], 'expected_wav': wav2})
    # ---- two in-memory filters built from ONE response array (same instrument curve on two frequency grids): normalising the
    # second must not disturb the first
    from sedfitter.filter import Filter as _F
    shared = rng.uniform(0.2, 1.0, 5)
    nuA = np.sort(rng.uniform(lo, hi, 5))
    nuB = nuA * 1.7
    keep = shared.copy()
    fA, fB = _F(), _F()
    for ff, nn, nm in ((fA, nuA, 'A'), (fB, nuB, 'B')):
        ff.name = nm
        ff.central_wavelength = 2.0 * u.micron
        ff.nu = nn * u.Hz
        ff.response = shared
    fA.normalize()
    fB.normalize()
    rec.ev(2)
    rec.trans(2)
    rec.cls('two-filters-one-response-array')
    for ff, nn, nm in ((fA, nuA, 'A'), (fB, nuB, 'B')):
        RR, ov, tt = convref.rebin_exact([Fr(float(x)) for x in nn], [Fr(float(y)) for y in np.asarray(ff.response)], np.r_[nn[0] * 0.5, nn, nn[-1] * 2.0])
        if abs(float(tt) - 1.0) > 1e-11:
            rec.violation('normalize|aliased-response', dict(sub, filter=nm), {'integral_after_normalize': float(tt), 'note': 'two filters were given the same response array'})
    if not np.array_equal(shared, keep):
        rec.notes['caller-array-modified-by-normalize'] += 1


def _package(ctx, case, rec, d):
    """convolve_model_dir on real package files; results read back with astropy.io.fits."""
    from astropy import units as u
    from astropy.io import fits
    from sedfitter.convolve import convolve_model_dir
    seed = ctx['seed']
    rng = np.random.default_rng(seed * 31 + case['rep'] * 5 + case['n_ap'])
    fmt, sord, n_ap = case['fmt'], case['sord'], case['n_ap']
    n_models, n_wav = case.get('scale', (3, 9))
    wav = np.sort(rng.uniform(0.8, 30.0, n_wav))[::-1]            # decreasing wavelength = increasing frequency
    if sord == -1:
        wav = wav[::-1]
    names = ['sed_b', 'sed_c', 'sed_a'] + ['sed_%05d' % ((i * 7919 + 13) % 100003) for i in range(3, n_models)]
    if n_models > 64:
        rec.cls('package-of-100-models-and-100-wavelengths')
    ap = None if n_ap == 1 else np.array([100.0, 1000.0, 10000.0])[:n_ap]
    flux = rng.uniform(1.0, 10.0, (n_models, n_ap, n_wav))
    err = flux * rng.uniform(0.01, 0.2, (n_models, n_ap, n_wav))
    md = os.path.join(d, 'pkg')
    os.makedirs(md)
    pkgwriter.write_conf(md, n_ap > 1, version=1 if fmt == 'v1' else 2)
    pkgwriter.write_parameters(md, names, {'par1': list(np.arange(n_models) + 1.0)})
    wav_of = [wav] * n_models
    if fmt == 'v1' and case.get('grids', 'same') != 'same':
        # per-file SEDs need not share a grid: same length and same end points but other interior points,
        # or another length altogether
        w2 = wav.copy()
        w2[1:-1] = wav[1:-1] + 0.3 * (wav[2:] - wav[1:-1])          # interior points moved towards their neighbour: still strictly monotonic
        w3 = np.r_[wav[:4], 0.5 * (wav[3] + wav[4]), wav[4:]]
        wav_of = [wav, w2, w3] if case['grids'] == 'interior+length' else [wav, w2, wav]
        rec.cls('seds-with-different-grids')
    if fmt == 'v1':
        for m, nm in enumerate(names):
            if len(wav_of[m]) != n_wav:
                fm = np.array([np.interp(wav_of[m][::-1] if wav_of[m][0] > wav_of[m][-1] else wav_of[m], np.sort(wav), flux[m, a][np.argsort(wav)]) for a in range(n_ap)])
                fm = fm[:, ::-1] if wav_of[m][0] > wav_of[m][-1] else fm
                flux_m, err_m = fm, fm * 0.1
            else:
                flux_m, err_m = flux[m], err[m]
            pkgwriter.write_sed_file(md, nm, wav_of[m], flux_m, err_m, apertures_au=ap)
            wav_of[m] = (wav_of[m], flux_m, err_m)
        rec.cls('pkg-v1')
    else:
        pkgwriter.write_cube(md, names, wav, flux, unc=err, apertures_au=ap)
        rec.cls('pkg-v2')
    nu = pkgwriter.C_M_S / (wav * 1e-6)
    # two filters: one inside the SED range (stored in decreasing nu), one overlapping partially (increasing nu)
    lo, hi = min(nu), max(nu)
    f1x = np.sort(rng.uniform(lo * 1.3, hi * 0.7, 6))[::-1]
    f1y = rng.uniform(0.2, 1.0, 6)
    f2x = np.sort(np.r_[hi * 0.6, rng.uniform(hi * 0.6, hi * 1.4, 4), hi * 1.4])
    f2y = rng.uniform(0.2, 1.0, 6)
    # a third one reaching beyond the low-frequency (long-wavelength) end of the spectra
    f3x = np.sort(np.r_[lo * 0.4, rng.uniform(lo * 0.4, lo * 1.8, 3), lo * 1.8])[::-1]
    f3y = rng.uniform(0.2, 1.0, 5)
    filters = [_mkfilter(f1x, f1y, 'FA', 3.0), _mkfilter(f2x, f2y, 'FB', 1.2), _mkfilter(f3x, f3y, 'F.C2', 20.0)]          # (a filter name may contain a dot)
    filters[0].normalize()
    kw = {} if fmt == 'v1' else {'memmap': case['memmap']}
    try:
        convolve_model_dir(md, filters, **kw)
    except Exception as e:
        from mc.runner import exc_signature
        rec.ev()
        rec.violation('convolve|' + exc_signature(e), {'pkg': True}, {'type': type(e).__name__, 'msg': str(e)[:300], 'fmt': fmt, 'sed_order': 'nu-decreasing' if sord == -1 else 'nu-increasing'})
        return
    nu_inc = np.sort(nu)
    order = np.argsort(nu)
    for f, (fx, fy) in zip(filters, ((f1x, np.asarray(filters[0].response)), (f2x, f2y), (f3x, f3y))):
        R, over, tot = convref.rebin_exact(fx, fy, nu_inc)
        Rf = np.array([float(x) for x in R])
        per_model = None
        if fmt == 'v1' and case.get('grids', 'same') != 'same':
            per_model = []
            for m in range(n_models):
                wm, fm, em = wav_of[m]
                num = pkgwriter.C_M_S / (np.asarray(wm) * 1e-6)
                om = np.argsort(num)
                Rm = np.array([float(x) for x in convref.rebin_exact(fx, fy, num[om])[0]])
                per_model.append((np.sum(fm[:, om] * Rm[None, :], axis=1), np.sqrt(np.sum((em[:, om] * Rm[None, :]) ** 2, axis=1))))
        path = os.path.join(md, 'convolved', f.name + '.fits')
        with fits.open(path) as h:
            t = h['CONVOLVED FLUXES'].data
            got_names = [str(x).strip() for x in t['MODEL_NAME']]
            gf = np.asarray(t['TOTAL_FLUX'], float).reshape(n_models, n_ap)
            ge = np.asarray(t['TOTAL_FLUX_ERR'], float).reshape(n_models, n_ap)
            filtwav = h[0].header.get('FILTWAV')
        rec.ev(n_models * n_ap)
        rec.trans()
        rec.trace()
        rec.state(('pkg', fmt, sord, n_ap, case['memmap'], case['rep'], case.get('grids'), f.name))
        rec.nontriv(('pkg', fmt, sord, n_ap, case['memmap'], case['rep'], case.get('grids'), f.name))
        sub = {'filter': f.name}
        if sorted(got_names) != sorted(names):
            rec.violation('convolve|names', sub, {'got': got_names})
            continue
        for m, nm in enumerate(names):
            row = got_names.index(nm)
            ef = np.sum(flux[m][:, order] * Rf[None, :], axis=1)
            ee = np.sqrt(np.sum((err[m][:, order] * Rf[None, :]) ** 2, axis=1))
            if per_model is not None:
                ef, ee = per_model[m]
            tol = 1e-6 if (fmt == 'v2' and False) else 1e-10
            rec.outcome(tuple(np.round(gf[row], 6)))
            if not np.allclose(gf[row], ef, rtol=tol, atol=tol * np.max(np.abs(ef))):
                rec.violation('convolve|flux|%s|sed-nu-%s' % (fmt, 'dec' if sord == -1 else 'inc'), dict(sub, model=nm), {'got': gf[row], 'exact_sum_F_R': ef, 'n_ap': n_ap})
                break
            rec.cls('pkg-errors')
            if not np.allclose(ge[row], ee, rtol=tol, atol=tol * np.max(np.abs(ee))):
                rec.violation('convolve|error|%s' % fmt, dict(sub, model=nm), {'got': ge[row], 'exact_sqrt_sum_E_R_sq': ee, 'would_be_if_fluxes_were_used': np.sqrt(np.sum((flux[m][:, order] * Rf[None, :]) ** 2, axis=1))})
                break
        if filtwav is None or abs(filtwav - f.central_wavelength.to(u.micron).value) > 1e-12:
            rec.violation('convolve|FILTWAV', sub, {'got': filtwav})
    if case['rep'] == 0 and n_ap == 3:
        rec.sample({'family': 'package', 'fmt': fmt, 'sed_stored_nu': 'decreasing' if sord == -1 else 'increasing', 'n_ap': n_ap, 'filters': ['FA (normalised, nu decreasing)', 'FB (partial overlap)']})
