"""Shared harness for the fitting properties (C01-C04, C08, C11): package
specs written by ref.pkgwriter, real Fitter construction, the complete oracle
for one FitInfo (numbers by ref.fitref, row alignment by name)."""
import math
import os

import numpy as np

from ref import extref, fitref, pkgwriter

BAND_WAV = {'B1': 1.0, 'B2': 2.2, 'B3': 4.5, 'B4': 8.0, 'B5': 24.0, 'B6': 0.8, 'N1': 0.6563, 'N2': 0.6583, 'K': 2.2, 'Ks': 2.15}          # K / Ks: two filters of which one name is the other plus a letter
ALL_BANDS = ['B1', 'B2', 'B3', 'B4', 'B5']
FLAGS = (0, 1, 2, 3, 4, 9)

# ---------------------------------------------------------------------------
# extinction laws (tables in micron, increasing)

LAWS = {
    'power': (np.logspace(-1, 2, 20), None),
    # V on a node; bands beyond 3 micron lie outside the table (k = 0)
    'three': (np.array([0.3, 0.55, 3.0]), np.array([8.0, 3.0, 0.4])),
    'nonmono': (np.array([0.2, 0.5, 0.9, 1.5, 3.0, 6.0, 12.0, 40.0]), np.array([5.0, 3.1, 3.6, 1.2, 1.9, 0.7, 1.1, 0.2])),
    # the table ends exactly on a band wavelength (24 micron = B5): an end node is still inside the tabulated range
    'edge': (np.array([0.25, 0.55, 1.0, 4.5, 24.0]), np.array([7.0, 3.0, 1.6, 0.5, 0.3])),
}


def law_table(name):
    wt, ct = LAWS[name.split('@')[0]]
    if ct is None:
        ct = (wt / 0.55) ** -1.5 * 220.0
    return wt, ct


def law_object(name):
    from astropy import units as u
    from sedfitter.extinction import Extinction
    wt, ct = law_table(name)
    if name.endswith('@file'):
        # the same law read from a three-column text file whose wavelength column is the LAST one (columns=(2, 0))
        import tempfile
        fd, path = tempfile.mkstemp(suffix='.txt', prefix='law_')
        os.close(fd)
        np.savetxt(path, np.column_stack([ct, ct * 0.5 + 1.0, wt]), header='chi junk wav')
        return Extinction.from_file(path, columns=(2, 0), wav_unit=u.micron, chi_unit=u.cm ** 2 / u.g)
    e = Extinction()
    if '@' in name:         # the same law tabulated in another length unit / opacity unit
        e.wav = (wt * u.micron).to(u.Unit(name.split('@')[1]))
        e.chi = (ct * u.cm ** 2 / u.g).to(u.m ** 2 / u.kg)
    else:
        e.wav = wt * u.micron
        e.chi = ct * u.cm ** 2 / u.g
    return e


def law_k(name, wav_micron):
    wt, ct = law_table(name)
    return np.array(extref.pattern(list(wt), list(ct), list(wav_micron)))


# ---------------------------------------------------------------------------
# model grids

def names_for(n):
    # deliberately not in alphabetical order in the package
    base = ['mdl_k', 'mdl_c', 'mdl_x', 'mdl_a', 'mdl_q', 'mdl_f', 'mdl_z', 'mdl_b', 'mdl_m', 'mdl_e']
    # larger grids: names in scrambled order, every seventh one filling the 30 characters of the MODEL_NAME column
    for i in range(10, n):
        tag = '%05d' % ((i * 7919 + 13) % 100003)
        base.append(('mdl_w_%s' % tag) if i % 7 else ('mdl_long_name_filling_30_%s' % tag))
    return base[:n]


def grid2d(seed, n_models=6, law='power', bands=ALL_BANDS, special=True):
    """(n_models, n_bands) strictly positive fluxes [mJy].  With special=True model 3 is an
    exact duplicate of model 1 and model 4 is a pure reddening+scaling of model 2."""
    rng = np.random.default_rng(seed)
    f = 10 ** rng.uniform(-1, 2, (n_models, len(bands)))
    if special and n_models >= 5:
        k = law_k(law, [BAND_WAV[b] for b in bands])
        f[3] = f[1]
        f[4] = f[2] * 3.3 * 10 ** (0.7 * k)
    return f


def grid3d(seed, n_models=5, n_ap=3, bands=ALL_BANDS, monotone=True, ap_lo=100.0, ap_hi=1e5, irregular=False):
    """apertures [AU] (n_ap,), tables (n_models, n_bands, n_ap) [mJy at 1 kpc]."""
    rng = np.random.default_rng(seed + 7919 * n_ap)
    if n_ap == 1:
        ap = np.array([ap_lo])
    elif irregular:
        ap = np.sort(ap_lo * (ap_hi / ap_lo) ** np.r_[0.0, np.sort(rng.uniform(0.05, 0.95, n_ap - 2)), 1.0])
        for i in range(1, n_ap):
            if ap[i] < ap[i - 1] * 1.05:
                ap[i] = ap[i - 1] * 1.05
    else:
        ap = np.logspace(math.log10(ap_lo), math.log10(ap_hi), n_ap)
    base = 10 ** rng.uniform(-0.5, 1.5, (n_models, len(bands), 1))
    if monotone:
        t = base * np.cumsum(rng.uniform(0.2, 1.0, (n_models, len(bands), n_ap)), axis=2)
    else:
        t = base * rng.uniform(0.3, 3.0, (n_models, len(bands), n_ap))
    return ap, t


# ---------------------------------------------------------------------------
# packages

def build_package(d, name, spec):
    """spec: dict(fmt 'v1'|'v2', names, bands, and either flux (n_models,n_bands) [2-D] or
    apertures + tables (n_models,n_bands,n_ap) [3-D], logd_step).  Returns model_dir."""
    md = os.path.join(d, name)
    os.makedirs(md)
    names = spec['names']
    bands = spec['bands']
    apdep = 'tables' in spec
    pkgwriter.write_conf(md, apdep, logd_step=spec.get('logd_step', 0.1), version=1 if spec['fmt'] == 'v1' else 2)
    pkgwriter.write_parameters(md, names, {'par1': np.arange(len(names)) * 1.5 + 0.25}, order=spec.get('par_order'))
    cunit = spec.get('conv_unit', 'mJy')                       # the convolved files may be stored in Jy (same physical fluxes)
    cfac = {'mJy': 1.0, 'Jy': 1e-3}[cunit]
    for ib, b in enumerate(bands):
        if apdep:
            fl = spec['tables'][:, ib, :]
            ap_b = spec['apertures']
            if spec.get('ap_per_band'):                        # band-specific tables: another largest tabulated aperture per band
                n_keep = spec['ap_per_band'][ib]
                fl, ap_b = fl[:, :n_keep], ap_b[:n_keep]
            if spec.get('ap_order') == 'dec':                  # tabulated largest aperture first
                fl, ap_b = fl[:, ::-1], ap_b[::-1]
            pkgwriter.write_convolved(md, b, names, fl * cfac, fl * 0.01 * cfac, apertures_au=ap_b, filtwav_micron=BAND_WAV[b], gz=spec.get('gz', False), unit=cunit)
        else:
            fl = spec['flux'][:, ib:ib + 1]
            pkgwriter.write_convolved(md, b, names, fl * cfac, fl * 0.01 * cfac, apertures_au=None, filtwav_micron=BAND_WAV[b],
                                      flat_single=spec.get('flat_single', True), gz=spec.get('gz', False), unit=cunit)
    if spec['fmt'] == 'v2':
        # the cube: one spectral point per band, stored in increasing frequency
        order = np.argsort([-BAND_WAV[b] for b in bands])
        wav = np.array([BAND_WAV[bands[i]] for i in order])
        kunit = spec.get('cube_unit', 'mJy')                       # the cube may be tabulated in Jy or MJy (megajansky): same physical fluxes
        kfac = {'mJy': 1.0, 'Jy': 1e-3, 'MJy': 1e-9}[kunit]
        if apdep:
            val = np.transpose(spec['tables'], (0, 2, 1))[:, :, order] * kfac       # (n_models, n_ap, n_wav)
            pkgwriter.write_cube(md, names, wav, val, unc=val * 0.01, apertures_au=spec['apertures'], valid=spec.get('valid'), unit=kunit)
        else:
            val = spec['flux'][:, None, :][:, :, order] * kfac
            pkgwriter.write_cube(md, names, wav, val, unc=val * 0.01, apertures_au=None, valid=spec.get('valid'), unit=kunit)
    return md


def make_fitter(md, bands, law, av_range, distance_range_kpc=(1.0, 2.0), theta=None, memmap=True,
                remove_resolved=False, by_wavelength=False, dunit='kpc', tunit='arcsec', as_tuple=False, av_form='list'):
    from astropy import units as u
    from sedfitter.fit import Fitter
    theta = np.ones(len(bands)) if theta is None else np.asarray(theta, float)
    if isinstance(by_wavelength, (list, tuple)):
        # a filter list may mix names and wavelengths
        filt = [(BAND_WAV[b] * u.micron) if w else b for b, w in zip(bands, by_wavelength)]
    elif by_wavelength:
        # a wavelength is a length in any unit: micron for the first band, then mm, nm, micron, Angstrom, m in turn
        wunits = [u.micron, u.mm, u.nm, u.micron, u.AA, u.m]
        filt = [(BAND_WAV[b] * u.micron).to(wunits[i % len(wunits)]) for i, b in enumerate(bands)]
    else:
        filt = list(bands)
    if as_tuple:
        filt = tuple(filt)
    avr = list(av_range)
    if av_form == 'int' and all(float(x) == int(x) for x in avr):
        avr = [int(x) for x in avr]
    elif av_form == 'tuple':
        avr = tuple(avr)
    elif av_form == 'array':
        avr = np.array(avr)
    elif av_form == 'intarray' and all(float(x) == int(x) for x in avr):
        avr = np.array([int(x) for x in avr])
    return Fitter(filt, (theta * u.arcsec).to(u.Unit(tunit)), md, extinction_law=law_object(law) if isinstance(law, str) else law,
                  av_range=avr, distance_range=(np.array(distance_range_kpc, float) * u.kpc).to(u.Unit(dunit)),
                  remove_resolved=remove_resolved, use_memmap=memmap)


def make_source(flags, flux, err, name='src', as_int=False):
    from sedfitter.source import Source
    s = Source()
    s.name = name
    s.x = 1.0
    s.y = 2.0
    s.valid = np.array(flags, dtype=int)
    if as_int:
        # whole-number photometry handed over as python ints (the setters accept lists): same numbers, integer dtype
        s.flux = [int(v) for v in flux]
        s.error = [int(v) for v in err]
    else:
        s.flux = np.array(flux, dtype=float)
        s.error = np.array(err, dtype=float)
    return s


def photometry(flags, base_flux, pset, conf_rot=0):
    """Turn a base SED (linear mJy per band) into (flux, error) columns for the given flags.
    pset selects factor / relative-error patterns; limits sit a factor 2 above/below the base
    so that both violated and satisfied limits occur."""
    n = len(flags)
    fac_pat = [[1, 1, 1, 1, 1], [0.8, 1, 3, 1, 0.8], [3, 0.8, 1, 3, 1], [1, 3, 0.8, 0.8, 3]][pset % 4]
    err_pat = [[.1, .1, .1, .1, .1], [.005, .1, .5, .1, .02], [.5, .02, .1, .5, .1], [.1, .5, .005, .02, .5]][pset % 4]          # (0.005: signal-to-noise 200)
    confs = [0.0, 0.3, 0.9, 1.0]
    fl = np.zeros(n)
    er = np.zeros(n)
    for j in range(n):
        f = base_flux[j] * fac_pat[j % 5]
        e = f * err_pat[j % 5]
        v = flags[j]
        if v == 4:
            # the log-space values a flag-1 point with (f, e) would transform to are NOT used here:
            # independent log values
            fl[j] = math.log10(f)
            er[j] = 0.05 * (j + 1)
        elif v in (2, 3):
            up = ((pset + j) % 2 == 0)
            fl[j] = base_flux[j] * (2.0 if up else 0.5)
            er[j] = confs[(pset + j + conf_rot) % 4]
        else:
            fl[j] = f
            er[j] = e
    return fl, er


# ---------------------------------------------------------------------------
# the oracle for one FitInfo

def _asf(x):
    return np.asarray(x, dtype=float)


def alignment(info, names_pkg):
    """C04 structure: every model once, ranked, ids consistent.  Returns (problem or None, row->package index)."""
    got = [str(x).strip() for x in np.asarray(info.model_name)]
    if sorted(got) != sorted(names_pkg):
        return 'model names are not a permutation of the package (%d rows for %d models)' % (len(got), len(names_pkg)), None
    for arr, nm in ((info.av, 'av'), (info.sc, 'sc'), (info.chi2, 'chi2'), (info.model_id, 'model_id')):
        if len(np.asarray(arr)) != len(got):
            return '%s has %d rows for %d names' % (nm, len(np.asarray(arr)), len(got)), None
    ch = _asf(info.chi2)
    fin = ch[~np.isnan(ch)]
    if np.any(np.diff(fin) < 0) or np.any(np.isnan(ch[:len(fin)])):
        return 'chi2 not non-decreasing (NaN last)', None
    idx = {n: i for i, n in enumerate(names_pkg)}
    rows = np.array([idx[g] for g in got])
    mid = np.asarray(info.model_id)
    if mid.shape != rows.shape or np.any(mid < 0) or np.any(mid >= len(names_pkg)) or any(names_pkg[int(m)] != g for m, g in zip(mid, got)):
        return 'model_id does not index the package order of model_name', rows
    return None, rows


def judge_2d(info, src, names_pkg, logm_pkg, k, avlo, avhi, f32=False, want_mf=True):
    """Returns (list of (kind, detail) problems, stats dict).  logm_pkg in package order."""
    flags, fl, er = src
    prob, rows = alignment(info, names_pkg)
    if prob and rows is None:
        return [('align', prob)], {}
    probs = [('align', prob)] if prob else []
    ref = fitref.fit2d(flags, fl, er, logm_pkg, k, avlo, avhi)
    w, lf, le = ref['w'], ref['lf'], ref['le']
    av = np.empty(len(names_pkg))
    sc = np.empty(len(names_pkg))
    ch = np.empty(len(names_pkg))
    av[rows] = _asf(info.av)
    sc[rows] = _asf(info.sc)
    ch[rows] = _asf(info.chi2)
    f_impl, pred = fitref.objective(w, lf, logm_pkg, k, av, sc)
    scale = np.sum(w[None, :] * ref['r'] ** 2, axis=1) + 1.0
    dlog = fitref.f32_dlog(logm_pkg) if f32 else np.full(logm_pkg.shape, 1e-13)
    T = fitref.chi2_tol(w[None, :], lf[None, :] - pred, dlog)
    cond = ref['cond']
    ptol = max(1e-9, 1e-14 * cond ** 2) * (1 + np.abs(ref['av']) + np.abs(ref['sc'])) + ref['sens'] * np.max(dlog, axis=1) * 4
    lo_b, hi_b = fitref.chi2_bounds(flags, w, lf, le, pred)
    for m in range(len(names_pkg)):
        sub = names_pkg[m]
        if not (avlo - 1e-12 <= av[m] <= avhi + 1e-12):
            probs.append(('av-range', '%s: A_V %r outside [%r, %r]' % (sub, av[m], avlo, avhi)))
        if not (f_impl[m] <= ref['obj'][m] * (1 + 1e-9) + 1e-9 * scale[m] + 2 * T[m]):
            probs.append(('not-optimal', '%s: objective %r at reported (A_V=%r, scale=%r) exceeds the constrained optimum %r at (A_V=%r, scale=%r)'
                          % (sub, f_impl[m], av[m], sc[m], ref['obj'][m], ref['av'][m], ref['sc'][m])))
        elif abs(av[m] - ref['av'][m]) > ptol[m] or abs(sc[m] - ref['sc'][m]) > ptol[m]:
            probs.append(('params', '%s: (A_V, scale)=(%r, %r) vs reference (%r, %r), tol %g, cond %g' % (sub, av[m], sc[m], ref['av'][m], ref['sc'][m], ptol[m], cond)))
        ctol = 1e-9 * scale[m] + T[m] + 1e-9 * hi_b[m]
        if not (lo_b[m] - ctol <= ch[m] <= hi_b[m] + ctol):
            probs.append(('chi2', '%s: chi2 %r, but sum w r^2 + penalties at the reported parameters is in [%r, %r]' % (sub, ch[m], lo_b[m], hi_b[m])))
    if want_mf:
        if info.model_fluxes is None:
            probs.append(('model_fluxes', 'missing'))
        else:
            mf = np.empty(logm_pkg.shape)
            got = _asf(info.model_fluxes)
            if got.shape != (len(rows), logm_pkg.shape[1]):
                probs.append(('model_fluxes', 'shape %r' % (got.shape,)))
            else:
                mf[rows] = got
                bad = np.abs(mf - pred) > 1e-9 + dlog
                if np.any(bad):
                    m = int(np.argwhere(bad)[0][0])
                    probs.append(('model_fluxes', '%s: stored %r, log10 F + A_V k - 2 scale = %r' % (names_pkg[m], mf[m], pred[m])))
    stats = {'ref': ref, 'av': av, 'sc': sc, 'chi2': ch, 'lo_b': lo_b, 'hi_b': hi_b, 'cond': cond}
    stats.update(limit_stats(flags, lf, le, pred))
    return probs, stats


def limit_stats(flags, lf, le, pred):
    out = {'lim_violated': 0, 'lim_satisfied': 0, 'lim_violated_c1': 0, 'lim_violated_c0': 0}
    for j, v in enumerate(flags):
        if v in (2, 3):
            dlt = pred[..., j] - lf[j]
            viol = (dlt < 0) if v == 2 else (dlt > 0)
            nv = int(np.sum(viol))
            out['lim_violated'] += nv
            out['lim_satisfied'] += int(viol.size - nv)
            if le[j] >= 1.0:
                out['lim_violated_c1'] += nv
            if le[j] <= 0.0:
                out['lim_violated_c0'] += nv
    return out


def judge_grid(fitter, dmin, dmax, step):
    """Distance grid of the real fitter against the reference; returns (problem or None, grid_kpc)."""
    from astropy import units as u
    d = _asf(fitter.models.distances.to(u.kpc).value)
    allowed = fitref.n_distances_allowed(dmin, dmax, step)
    if len(d) not in allowed:
        return 'count: grid has %d points, fewest with spacing <= %g is %s' % (len(d), step, sorted(allowed)), d
    g = fitref.distance_grid(dmin, dmax, len(d))
    if not np.allclose(d, g, rtol=1e-12, atol=0):
        return 'not-log-uniform: grid is not log-uniform from dmin to dmax: %r vs %r' % (d[:4], g[:4]), d
    if len(d) > 1 and not (abs(d[0] - dmin) <= 1e-12 * dmin and abs(d[-1] - dmax) <= 1e-12 * dmax):
        return 'ends: grid does not include both ends', d
    return None, g


def judge_3d(info, src, names_pkg, logm3_pkg, logd, k, avlo, avhi, f32=False, want_mf=True, resolved_removed=False):
    """logm3_pkg: (n_models, n_dist, n_bands) reference log fluxes on the reference grid."""
    flags, fl, er = src
    prob, rows = alignment(info, names_pkg)
    if prob and rows is None:
        return [('align', prob)], {}
    probs = [('align', prob)] if prob else []
    ref = fitref.fit3d(flags, fl, er, logm3_pkg, k, avlo, avhi)
    w, lf = ref['w'], ref['lf']
    nm = len(names_pkg)
    av = np.empty(nm)
    sc = np.empty(nm)
    ch = np.empty(nm)
    av[rows] = _asf(info.av)
    sc[rows] = _asf(info.sc)
    ch[rows] = _asf(info.chi2)
    mf = None
    if want_mf:
        if info.model_fluxes is None:
            probs.append(('model_fluxes', 'missing'))
        else:
            got = _asf(info.model_fluxes)
            if got.shape != (nm, logm3_pkg.shape[2]):
                probs.append(('model_fluxes', 'shape %r' % (got.shape,)))
            else:
                mf = np.empty(got.shape)
                mf[rows] = got
    jbest = np.empty(nm, dtype=int)
    for m in range(nm):
        sub = names_pkg[m]
        j = int(np.argmin(np.abs(logd - sc[m])))
        jbest[m] = j
        if resolved_removed and ch[m] == np.inf:
            continue          # model removed as resolved at every distance: only its place in the ranking is judged
        if abs(logd[j] - sc[m]) > 1e-12 * (1 + abs(sc[m])):
            probs.append(('scale-not-on-grid', '%s: scale %r is not log10 of a grid distance (nearest %r)' % (sub, sc[m], logd[j])))
            continue
        dlog = fitref.f32_dlog(logm3_pkg[m]) if f32 else np.full(logm3_pkg[m].shape, 1e-12)      # (n_dist, n_bands)
        T = fitref.chi2_tol(w[None, :], lf[None, :] - ref['pred'][m], dlog)                           # per distance
        lo, hi = ref['chi2_lo'][m], ref['chi2_hi'][m]
        base = np.sum(w[None, :] * ref['r'][m] ** 2, axis=1) + 1.0
        ctol = 1e-9 * base + T + 1e-9 * np.minimum(hi, 1e300)
        if not (avlo - 1e-12 <= av[m] <= avhi + 1e-12):
            probs.append(('av-range', '%s: A_V %r outside [%r, %r]' % (sub, av[m], avlo, avhi)))
        atol = 1e-9 * (1 + abs(ref['av'][m, j])) + ref['sens'] * np.max(dlog[j]) * 4
        if abs(av[m] - ref['av'][m, j]) > atol:
            probs.append(('av', '%s: A_V %r, clipped least-squares optimum at the reported distance is %r' % (sub, av[m], ref['av'][m, j])))
        if not (lo[j] - ctol[j] <= ch[m] <= hi[j] + ctol[j]):
            probs.append(('chi2-at-distance', '%s: chi2 %r, reference at the reported distance in [%r, %r]' % (sub, ch[m], lo[j], hi[j])))
        if resolved_removed:
            if ch[m] < np.min(lo - ctol):
                probs.append(('chi2-below-min', '%s: chi2 %r below the grid minimum %r' % (sub, ch[m], np.min(lo))))
        elif not (np.min(lo - ctol) <= ch[m] <= np.min(hi + ctol)):
            probs.append(('chi2-not-min', '%s: chi2 %r at grid index %d, minimum over the grid is in [%r, %r] (index %d)'
                          % (sub, ch[m], j, np.min(lo), np.min(hi), int(np.argmin(hi)))))
        if mf is not None:
            bad = np.abs(mf[m] - ref['pred'][m, j]) > 1e-9 + dlog[j] + np.abs(k) * atol
            if np.any(bad):
                probs.append(('model_fluxes', '%s: stored %r, reference %r' % (sub, mf[m], ref['pred'][m, j])))
    stats = {'ref': ref, 'av': av, 'sc': sc, 'chi2': ch, 'jbest': jbest}
    return probs, stats


def observed_f32(fitter):
    try:
        return np.asarray(fitter.models.fluxes.value).dtype == np.float32
    except Exception:
        return True          # cannot tell: use the single-precision tolerance (the looser one)


def flag_vectors(n, need_fitted=0, need_k=None):
    import itertools
    for fv in itertools.product(FLAGS, repeat=n):
        if sum(1 for v in fv if v in (1, 4)) >= need_fitted:
            yield fv
