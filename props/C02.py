"""C02 -- distance-dependent fits pick the grid optimum of correctly scaled model fluxes.

Engine E1, deviation-bounded over fitter configurations (number of tabulated
apertures, aperture spacing, flux-vs-aperture shape, distance-range class,
log-distance step, package format / load mode, A_V range, angular apertures),
full product over flag vectors x photometry sets inside each configuration.
"""
import json
import math

import numpy as np

from mc.enumerate import deviation_bounded
from props import _fitcommon as fc
from ref import fitref

ID = 'C02'
LEVEL = 'model_checking'
TECHNIQUE = 'deviation-bounded enumeration of fitter configurations x exhaustive flag vectors through the real Fitter, against a reference that recomputes grid, interpolation, d^-2 scaling and the argmin'
LEVEL_TEXT = ('All fitter configurations within 2 (quick) / 3 (thorough) deviations from a default over seven axes, each crossed with every 3-band flag '
              'vector with a fitted point and several photometry sets, are run through the real Fitter on package files written without the library. '
              'The reference recomputes the distance grid (end points, log-uniformity, fewest points for the step), two-point aperture interpolation '
              'with clamping above the table, inverse-square scaling, the clipped 1-parameter A_V at every distance, chi^2 with limit penalties and the '
              'minimum over the grid; reported scale must be a grid point, A_V and chi^2 must be the reference values at that point and chi^2 the grid minimum.')
LEVEL_NOTE = ('Finite value alphabets for fluxes/apertures/photometry (fixed + seed-derived); the point count is decided in exact (60-digit) arithmetic on the float inputs; a count produced by the '
              'obvious float formulas is also accepted when it differs only through rounding noise (< 1e-12) of the quotient; a smallest request within 4 ulp of the smallest tabulated aperture may be refused; float32 '
              'memory-mapped path judged with a propagated tolerance. Trusts astropy.io.fits and numpy.')
RULE = ("cases: fitter configurations with <= k deviations from the default; executions: one Fitter.fit per (flag vector, photometry set), one evaluation per "
        "(fit, model) row, each compared at every grid distance; non-trivial = distinct (configuration, flags, photometry) with >1 grid distance")
ASSUMPTIONS = ["finite value alphabets (DESIGN.md section 0)", "theta*dmin not below the smallest aperture (precondition)",
               "sources have >= 1 fitted point with non-zero extinction coefficient"]
REQUIRED_CLASSES = ['cube-in-megajansky', 'second-fitter-built-before-the-first-is-used', 'more-than-128-trial-distances', 'av-range-given-as-integers', 'grid-of-hundreds-of-models', 'n_distances==1', 'aperture-beyond-table', 'best-at-first', 'best-interior', 'best-at-last', 'av-clipped-some-distances',
                    'range-multiple-of-step', 'range-exact-multiple-exact-arithmetic', 'float32-path', 'limit-violated', 'non-monotone-growth', 'mixed-theta', 'request-on-smallest-aperture', 'distance-range-in-other-unit', 'apertures-in-other-angular-unit', 'aperture-tables-differ-between-bands', 'aperture-table-stored-decreasing', 'source-reflagged-between-fits']
TIMEOUT = {'quick': 300, 'thorough': 1800}

AXES = {
    'n_ap': [3, 2, 5, 8],
    'grid': ['mono', 'irregular', 'arbitrary'],
    'range': ['ord', 'eq', 'beyond', 'onsmallest', 'multiple', 'nonmultiple', 'exactmultiple', 'wide'],
    'step': [0.3, 0.1, 0.25, 0.02],          # 0.02 over the wide range: 136 trial distances (beyond 64 / 127)
    'variant': [0, 1, 2, 3],
    'avr': [(-40.0, 40.0), (0.0, 1.0), (2.5, 2.5)],
    'theta': ['uniform', 'mixed'],
    'dunit': ['kpc', 'pc', 'cm'],
    'tunit': ['arcsec', 'arcmin', 'rad'],
    'aptab': ['same', 'per-band', 'stored-decreasing'],
    'n_models': [5, 300],          # scale: row indices beyond 127 / 255, names filling the 30-character column; eight flag vectors only
}
VARIANTS = [('v1', False, False), ('v2', True, False), ('v2', False, False), ('v2', True, True)]
BANDS = ['B1', 'B3', 'B5']
BIG_FLAGS = [(1, 1, 1), (1, 4, 3), (4, 4, 4), (1, 0, 1), (9, 1, 1), (1, 2, 1), (3, 1, 2), (1, 1, 0)]


def setup(tier, seed):
    axes = dict(AXES)
    if tier == 'thorough':
        axes = dict(axes, step=[0.3, 0.1, 0.25, 0.02, 0.025])
    cfgs = list(deviation_bounded(axes, 2 if tier == 'quick' else 3))
    return {'tier': tier, 'seed': seed, 'cfgs': cfgs, 'psets': 3 if tier == 'quick' else 6}


def cases(ctx):
    return iter(ctx['cfgs'])


def evidence_extra(ctx):
    return {'bounds': 'deviation bound %d over axes %s; all 3-band flag vectors with a fitted k!=0 point; %d photometry sets' % (2 if ctx['tier'] == 'quick' else 3, {k: len(v) for k, v in AXES.items()}, ctx['psets']),
            'alphabet_digest': 'seed=%d' % ctx['seed']}


def _range(kind, step, ap, theta):
    tmax = max(theta)
    tmin = min(theta)
    if kind == 'ord':
        return 0.5, 4.0
    if kind == 'eq':
        return 1.5, 1.5
    if kind == 'beyond':
        return 20.0, 400.0
    if kind == 'onsmallest':
        return ap[0] / (1000.0 * tmin), 3.0
    if kind == 'multiple':
        return 1.0, 10 ** (3 * step)
    if kind == 'nonmultiple':
        return 1.0, 2.7
    if kind == 'wide':
        return 0.12, 60.0
    if kind == 'exactmultiple':
        return 1.0, 10.0            # log range exactly 1: an exact multiple of the steps 0.25 and 0.1 (float arithmetic exact for 0.25)
    raise ValueError(kind)


def run_case(ctx, case, rec, d):
    seed = ctx['seed']
    fmt, memmap, bywav = VARIANTS[case['variant']]
    theta = [1.0, 1.0, 1.0] if case['theta'] == 'uniform' else [1.0, 3.0, 1.0]
    if case['theta'] == 'mixed':
        rec.cls('mixed-theta')
    if case.get('dunit', 'kpc') != 'kpc':
        rec.cls('distance-range-in-other-unit')
    if case.get('tunit', 'arcsec') != 'arcsec':
        rec.cls('apertures-in-other-angular-unit')
    ap, tables = fc.grid3d(seed * 10 + 1, n_models=case.get('n_models', 5), n_ap=case['n_ap'], bands=BANDS, monotone=(case['grid'] != 'arbitrary'),
                           irregular=(case['grid'] == 'irregular'))
    if case['grid'] == 'arbitrary':
        rec.cls('non-monotone-growth')
    n_models = case.get('n_models', 5)
    names = fc.names_for(n_models)
    if n_models > 256:
        rec.cls('grid-of-hundreds-of-models')
    step = case['step']
    dmin, dmax = _range(case['range'], step, ap, theta)
    avlo, avhi = case['avr']
    spec = {'fmt': fmt, 'names': names, 'bands': BANDS, 'apertures': ap, 'tables': tables, 'logd_step': step}
    if bywav:
        spec['cube_unit'] = ['MJy', 'Jy', 'mJy'][case['n_ap'] % 3]          # fits at tabulated wavelengths read the cube: tabulated in MJy, Jy or mJy
        if spec['cube_unit'] == 'MJy':
            rec.cls('cube-in-megajansky')
    ap_tabs = [ap] * len(BANDS)
    tabs = [tables[:, b, :] for b in range(len(BANDS))]
    if case.get('aptab') == 'per-band' and case['n_ap'] >= 3 and not bywav:
        # band-specific aperture tables: the middle band is tabulated out to a smaller largest aperture
        keep = [case['n_ap'], case['n_ap'] - 1, case['n_ap']]
        spec['ap_per_band'] = keep
        ap_tabs = [ap[:k_] for k_ in keep]
        tabs = [tables[:, b, :keep[b]] for b in range(len(BANDS))]
        rec.cls('aperture-tables-differ-between-bands')
    if case.get('aptab') == 'stored-decreasing' and not bywav:
        spec['ap_order'] = 'dec'
        rec.cls('aperture-table-stored-decreasing')
    md = fc.build_package(d, 'pkg', spec)
    cfg_key = tuple(sorted((k, str(v)) for k, v in case.items()))
    # the form in which the A_V range is handed over is not an axis of its own: it rotates with the configuration
    case = dict(case, avform=['list', 'int', 'tuple', 'intarray'][sum(map(ord, json.dumps(case, sort_keys=True))) % 4])       # (json: the same for a replayed case)
    try:
        fitter = fc.make_fitter(md, BANDS, 'power', (avlo, avhi), distance_range_kpc=(dmin, dmax), theta=theta, memmap=memmap, by_wavelength=bywav, dunit=case.get('dunit', 'kpc'), tunit=case.get('tunit', 'arcsec'), as_tuple=(case.get('_deviations', 0) % 2 == 1), av_form=case.get('avform', 'list'))
    except Exception as e:
        # the request as the natural float expression gives it (arcsec x distance in pc): a refusal is acceptable only
        # if rounding really puts it below the smallest tabulated aperture
        from astropy import units as u
        theta_seen = (np.array(theta) * u.arcsec).to(u.Unit(case.get('tunit', 'arcsec'))).to(u.arcsec).value      # after the round trip through the given unit
        req = min(theta_seen) * ((dmin * u.kpc).to(u.Unit(case.get('dunit', 'kpc'))).to(u.pc).value)
        dk = (dmin * u.kpc).to(u.Unit(case.get('dunit', 'kpc'))).to(u.kpc).value
        req = min(req, min(theta_seen) * dk * 1000.0, (min(theta_seen) * dk) * 1000.0, min(theta_seen) * (dk * 1000.0))     # any natural way of forming arcsec x pc
        if case['range'] == 'onsmallest' and req < ap[0] and abs(req - ap[0]) <= 4 * np.spacing(ap[0]):          # (whatever the wording of the refusal)
            rec.notes['conformant-refusal-within-4ulp-of-smallest-aperture'] += 1
            rec.cls('request-on-smallest-aperture')
            rec.outcome('refused-on-smallest')
            rec.ev()
            return
        raise
    if case['range'] == 'onsmallest':
        rec.cls('request-on-smallest-aperture')
    if memmap:
        # a second fitter on the same package (resolved models removed) is built before the first one is used
        try:
            fc.make_fitter(md, BANDS, 'power', (avlo, avhi), distance_range_kpc=(dmin, dmax), theta=theta, memmap=True, by_wavelength=bywav, remove_resolved=True)
            rec.cls('second-fitter-built-before-the-first-is-used')
        except Exception:
            pass
    f32 = fc.observed_f32(fitter)
    if f32:
        rec.cls('float32-path')
    prob, grid = fc.judge_grid(fitter, dmin, dmax, step)
    rec.ev()
    rec.state(cfg_key)
    if prob:
        rec.violation('grid|%s' % prob.split(':')[0], {'config': True}, {'problem': prob, 'dmin': dmin, 'dmax': dmax, 'step': step})
        return
    if len(grid) == 1:
        rec.cls('n_distances==1')
    if len(grid) > 128:
        rec.cls('more-than-128-trial-distances')
    if case.get('avform', 'list').startswith('int') and avlo == int(avlo) and avhi == int(avhi):
        rec.cls('av-range-given-as-integers')
    if case['range'] in ('multiple', 'exactmultiple'):
        rec.cls('range-multiple-of-step')
    if case['range'] == 'exactmultiple' and step == 0.25:
        rec.cls('range-exact-multiple-exact-arithmetic')
    k = fc.law_k('power', [fc.BAND_WAV[b] for b in BANDS])
    logm3 = fitref.model_logflux_3d(tabs, ap_tabs, theta, grid)
    if np.any(np.array(theta)[None, :] * grid[:, None] * 1000.0 > min(a_[-1] for a_ in ap_tabs)):
        rec.cls('aperture-beyond-table')
    logd = np.log10(grid)
    first = True
    for fv in (BIG_FLAGS if n_models > 5 else fc.flag_vectors(3, need_fitted=1)):
        if not any(v in (1, 4) and k[j] != 0 for j, v in enumerate(fv)):
            continue
        for ps in range(ctx['psets']):
            planted = (ps + sum(fv)) % 5 if n_models == 5 else (ps * 97 + sum(fv) * 31) % n_models
            jd = [0, len(grid) // 2, len(grid) - 1][(ps + fv[0]) % 3]
            a0 = [1.2, 0.0, 6.0][ps % 3]
            base = 10 ** (logm3[planted, jd, :] + a0 * k)
            fl, er = fc.photometry(fv, base, ps if ps < 3 else ps + 4 * seed, conf_rot=sum(fv))
            src = fc.make_source(fv, fl, er)
            info = fitter.fit(src)
            rec.trans()
            probs, st = fc.judge_3d(info, (list(fv), fl, er), names, logm3, logd, k, avlo, avhi, f32=f32)
            rec.ev(len(names))
            rec.trace()
            rec.state((cfg_key, fv, ps))
            if len(grid) > 1:
                rec.nontriv((cfg_key, fv, ps))
            for kind, detail in probs:
                rec.violation('fit3d|%s' % kind, {'flags': list(fv), 'pset': ps}, {'problem': detail, 'flux': fl, 'error': er, 'grid': grid[:6], 'n_grid': len(grid)})
            if probs:
                continue
            rec.outcome(tuple(np.round(st['sc'], 6)) + tuple(np.round(st['chi2'][:2], 4)))
            jb = st['jbest']
            if len(grid) > 2:
                rec.cls('best-at-first', int(np.sum(jb == 0)))
                rec.cls('best-at-last', int(np.sum(jb == len(grid) - 1)))
                rec.cls('best-interior', int(np.sum((jb > 0) & (jb < len(grid) - 1))))
            ref = st['ref']
            clipped = (ref['av_unclamped'] < avlo) | (ref['av_unclamped'] > avhi)
            rec.cls('av-clipped-some-distances', int(np.sum(np.any(clipped, axis=1) & ~np.all(clipped, axis=1))))
            ls = fc.limit_stats(list(fv), ref['lf'], ref['le'], ref['pred'][np.arange(len(names)), jb, :])
            rec.cls('limit-violated', ls['lim_violated'])
            # the same Source object re-flagged between two fits (one band switched off): the second fit is judged like any other
            if ps == 0 and sum(1 for v in fv if v in (1, 4)) >= 2 and fv[0] == 1 and any(v in (1, 4) and k[j] != 0 for j, v in enumerate(fv) if j != 0):
                f2 = (0,) + tuple(fv[1:])
                src.valid = np.array(f2)
                info2 = fitter.fit(src)
                rec.trans()
                rec.cls('source-reflagged-between-fits')
                probs2, _ = fc.judge_3d(info2, (list(f2), fl, er), names, logm3, logd, k, avlo, avhi, f32=f32)
                for kind, detail in probs2:
                    rec.violation('fit3d|after-reflag|%s' % kind, {'flags': list(fv), 'reflagged': list(f2), 'pset': ps}, {'problem': detail})
            if first:
                rec.sample({'config': {k_: v for k_, v in case.items()}, 'apertures_au': ap, 'distance_range_kpc': [dmin, dmax], 'n_grid': len(grid),
                            'flags': list(fv), 'flux': fl, 'error': er, 'reported_scale': st['sc'], 'reported_av': st['av'], 'reported_chi2': st['chi2']})
                first = False
