"""C01 -- best-fit A_V and scale are the constrained least-squares optimum
(distance-independent packages).

Engine E1: one case = one real Fitter (grid x extinction law x A_V range x
package format x band subset) built on package files written by ref.pkgwriter;
inside the case *every* flag vector over {0,1,2,3,4,9}^n with >= 2 fitted
points is crossed with the photometry sets and fitted with the real
Fitter.fit; every row of every result is judged against ref.fitref.
"""
import itertools

import numpy as np

from props import _fitcommon as fc

ID = 'C01'
LEVEL = 'model_checking'
TECHNIQUE = 'bounded-exhaustive enumeration of flag vectors x A_V-range classes x laws x formats through the real Fitter, judged on objective values against an lstsq reference'
LEVEL_TEXT = ('Every flag vector in {0,1,2,3,4,9}^n (n<=3 quick, n<=5 thorough) with a non-singular regression, crossed with photometry sets, '
              'model grids (with an exact duplicate and a reddened+scaled copy), six A_V ranges placed so that every model is interior / clamped low / '
              'clamped high / pinned (lo==hi), three extinction laws (one with k=0 bands, one also tabulated in nm / m^2/kg) and four package/load variants, plus grids of 300 (thorough 700) models with eight flag vectors, is fitted by the '
              'real Fitter on real package files; for every model the reported (A_V, scale) must reach the constrained optimum of the stated '
              'objective (computed by QR/SVD least squares, not the normal equations), lie in range, and chi^2 must equal the objective plus '
              'limit penalties evaluated at the reported parameters.')
LEVEL_NOTE = ('For-all over real-valued photometry and model fluxes is instantiated on finite alphabets (fixed + VERIF_SEED-derived), exhaustive over '
              'every structural coordinate; regressions with condition number > 1e4 are outside the quantifier and skipped (counted); limits within '
              '1e-9 dex of the fitted model may count either way; float32 memory-mapped grids get a propagated first-order tolerance. Trusts '
              'numpy.linalg.lstsq and astropy.io.fits (package files are written without the library).')
RULE = ("cases: fitter configurations (grid, law, A_V range, format/memmap/filter form, band subset); executions: Fitter.fit on every flag vector "
        "with >=2 fitted points x photometry sets, one evaluation per (fit, model) row; non-trivial = distinct (configuration, flags, photometry) "
        "fits with condition number <= 1e4")
ASSUMPTIONS = ["finite value alphabets for real-valued inputs (see DESIGN.md section 0)",
               "condition number of the regression <= 1e4", "limits closer than 1e-9 dex to the fitted model are ambiguous"]
REQUIRED_CLASSES = ['filter-list-mixing-wavelengths-and-names', 'law-read-from-a-file-with-the-wavelength-column-last', 'two-fitted-bands-with-nearly-equal-k', 'grid-of-hundreds-of-models', 'integer-typed-photometry', 'convolved-files-in-Jy', 'band-on-last-node-of-law', 'gzipped-convolved-files', 'law-in-other-unit', 'two-limits-different-confidence', 'av-interior', 'av-clamped-lo', 'av-clamped-hi', 'av-pinned', 'no-limit', 'limit-satisfied', 'limit-violated',
                    'limit-violated-conf1', 'k0-band-fitted', 'duplicate-model-tied', 'float32-path', 'flag4-fitted', 'negative-range']
TIMEOUT = {'quick': 300, 'thorough': 1800}

RANGES = [(0.0, 40.0), (0.0, 0.0), (2.5, 2.5), (5.0, 7.0), (-3.0, -1.0), (0.0, 1.0)]
VARIANTS = [('v1', False, False), ('v2', True, False), ('v2', False, False), ('v2', True, True), ('v1gz', False, False), ('v1Jy', False, False), ('v2', True, 'mixed'), ('v2', False, 'mixed')]   # fmt (gz: gzipped convolved files), memmap, filters given as wavelengths ('mixed': wavelengths and names alternate, a wavelength first)
BIG_FLAGS = [(1, 1, 1, 1, 1), (1, 4, 1, 3, 2), (4, 4, 4, 4, 4), (1, 0, 9, 1, 1), (3, 1, 1, 1, 2), (1, 1, 0, 0, 4), (2, 2, 1, 1, 1), (1, 3, 1, 3, 1)]
BANDSETS = {2: ['B1', 'B3'], 3: ['B1', 'B3', 'B5'], 4: ['B1', 'B2', 'B4', 'B5'], 5: ['B1', 'B2', 'B3', 'B4', 'B5']}


def setup(tier, seed):
    cfgs = []
    grids = [0, 1] if tier == 'quick' else [0, 1, 2]
    ns = [2, 3, 4] if tier == 'quick' else [2, 3, 4, 5]
    for g, law, ir, iv, n in itertools.product(grids, ['power', 'three', 'nonmono', 'nonmono@nm', 'edge', 'nonmono@file'], range(len(RANGES)), range(len(VARIANTS)), ns):
        if tier == 'quick' and n == 2 and (iv != 0 or g != 0):
            continue
        if iv in (4, 5) and (g != 0 or n != 3 or law not in ('power', 'three')):
            continue
        if iv in (6, 7) and (g != 0 or n not in (3, 4) or law not in ('power', 'nonmono') or (iv == 7 and ir not in (0, 5))):
            continue
        if law == 'edge' and (iv not in (0, 2) or g != 0 or n == 2):
            continue
        if law == 'nonmono@nm' and (iv not in (0, 1) or g != 0):
            continue
        if law == 'nonmono@file' and (iv != 0 or g != 0 or n != 3 or ir not in (0, 3)):
            continue
        if tier == 'quick' and n == 4 and not (g == 0 and iv == 0 and law in ('power', 'three') and ir in (0, 5)):
            continue          # quick: 4-band vectors (two limits + two fitted points) on the structurally distinct configurations only
        if n == 5 and (iv not in (0, 1) or g != 0 or ir not in (0, 3, 5)):
            continue          # n=5: 7776 vectors, kept to the configurations that differ structurally
        if n == 4 and g == 2:
            continue
        cfgs.append({'grid': g, 'law': law, 'range': ir, 'variant': iv, 'n': n})
    # two narrow bands 2 nm apart (k differs by half a percent) and a far one: whenever only the close pair is fitted the regression is
    # nearly, but not, singular (condition number of a few hundred: well inside the quantifier)
    for iv in (0, 2):
        for ir in (0, 5):
            cfgs.append({'grid': 0, 'law': 'power', 'range': ir, 'variant': iv, 'n': 3, 'allbands': ['N1', 'N2', 'B5']})
    # scale: grids of a few hundred models (row indices beyond 127 and 255, names filling the 30-character column), five bands
    for iv in ((0, 1) if tier == 'quick' else (0, 1, 2, 3)):
        for ir in ((0, 5) if tier == 'quick' else (0, 3, 4, 5)):
            cfgs.append({'grid': 0, 'law': 'power', 'range': ir, 'variant': iv, 'n': 5, 'big': 300 if tier == 'quick' else 700})
    return {'tier': tier, 'seed': seed, 'cfgs': cfgs, 'psets': 4 if tier == 'quick' else 8}


def cases(ctx):
    return iter(ctx['cfgs'])


def evidence_extra(ctx):
    return {'bounds': 'n bands %s; all flag vectors with >=2 fitted points; %d photometry sets; 6 A_V ranges; 3 laws; 4 format/load variants; %d fitter configurations'
                      % ('2..3' if ctx['tier'] == 'quick' else '2..5', ctx['psets'], len(ctx['cfgs'])),
            'alphabet_digest': 'seed=%d grids=grid2d(seed*10+g)' % ctx['seed']}


def run_case(ctx, case, rec, d):
    seed = ctx['seed']
    n = case['n']
    bands = BANDSETS[n]
    law = case['law']
    fmt, memmap, bywav = VARIANTS[case['variant']]
    avlo, avhi = RANGES[case['range']]
    n_models = case.get('big', 6)
    allb = case.get('allbands', fc.ALL_BANDS)
    bands = case.get('allbands', bands)
    flux_all = fc.grid2d(seed * 10 + case['grid'], n_models=n_models, law=law, bands=allb, special=True)
    cols = [allb.index(b) for b in bands]
    if 'allbands' in case:
        rec.cls('two-fitted-bands-with-nearly-equal-k')
    names = fc.names_for(n_models)
    if n_models > 256:
        rec.cls('grid-of-hundreds-of-models')
    spec = {'fmt': fmt.replace('gz', '').replace('Jy', ''), 'conv_unit': 'Jy' if fmt.endswith('Jy') else 'mJy', 'names': names, 'bands': allb, 'flux': flux_all, 'flat_single': (case['grid'] % 2 == 0), 'gz': fmt.endswith('gz')}
    if fmt.endswith('gz'):
        rec.cls('gzipped-convolved-files')
    if fmt.endswith('Jy'):
        rec.cls('convolved-files-in-Jy')
    md = fc.build_package(d, 'pkg', spec)
    if bywav == 'mixed':
        bywav = [j % 2 == 0 for j in range(len(bands))]
        rec.cls('filter-list-mixing-wavelengths-and-names')
    fitter = fc.make_fitter(md, bands, law, (avlo, avhi), memmap=memmap, by_wavelength=bywav)
    f32 = fc.observed_f32(fitter)
    if f32:
        rec.cls('float32-path')
    k = fc.law_k(law, [fc.BAND_WAV[b] for b in bands])
    logm = np.log10(flux_all[:, cols])
    if avlo < 0:
        rec.cls('negative-range')
    if law.endswith('@file'):
        rec.cls('law-read-from-a-file-with-the-wavelength-column-last')
    elif '@' in law:
        rec.cls('law-in-other-unit')
    if law == 'edge' and 'B5' in bands:
        rec.cls('band-on-last-node-of-law')
    cfg_key = (case['grid'], law, case['range'], case['variant'], n, n_models, tuple(bands))
    first = True
    fvs = BIG_FLAGS if 'big' in case else fc.flag_vectors(n, need_fitted=2)
    for fv in fvs:
        fitted = [j for j, v in enumerate(fv) if v in (1, 4)]
        for ps in range(ctx['psets']):
            planted = (ps + sum(fv)) % 6 if n_models == 6 else (ps * 97 + sum(fv) * 31) % n_models
            a0 = [1.2, 0.0, 6.0, -2.0][ps % 4]
            base = flux_all[planted, cols] * 10 ** (a0 * k) * [7.0, 0.01, 300.0, 1.0][(ps // 2) % 4]
            rng_ps = ps if ps < 4 else ps + seed * 4         # the upper half of the photometry sets moves with the seed
            fl, er = fc.photometry(fv, base, rng_ps, conf_rot=sum(fv))
            if ps >= 4:
                jit = np.random.default_rng(seed * 977 + ps * 31 + sum(fv)).uniform(0.85, 1.15, n)
                for j in fitted:
                    if fv[j] == 1:
                        fl[j] *= jit[j]
            as_int = False
            if ps == 1 and 4 not in fv:
                # whole-number photometry (mJy x 1000, say), handed over as python ints; limits then carry confidence 0 or 1
                fl = np.maximum(np.round(fl * 1000.0), 1.0)
                er = np.array([float(int(round(e))) if v in (2, 3) else max(round(e * 1000.0), 1.0) for v, e in zip(fv, er)])
                if all(abs(x) < 2 ** 53 for x in fl):
                    as_int = True
                    rec.cls('integer-typed-photometry')
            src = fc.make_source(fv, fl, er, as_int=as_int)
            info = fitter.fit(src)
            rec.trans()
            probs, st = fc.judge_2d(info, (list(fv), fl, er), names, logm, k, avlo, avhi, f32=f32)
            if st and not (st['cond'] <= 1e4):
                rec.notes['skipped-singular-or-ill-conditioned'] += 1
                continue
            rec.ev(len(names))
            rec.trace()
            rec.state((cfg_key, fv, ps))
            rec.nontriv((cfg_key, fv, ps))
            for kind, detail in probs:
                rec.violation('fit2d|%s' % kind, {'flags': list(fv), 'pset': ps}, {'problem': detail, 'flux': fl, 'error': er, 'av_range': [avlo, avhi],
                                                                                       'variant': [fmt, memmap, bywav], 'law': law})
            if probs:
                continue
            ref = st['ref']
            rec.outcome(tuple(np.round(st['av'], 6)) + tuple(np.round(st['chi2'][:2], 4)))
            if avlo == avhi:
                rec.cls('av-pinned', len(names))
            else:
                nlo = int(np.sum(ref['clamped_lo']))
                nhi = int(np.sum(ref['clamped_hi']))
                rec.cls('av-clamped-lo', nlo)
                rec.cls('av-clamped-hi', nhi)
                rec.cls('av-interior', len(names) - nlo - nhi)
            if not any(v in (2, 3) for v in fv):
                rec.cls('no-limit')
            rec.cls('limit-satisfied', st['lim_satisfied'])
            rec.cls('limit-violated', st['lim_violated'])
            rec.cls('limit-violated-conf1', st['lim_violated_c1'])
            if any(k[j] == 0 for j in fitted):
                rec.cls('k0-band-fitted')
            if 4 in fv:
                rec.cls('flag4-fitted')
            lims = [j for j, v in enumerate(fv) if v in (2, 3)]
            if len(lims) >= 2 and 2 in fv and 3 in fv and len(set(er[j] for j in lims)) > 1:
                rec.cls('two-limits-different-confidence')
            if abs(st['chi2'][1] - st['chi2'][3]) <= 1e-9 * (1 + abs(st['chi2'][1])):          # tied up to rounding
                rec.cls('duplicate-model-tied')
            if first:
                rec.sample({'config': case, 'bands': bands, 'flags': list(fv), 'flux': fl, 'error': er,
                            'reported': {'names': [str(x) for x in info.model_name], 'av': fc._asf(info.av), 'sc': fc._asf(info.sc), 'chi2': fc._asf(info.chi2)},
                            'reference_av': ref['av'], 'reference_sc': ref['sc']})
                first = False
