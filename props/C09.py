"""C09 -- parameter listings follow the fit ranking, for any parameter-file order.

E1: EVERY permutation of the parameter file's rows for a 4-model (quick) /
5-model (thorough) package; inside each, selectors that keep 0 / 1 / some / all
fits x input form (file, one FitInfo, list) x additional-parameter dictionaries,
through filter_table, write_parameters, write_parameter_ranges,
extract_parameters (and, few cases, plot_params_1d / 2d with filter_table
wrapped to capture the table they are handed).
"""
import itertools
import os

import numpy as np

from props import _postcommon as pc

ID = 'C09'
LEVEL = 'model_checking'
TECHNIQUE = 'exhaustive enumeration of parameter-table permutations x selectors x input forms through the real post-processing functions; printed values looked up by model name in the table the harness wrote'
LEVEL_TEXT = ('All 24 (quick) / 120 (thorough) row permutations of the parameter file of a package, 1/2/4 numeric parameter columns (one holding a NaN), 13 selectors keeping 0, 1, some '
              'or all fits, three input forms and 0/1/2 additional-parameter dictionaries: every value printed by write_parameters, write_parameter_ranges and '
              'extract_parameters, and every row of the table filter_table returns (also as handed to plot_params_1d/2d), must be the value of the model named at that rank; '
              'n_data and n_fits must be the fitted-point count and the reference selection count; ranges must be (nan-aware min, rank-1 value, max).')
LEVEL_NOTE = ('Text compared to printed precision (%10.3f -> 5e-4 absolute, %10.3e -> 5e-4 relative). Parameter values are unique per (model, column) so a relabelling is visible. '
              'plot_params_1d/2d are exercised on a few cases only (each call renders a figure). Thresholds are placed between attained statistics.')
RULE = ("cases: (permutation, format, column variant); executions: one call per (function, selector, input form, additional), one evaluation per printed row; non-trivial = distinct "
        "(case, function, selector, form) with a non-identity permutation and at least one fit kept")
ASSUMPTIONS = ["package self-consistent: convolved files and parameter table share the row order", "model names unique"]
REQUIRED_CLASSES = ['file-with-a-stored-zero-fit-record', 'parameter-values-beyond-single-precision', 'some-sources-keep-fits-others-none', 'one-object-listed-twice', 'keeps-none', 'keeps-one', 'keeps-some', 'keeps-all', 'form-file', 'form-object', 'form-list', 'additional-1', 'additional-2', 'nan-column', 'four-columns',
                    'write_parameters', 'write_parameter_ranges', 'extract_parameters', 'filter_table', 'plot-params-table', 'permuted', 'parameters-gz', 'parameter-file-rewritten', 'model-name-column-not-first', 'extract-explicit-parameter-list', 'flag-changed-in-place-between-listings', 'second-package-same-names']
TIMEOUT = {'quick': 600, 'thorough': 3000}


def setup(tier, seed):
    n = 4 if tier == 'quick' else 5
    out = []
    for i, p in enumerate(itertools.permutations(range(n))):
        out.append({'n': n, 'perm': list(p), 'fmt': 'v1' if i % 2 == 0 else 'v2', 'n_cols': [2, 1, 4][i % 3], 'nan': (i % 4 == 1), 'plots': (i in (5, 17) if tier == 'quick' else i % 20 == 5), 'par_gz': (i % 5 == 2), 'text_col': (i % 7 == 3), 'name_pos': [0, 1, 9][i % 3], 'extreme': (i % 6 == 4)})
    return {'tier': tier, 'seed': seed, 'cases': out}


def cases(ctx):
    return iter(ctx['cases'])


def evidence_extra(ctx):
    return {'bounds': 'all %d permutations of a %d-row parameter file; 13 selectors; 3 input forms; additional dictionaries {0,1,2}; 4 functions (+ plot_params on a few cases)'
                      % (24 if ctx['tier'] == 'quick' else 120, 4 if ctx['tier'] == 'quick' else 5), 'alphabet_digest': 'seed=%d' % ctx['seed']}


def _selectors(chi, nd):
    c = sorted(float(x) for x in chi)
    mid = lambda a, b: 0.5 * (a + b)
    sel = [('A', 0), ('N', 0), ('N', 1), ('N', 2), ('N', 9)]
    sel += [('C', c[0] * 0.5), ('C', mid(c[1], c[2]))]
    sel += [('D', mid(c[1] - c[0], c[2] - c[0])), ('D', (c[-1] - c[0]) * 2 + 1)]
    sel += [('E', mid(c[0], c[1]) / nd), ('E', c[0] * 0.5 / nd)]
    sel += [('F', mid(c[1] - c[0], c[2] - c[0]) / nd), ('F', mid(c[-2] - c[0], c[-1] - c[0]) / nd)]
    return sel


def run_case(ctx, case, rec, d):
    from astropy.table import Table
    import sedfitter
    from sedfitter.fit_info import FitInfo
    seed = ctx['seed']
    n, perm = case['n'], case['perm']
    md, pk = pc.build(d, 'pkg', case['fmt'], n, perm=perm, n_cols=case['n_cols'], nan_col=case['nan'], seed=seed, par_gz=case.get('par_gz', False), name_pos=case.get('name_pos', 0), extreme=case.get('extreme', False))
    if case.get('extreme'):
        rec.cls('parameter-values-beyond-single-precision')
    if case.get('name_pos'):
        rec.cls('model-name-column-not-first')
    if case.get('par_gz'):
        rec.cls('parameters-gz')
    fitter = pc.fitter_for(md)
    srcs = pc.sources(pk, seed, n_sources=3)
    base_infos = pc.fit_all(fitter, srcs)
    path = pc.write_file(os.path.join(d, 'fits.out'), pc.fit_all(fitter, srcs))
    pardict, colnames, names = pk['pardict'], pk['colnames'], pk['names']
    if perm != sorted(perm):
        rec.cls('permuted')
    if case['nan']:
        rec.cls('nan-column')
    if case['n_cols'] == 4:
        rec.cls('four-columns')
    # two additional parameters are inserted in non-alphabetical order (columns follow the dictionary's order)
    # (the first value of ADD1 is a python int, the others are not whole numbers)
    adds = [{}, {'ADD1': {nm: (100 if i == 0 else 100.625 + 3 * i) for i, nm in enumerate(names)}},
            {'ZETA': {nm: 100.0 + 3 * i for i, nm in enumerate(names)}, 'ALPHA': {nm: 0.001 * ((i + 1) % len(names)) for i, nm in enumerate(names)}}]          # (the last model's ALPHA is exactly zero: a value like any other)
    cfg = (tuple(perm), case['fmt'], case['n_cols'], case['nan'])
    rec.state(cfg)
    sels = _selectors(np.asarray(base_infos[0].chi2, float), int(base_infos[0].source.n_data))
    # thresholds between the best chi^2 of different sources: some sources then keep fits and others, before or after them, none
    bests = sorted(float(np.min(np.asarray(i_.chi2, float))) for i_ in base_infos)
    for a_, b_ in zip(bests, bests[1:]):
        if b_ > a_ * (1 + 1e-6) + 1e-9:
            sels.append(('C', 0.5 * (a_ + b_)))
            rec.cls('some-sources-keep-fits-others-none')
    call = [0]

    def fresh(form):
        """the three interchangeable ways of passing results on"""
        if form == 'file':
            return path, base_infos
        infos = pc.fit_all(fitter, srcs)
        if form == 'object':
            return infos[0], base_infos[:1]
        return infos, base_infos

    def expected(infos, sel):
        out = []
        for i in infos:
            chi = np.asarray(i.chi2, float)
            nd = int(sum(1 for v in np.asarray(i.source.valid) if v in (1, 4)))
            # thresholds come from source 0; skip a source whose statistic lands within 1e-9 of the threshold
            if sel[0] in 'CDEF':
                stat = {'C': chi, 'D': chi - chi[0], 'E': chi / nd, 'F': (chi - chi[0]) / nd}[sel[0]]
                if np.any(np.abs(stat - sel[1]) < 1e-9 * (1 + abs(sel[1]))):
                    out.append(None)
                    continue
            out.append(pc.expected_rows(i, sel))
        return out

    def kclass(k, total):
        rec.cls('keeps-none' if k == 0 else 'keeps-one' if k == 1 else 'keeps-all' if k == total else 'keeps-some')

    for sel in sels:
        for form in ('file', 'object', 'list'):
            rec.cls('form-' + form)
            for ai, additional in enumerate(adds):
                if ai and (form != ['file', 'object', 'list'][ai] and sel[0] not in 'AN'):
                    continue          # additional dictionaries: every selector with one form each, all forms with A/N
                if ai:
                    rec.cls('additional-%d' % ai)
                add_cols = list(additional.keys())
                sub = {'sel': list(sel), 'form': form, 'additional': add_cols}
                # ---------------- write_parameters
                call[0] += 1
                arg, refs = fresh(form)
                exp = expected(refs, sel)
                out = os.path.join(d, 'wp_%d.txt' % call[0])
                ok = _guard(rec, 'write_parameters', sub, lambda: sedfitter.write_parameters(arg, out, select_format=sel, additional=additional))
                rec.trans()
                if ok:
                    rec.cls('write_parameters')
                    header, parsed = pc.parse_write_parameters(out)
                    want_header = ['fit_id', 'model_name', 'chi2', 'av', 'scale'] + [c.lower() for c in colnames] + [c.lower() for c in add_cols]
                    bad = None
                    if header != want_header:
                        bad = 'header %r, expected %r' % (header, want_header)
                    elif len(parsed) != len(exp):
                        bad = '%d source blocks, expected %d' % (len(parsed), len(exp))
                    else:
                        for blk, e, ref in zip(parsed, exp, refs):
                            if e is None:
                                continue
                            nd, rows = e
                            kclass(len(rows), n)
                            rec.ev(max(len(rows), 1))
                            if blk['source'] != ref.source.name or blk['n_data'] != nd or blk['n_fits'] != len(rows):
                                bad = 'source line %r: expected name %s n_data %d n_fits %d' % ((blk['source'], blk['n_data'], blk['n_fits']), ref.source.name, nd, len(rows))
                                break
                            for r, (nm, chi, av, sc) in zip(blk['rows'], rows):
                                want = list(pardict[nm]) + [additional[a][nm] for a in add_cols]
                                if r['model'] != nm or not (pc.close_f(r['chi2'], chi) and pc.close_f(r['av'], av) and pc.close_f(r['sc'], sc)):
                                    bad = 'rank %d: printed %s chi2=%r av=%r sc=%r, fit says %s %r %r %r' % (r['fit_id'], r['model'], r['chi2'], r['av'], r['sc'], nm, chi, av, sc)
                                    break
                                if len(r['pars']) != len(want) or not all(pc.close_e(a, b) for a, b in zip(r['pars'], want)):
                                    whose = [m for m in names if all(pc.close_e(a, b) for a, b in zip(r['pars'][:len(colnames)], pardict[m]))]
                                    bad = 'rank %d (%s): printed parameters %r, that model has %r (printed ones belong to %s)' % (r['fit_id'], nm, r['pars'], want, whose or 'no model')
                                    break
                            if bad:
                                break
                    rec.outcome(('wp', tuple(b['n_fits'] for b in parsed)))
                    if bad:
                        rec.violation('write_parameters|%s' % ('params' if 'printed parameters' in bad else 'rows'), sub, {'problem': bad})
                    elif perm != sorted(perm) and any(e and e[1] for e in exp):
                        rec.nontriv((cfg, 'wp', sel, form, ai))
                # ---------------- write_parameter_ranges
                arg, refs = fresh(form)
                out = os.path.join(d, 'wr_%d.txt' % call[0])
                ok = _guard(rec, 'write_parameter_ranges', sub, lambda: sedfitter.write_parameter_ranges(arg, out, select_format=sel, additional=additional))
                rec.trans()
                if ok:
                    rec.cls('write_parameter_ranges')
                    parsed = pc.parse_ranges(out)
                    bad = None
                    want_head = ['chi2', 'av', 'scale'] + [c.lower() for c in colnames] + [c.lower() for c in add_cols]
                    if pc.ranges_header(out) != want_head:
                        bad = 'header %r, expected %r' % (pc.ranges_header(out), want_head)
                    elif len(parsed) != len(exp):
                        bad = '%d lines, expected %d' % (len(parsed), len(exp))
                    else:
                        for ln, e, ref in zip(parsed, exp, refs):
                            if e is None:
                                continue
                            nd, rows = e
                            rec.ev()
                            if ln['source'] != ref.source.name or ln['n_data'] != nd or ln['n_fits'] != len(rows):
                                bad = 'line %r: expected n_data %d n_fits %d' % ((ln['source'], ln['n_data'], ln['n_fits']), nd, len(rows))
                                break
                            ncol = 3 + len(colnames) + len(add_cols)
                            if len(ln['triples']) != ncol:
                                bad = '%d triples, expected %d' % (len(ln['triples']), ncol)
                                break
                            if not rows:
                                if any(x is not None for t in ln['triples'] for x in t):
                                    bad = 'no fit kept but values printed'
                                continue
                            series = [[r[1] for r in rows], [r[2] for r in rows], [r[3] for r in rows]]
                            series += [[pardict[r[0]][c] for r in rows] for c in range(len(colnames))]
                            series += [[additional[a][r[0]] for r in rows] for a in add_cols]
                            for ti, (t, s) in enumerate(zip(ln['triples'], series)):
                                a = np.array(s, float)
                                if np.all(np.isnan(a)):
                                    continue
                                want = (float(np.nanmin(a)), float(a[0]), float(np.nanmax(a)))
                                if not all(pc.close_e(x, y) for x, y in zip(t, want)):
                                    bad = 'column %d of %s: printed (min, best, max) = %r, expected %r' % (ti, ln['source'], t, want)
                                    break
                            if bad:
                                break
                    rec.outcome(('wr', tuple(l['n_fits'] for l in parsed)))
                    if bad:
                        rec.violation('write_parameter_ranges|%s' % ('values' if 'printed (min' in bad else 'rows'), sub, {'problem': bad})
                    elif perm != sorted(perm):
                        rec.nontriv((cfg, 'wr', sel, form, ai))
                if ai:
                    continue
                # ---------------- extract_parameters (no additional argument)
                arg, refs = fresh(form)
                prefix = os.path.join(d, 'ex_%d_' % call[0])
                ok = _guard(rec, 'extract_parameters', sub, lambda: sedfitter.extract_parameters(input=arg, output_prefix=prefix, output_suffix='.txt', select_format=sel))
                rec.trans()
                if ok:
                    rec.cls('extract_parameters')
                    bad = None
                    for e, ref in zip(exp, refs):
                        if e is None:
                            continue
                        nd, rows = e
                        rec.ev()
                        fn = prefix + ref.source.name + '.txt'
                        if not os.path.exists(fn):
                            bad = 'no file for source %s' % ref.source.name
                            break
                        cols, got = pc.parse_extract(fn)
                        fcols = pk['file_columns']             # 'all' = the columns in the order of the parameter file
                        ipos = fcols.index('MODEL_NAME')
                        if cols != ['CHI2', 'AV', 'SC'] + fcols:
                            bad = 'header %r' % cols
                            break
                        got = [g[:3] + [g[3 + ipos]] + [x for q, x in enumerate(g[3:]) if q != ipos] for g in got]       # name first, as the comparison below expects
                        if len(got) != len(rows):
                            bad = '%s: %d rows, expected %d' % (ref.source.name, len(got), len(rows))
                            break
                        for g, (nm, chi, av, sc) in zip(got, rows):
                            want = pardict[nm]
                            if g[3] != nm or not (pc.close_e(float(g[0]), chi) and pc.close_e(float(g[1]), av) and pc.close_e(float(g[2]), sc)):
                                bad = '%s: row %r, fit says %s %r %r %r' % (ref.source.name, g[:4], nm, chi, av, sc)
                                break
                            if not all(pc.close_e(float(a), b) for a, b in zip(g[4:], want)):
                                bad = '%s: %s printed with parameters %r, that model has %r' % (ref.source.name, nm, g[4:], want)
                                break
                        if bad:
                            break
                    if bad:
                        rec.violation('extract_parameters|%s' % ('params' if 'printed with parameters' in bad else 'rows'), sub, {'problem': bad})
                    elif perm != sorted(perm):
                        rec.nontriv((cfg, 'ex', sel, form))
                # ---------------- extract_parameters with an explicit list of parameters (reversed file order, MODEL_NAME last)
                if form == 'file' and len(colnames) >= 2:
                    plist = list(reversed(colnames)) + ['MODEL_NAME']
                    arg, refs = fresh(form)
                    prefix = os.path.join(d, 'exl_%d_' % call[0])
                    ok = _guard(rec, 'extract_parameters', dict(sub, parameters=plist), lambda: sedfitter.extract_parameters(input=arg, output_prefix=prefix, output_suffix='.txt', select_format=sel, parameters=plist))
                    rec.trans()
                    if ok:
                        rec.cls('extract-explicit-parameter-list')
                        for e, ref in zip(exp, refs):
                            if e is None:
                                continue
                            cols, got = pc.parse_extract(prefix + ref.source.name + '.txt')
                            rec.ev()
                            if cols != ['CHI2', 'AV', 'SC'] + plist:
                                rec.violation('extract_parameters|header', dict(sub, parameters=plist), {'header': cols})
                                break
                            badrow = None
                            for g, (nm, chi, av, sc) in zip(got, e[1]):
                                want = [pardict[nm][colnames.index(c)] for c in plist[:-1]]
                                if g[-1] != nm or not all(pc.close_e(float(a), b) for a, b in zip(g[3:-1], want)):
                                    badrow = 'row for %s: %r under header %r, expected %r' % (nm, g[3:], plist, want)
                                    break
                            if badrow or len(got) != len(e[1]):
                                rec.violation('extract_parameters|explicit-list', dict(sub, parameters=plist), {'problem': badrow or 'row count'})
                                break
                # ---------------- filter_table directly, on the name-sorted table the writers use
                if form == 'object':
                    ppath = os.path.join(md, 'parameters.fits')
                    t = Table.read(ppath if os.path.exists(ppath) else ppath + '.gz', format='fits', character_as_bytes=False)
                    t['MODEL_NAME'] = np.char.strip(t['MODEL_NAME'])
                    t.sort('MODEL_NAME')
                    info = pc.fit_all(fitter, srcs)[0]
                    info.keep(sel)
                    e = exp[0]
                    if e is not None:
                        ok = _guard(rec, 'filter_table', sub, lambda: info.filter_table(t, additional=adds[1]))
                        if ok is not False:
                            tab = _guard.result
                            rec.cls('filter_table')
                            rec.ev()
                            got = [(str(r['MODEL_NAME']).strip(), [float(r[c]) for c in colnames], float(r['ADD1'])) for r in tab]
                            want = [(nm, list(pardict[nm]), adds[1]['ADD1'][nm]) for nm, _, _, _ in e[1]]
                            same = len(got) == len(want) and all(g[0] == w[0] and all(pc.close_e(a, b) or (a != a and b != b) for a, b in zip(g[1], w[1])) and g[2] == w[2] for g, w in zip(got, want))
                            if not same:
                                rec.violation('filter_table|rows', sub, {'got': got, 'expected': want})
    rec.trace()
    # ---- ONE result object handed to two listings in a row, the first with the narrower selector: the second still lists every fit
    for fname, fn in (('write_parameters', sedfitter.write_parameters), ('write_parameter_ranges', sedfitter.write_parameter_ranges)):
        one = pc.fit_all(fitter, srcs)[0]
        o1, o2 = os.path.join(d, 'same_%s_1.txt' % fname), os.path.join(d, 'same_%s_2.txt' % fname)
        if _guard(rec, fname, {'same_object': 'first call'}, lambda: fn(one, o1, select_format=('N', 1))) and \
                _guard(rec, fname, {'same_object': 'second call'}, lambda: fn(one, o2, select_format=('A', 0))):
            rec.trans(2)
            rec.ev()
            rec.cls('one-object-listed-twice')
            got_n = (pc.parse_write_parameters(o2)[1][0]['n_fits'] if fname == 'write_parameters' else pc.parse_ranges(o2)[0]['n_fits'])
            if got_n != n:
                rec.violation('%s|rows' % fname, {'same_object': True, 'calls': [['N', 1], ['A', 0]]},
                              {'problem': 'the same result object listed with (N,1) and then with (A): the second listing has n_fits = %d, the result holds %d fits' % (got_n, n)})
    # ---- a file in which the middle record was STORED with no fit at all (an output selector nothing passed): every listing
    # still has a line for that source, with n_fits = 0
    infos_z = pc.fit_all(fitter, srcs)
    infos_z[1].keep(('N', 0))
    path_z = pc.write_file(os.path.join(d, 'fits_zero.out'), infos_z)
    for fname, fn in (('write_parameters', sedfitter.write_parameters), ('write_parameter_ranges', sedfitter.write_parameter_ranges)):
        oz = os.path.join(d, 'zero_%s.txt' % fname)
        if _guard(rec, fname, {'stored_zero_fit_record': True}, lambda: fn(path_z, oz, select_format=('A', 0))):
            rec.trans()
            rec.ev()
            rec.cls('file-with-a-stored-zero-fit-record')
            got_z = [(b['source'], b['n_fits']) for b in (pc.parse_write_parameters(oz)[1] if fname == 'write_parameters' else pc.parse_ranges(oz))]
            want_z = [(srcs[0][0], n), (srcs[1][0], 0), (srcs[2][0], n)]
            if got_z != want_z:
                rec.violation('%s|rows' % fname, {'stored_zero_fit_record': True}, {'problem': 'sources and n_fits listed: %r, the file holds %r' % (got_z, want_z)})
    # ---- n_data is the source's count of fitted points NOW: a flag changed in place between two listings is honoured
    infos_live = pc.fit_all(fitter, srcs)
    out_a = os.path.join(d, 'live_a.txt')
    if _guard(rec, 'write_parameters', {'live': 'before'}, lambda: sedfitter.write_parameters(infos_live, out_a, select_format=('E', 1e9))):
        live = infos_live[0]
        k_ = [j for j, v in enumerate(live.source.valid) if v in (1, 4)][0]
        live.source.valid[k_] = 0
        out_b = os.path.join(d, 'live_b.txt')
        if _guard(rec, 'write_parameters', {'live': 'after'}, lambda: sedfitter.write_parameters(infos_live, out_b, select_format=('E', 1e9))):
            _, blocks_b = pc.parse_write_parameters(out_b)
            want_nd = sum(1 for v in live.source.valid if v in (1, 4))
            rec.ev()
            rec.trans(2)
            rec.cls('flag-changed-in-place-between-listings')
            if blocks_b[0]['n_data'] != want_nd:
                rec.violation('write_parameters|stale-n_data', {'live': True}, {'problem': 'n_data listed as %d after a flag was set to 0 in place; the source now has %d fitted points' % (blocks_b[0]['n_data'], want_nd)})
    # ---- a second package with the SAME model names and other parameter values is fitted in between: listings of the first
    # package's results must still show the first package's parameters
    md_b, pk_b = pc.build(d, 'pkg_b', case['fmt'], n, perm=perm[::-1], n_cols=case['n_cols'], nan_col=False, seed=seed + 1)
    from ref import pkgwriter as _pw
    _pw.write_parameters(md_b, pk_b['order_names'], {c: np.array([pardict[nm][ci] if pardict[nm][ci] == pardict[nm][ci] else 1.0 for nm in pk_b['order_names']]) * -2.0 - 5.0 for ci, c in enumerate(colnames)})
    fitter_b = pc.fitter_for(md_b)
    info_a = pc.fit_all(fitter, srcs)[0]
    info_b = pc.fit_all(fitter_b, pc.sources(pk_b, seed + 1, n_sources=1))[0]
    out_ab = os.path.join(d, 'two_packages.txt')
    if _guard(rec, 'write_parameters', {'two_packages': True}, lambda: sedfitter.write_parameters(info_a, out_ab, select_format=('N', 2))):
        _, blk = pc.parse_write_parameters(out_ab)
        rec.ev()
        rec.trans(3)
        rec.cls('second-package-same-names')
        for r in blk[0]['rows']:
            if not all(pc.close_e(a, b) or (b != b) for a, b in zip(r['pars'], pardict[r['model']])):
                rec.violation('write_parameters|other-package-parameters', {'two_packages': True}, {'problem': 'the listing of a result from package A shows %r for %s; package A says %r' % (r['pars'], r['model'], pardict[r['model']])})
                break
    # ---- the package's parameter file is replaced by one with other values (same models): listings must follow the file
    # as it is now, not as it was when the directory was first read
    from ref import pkgwriter
    new_cols = {c: np.array([pardict[nm][ci] for nm in pk['order_names']]) * 3.0 + 1.0 for ci, c in enumerate(colnames)}
    for fpath in (os.path.join(md, 'parameters.fits'), os.path.join(md, 'parameters.fits.gz')):
        if os.path.exists(fpath):
            os.remove(fpath)
    pkgwriter.write_parameters(md, pk['order_names'], {c: np.where(np.isnan(v), 7.0, v) for c, v in new_cols.items()}, gz=case.get('par_gz', False))
    newdict = {nm: [float(np.where(np.isnan(new_cols[c][i]), 7.0, new_cols[c][i])) for c in colnames] for i, nm in enumerate(pk['order_names'])}
    out = os.path.join(d, 'wp_rewritten.txt')
    sel = ('N', 2)
    if _guard(rec, 'write_parameters', {'rewritten': True}, lambda: sedfitter.write_parameters(path, out, select_format=sel)):
        header, parsed = pc.parse_write_parameters(out)
        rec.ev()
        rec.trans()
        rec.cls('parameter-file-rewritten')
        for blk in parsed:
            for r in blk['rows']:
                if not all(pc.close_e(a, b) for a, b in zip(r['pars'], newdict[r['model']])):
                    rec.violation('write_parameters|stale-parameter-file', {'rewritten': True}, {'problem': 'listing shows %r for %s, the parameter file now says %r (it said %r before it was rewritten)' % (r['pars'], r['model'], newdict[r['model']], pardict[r['model']])})
                    break
    # ---- the table handed to the parameter plots
    if case['plots']:
        captured = []
        orig = FitInfo.filter_table

        def spy(self, input_table, additional={}):
            r = orig(self, input_table, additional=additional)
            captured.append(([str(x).strip() for x in np.asarray(self.model_name)], [str(x).strip() for x in r['MODEL_NAME']], [float(x) for x in r[colnames[0]]]))
            return r
        FitInfo.filter_table = spy
        try:
            sel = sels[6]
            pardict = newdict
            for fn, kw in ((sedfitter.plot_params_1d, {'parameter': colnames[0], 'log_x': False}),
                           (sedfitter.plot_params_2d, {'parameter_x': colnames[0], 'parameter_y': colnames[-1] if not case['nan'] else colnames[0], 'log_x': False, 'log_y': False})):
                del captured[:]
                outdir = os.path.join(d, 'plots_%s' % fn.__name__)
                ok = _guard(rec, fn.__name__, {'sel': list(sel)}, lambda: fn(path, output_dir=outdir, select_format=sel, format='png', **kw))
                rec.trans()
                if ok:
                    rec.cls('plot-params-table')
                    rec.ev(len(captured))
                    for ranked, tabnames, vals in captured:
                        if ranked != tabnames or not all(pc.close_e(v, pardict[nmm][0]) for v, nmm in zip(vals, ranked)):
                            rec.violation('plot_params|table', {'function': fn.__name__}, {'ranking': ranked, 'table_rows': tabnames, 'values': vals})
                            break
        finally:
            FitInfo.filter_table = orig
    if perm == [1, 0, 2, 3][:n] + list(range(4, n)):
        rec.sample({'permutation': perm, 'package_order': pk['order_names'], 'selectors': [list(s) for s in sels], 'parameters_by_model': pardict,
                    'first_source_ranking': [str(x) for x in base_infos[0].model_name]})


def _guard(rec, what, sub, fn):
    """run a post-processing call; an exception is a violation with its call-site signature"""
    from mc.runner import exc_signature
    try:
        _guard.result = fn()
        return True
    except Exception as e:
        rec.ev()
        rec.violation('%s|%s' % (what, exc_signature(e)), sub, {'type': type(e).__name__, 'msg': str(e)[:300]})
        return False
