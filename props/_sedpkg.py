"""SED-level packages (per-file or cube, written with astropy.io.fits only), three filters, and the exact
convolved flux of every (model, filter, aperture) by rational integration -- shared by C08 and C17."""
import os

import numpy as np

from ref import convref, pkgwriter

W_ASC = np.array([0.9, 1.6, 2.9, 5.2, 9.4, 17.0, 30.0])
FDEFS = None


def filters():
    from astropy import units as u
    from sedfitter.filter import Filter
    nu_asc = np.sort(pkgwriter.C_M_S / (W_ASC * 1e-6))
    defs = [('FA', 3.0, np.array([nu_asc[1] * 0.9, nu_asc[2], nu_asc[3] * 1.1, nu_asc[4]])[::-1], np.array([0.0, 1.0, 0.7, 0.0])),
            ('FB', 1.3, np.array([nu_asc[4] * 0.8, nu_asc[5], nu_asc[6]]), np.array([0.2, 1.0, 0.5])),
            ('FC', 12.0, np.linspace(nu_asc[0], nu_asc[2], 6), np.array([0.1, 0.5, 1.0, 0.8, 0.4, 0.1]))]
    out = []
    for nm, cw, x, y in defs:
        f = Filter()
        f.name = nm
        f.central_wavelength = cw * u.micron
        f.nu = np.array(x, float) * u.Hz
        f.response = np.array(y, float)
        f.normalize()
        out.append(f)
    return out, defs


def build(d, tag, fmt, n_models, n_ap, perm, sord='wav-desc', seed=0, n_cols=2, distinct=True, grids='same', dead=False, funit='mJy'):
    """Returns dict(md, names (physical order), table_order, flux (n_models, n_ap, n_wav on W_ASC), err, ap, pardict)."""
    rng = np.random.default_rng(seed * 23 + n_models * 5 + n_ap)
    names = ['sp_%s' % 'qbxamczk'[i] for i in range(min(n_models, 8))] + [('sp_%05d' % ((i * 7919 + 13) % 100003)) if i % 7 else ('sp_long_name_filling_30chr_%03d' % i) for i in range(8, n_models)]
    perm = list(perm)
    table_order = [names[i] for i in perm]
    ap = None if n_ap == 1 else 200.0 * 5.0 ** np.arange(n_ap)
    n_wav = len(W_ASC)
    flux = np.zeros((n_models, n_ap, n_wav))
    for m in range(n_models):
        # pairwise non-degenerate shapes: different curvature per model (not related by reddening + scaling)
        shape = (W_ASC / 3.0) ** (0.8 * (m % 4) - 1.2) * (1.0 + 0.6 * np.sin(1.3 * (m + 1) * np.log(W_ASC)))
        shape = np.abs(shape) + 0.05
        for a in range(n_ap):
            flux[m, a] = (2.0 + m) * (1.0 + 0.8 * a + 0.15 * a * ((m + 1) % 3)) * shape
    if dead:
        flux[n_models - 1] = 0.0           # a model that emits nothing: must simply rank last (chi^2 >= 1e30), never first
    err = flux * 0.05
    # per-file SEDs need not share a grid: odd models sit on a grid with the same length and end points but other interior points
    W2 = W_ASC.copy()
    W2[1:-1] = W2[1:-1] * np.array([1.05, 0.96, 1.04, 0.97, 1.03])
    wavs = [W2 if (grids == 'interior' and fmt == 'v1' and m % 2 == 1) else W_ASC for m in range(n_models)]
    wav_file = W_ASC if sord == 'wav-asc' else W_ASC[::-1]
    idx_file = [int(np.argmin(np.abs(W_ASC - w))) for w in wav_file]
    md = os.path.join(d, tag)
    os.makedirs(md)
    pkgwriter.write_conf(md, n_ap > 1, logd_step=0.1, version=1 if fmt == 'v1' else 2)
    cols = {'PAR%d' % (c + 1): np.array([10.0 ** (c - 1) * (c + 1) + 0.731 * m * (1 + c) for m in range(n_models)]) for c in range(n_cols)}
    if fmt == 'v1':
        pkgwriter.write_parameters(md, names, cols, order=perm)
        for m, nm in enumerate(names):
            wf = wavs[m] if sord == 'wav-asc' else wavs[m][::-1]
            fsc = 1e-3 if funit == 'Jy' else 1.0
            pkgwriter.write_sed_file(md, nm, wf, flux[m][:, idx_file] * fsc, err[m][:, idx_file] * fsc, unit=funit, apertures_au=ap)
    else:
        pkgwriter.write_parameters(md, table_order, {k: v[perm] for k, v in cols.items()})
        fsc = 1e-3 if funit == 'Jy' else 1.0
        pkgwriter.write_cube(md, table_order, wav_file, flux[perm][:, :, idx_file] * fsc, unc=err[perm][:, :, idx_file] * fsc, unit=funit, apertures_au=ap)
    pardict = {names[m]: [cols['PAR%d' % (c + 1)][m] for c in range(n_cols)] for m in range(n_models)}
    return {'md': md, 'names': names, 'table_order': table_order, 'flux': flux, 'err': err, 'ap': ap, 'pardict': pardict, 'colnames': list(cols), 'wavs': wavs}


def exact_convolved(pk, fdefs, filt_objs):
    """conv[m, b, a] = sum_i F_m,a(nu_i) R_i with exact R on the model's own grid (package independent)."""
    out = np.zeros((pk['flux'].shape[0], len(fdefs), pk['flux'].shape[1]))
    for m in range(pk['flux'].shape[0]):
        nu = pkgwriter.C_M_S / (pk['wavs'][m] * 1e-6)
        order = np.argsort(nu)
        for b, ((nm, cw, fx, fy), f) in enumerate(zip(fdefs, filt_objs)):
            R = np.array([float(x) for x in convref.rebin_exact(fx, np.asarray(f.response), nu[order])[0]])
            out[m, b, :] = np.sum(pk['flux'][m][:, order] * R[None, :], axis=1)
    return out
