"""C16 -- monochromatic convolution emits every in-range wavelength at any memory limit.

E1 over configurations: for each small per-file package (n_wav, n_ap, n_models,
parameter-table permutation, spectral order of the SED files) EVERY chunk size
1..n_wav (through the max_ram that produces it, plus the default) is crossed with
EVERY window whose ends lie below / on / between / above the tabulated
wavelengths (all ordered pairs, single-wavelength and empty windows included).
Second part: cube packages loaded with wavelength 'filters'.
"""
import glob
import itertools
import os
import shutil

import numpy as np

from mc.enumerate import deviation_bounded
from ref import pkgwriter

ID = 'C16'
LEVEL = 'model_checking'
TECHNIQUE = 'exhaustive enumeration of (chunk size, window) pairs per package configuration through the real convolve_model_dir_monochromatic; outputs compared with the cell dictionary and across chunk sizes'
LEVEL_TEXT = ('For packages with 2..5 (quick) / 2..9 (thorough) wavelengths every chunk size 1..n_wav and the default memory limit are crossed with every window end placement '
              '(below, on, between, above every tabulated wavelength; all ordered pairs): the files written must be exactly one per tabulated wavelength inside the window, numbered '
              'consistently with the returned table, holding every model\'s flux and error at that wavelength for every aperture in parameter-table order, and must be identical '
              'for every chunk size; an empty window must produce no file and no crash. Cube packages are loaded with wavelength filters at, near, between and outside the '
              'tabulated wavelengths and must deliver the slice at a nearest tabulated wavelength.')
LEVEL_NOTE = ('A window end that coincides with a tabulated wavelength may include or exclude it; a requested wavelength exactly midway between two tabulated ones may select either. '
              'Deviation-bounded (<=2 for up to 3 wavelengths, <=1 above in the quick tier) over n_ap, n_models, parameter-table permutation, spectral order, file layout and stored flux unit; exhaustive over chunk sizes and windows inside each. Package files '
              'written and result files read with astropy.io.fits directly.')
RULE = ("cases: package configurations; executions: one call per (chunk size, window), one evaluation per file checked; a state is (configuration, window, chunk); non-trivial = distinct "
        "(configuration, window, chunk) whose window holds at least one wavelength and whose chunk size is smaller than the number of wavelengths in the window or divides it")
ASSUMPTIONS = ["all SED files of a package share one wavelength grid", "window ends exactly on a tabulated wavelength are ambiguous"]
REQUIRED_CLASSES = ['sorted-table-with-prefix-names', 'one-sided-window', 'seds-regenerated-then-convolved-with-overwrite', 'chunk-divides-range', 'chunk-does-not-divide-range', 'chunk==1', 'single-wavelength-window', 'empty-window', 'default-window', 'window-end-on-wavelength',
                    'permuted-parameter-table', 'multi-aperture', 'sed-files-wav-ascending', 'seds-in-subdirs-and-gz', 'seds-stored-in-erg/cm2/s', 'convolved-again-after-listing', 'cube-tabulated-in-Jy', 'cube-nearest', 'cube-midway', 'cube-outside', 'cube-wavelength-in-other-unit']
TIMEOUT = {'quick': 600, 'thorough': 3000}


def setup(tier, seed):
    nmax = 5 if tier == 'quick' else 9
    axes = {'n_ap': [2, 1, 3], 'n_models': [3, 1, 5], 'perm': ['identity', 'reversed', 'rotated', 'sorted-prefix'], 'sord': ['wav-desc', 'wav-asc'], 'layout': ['flat', 'subdir+gz'], 'funit': ['mJy', 'erg/cm2/s']}
    out = []
    for n_wav in range(2, nmax + 1):
        for c in deviation_bounded(axes, 2 if (n_wav <= 3 or (tier == 'thorough' and n_wav <= 6)) else 1):
            if c['n_models'] == 1 and c['perm'] != 'identity':
                continue
            if tier == 'quick':
                dev = [k for k in axes if c[k] != axes[k][0]]
                if n_wav == 3 and len(dev) == 2 and not set(dev) <= {'sord', 'funit', 'layout'}:
                    continue          # quick: pairs of deviations for 3 wavelengths only among the file-level axes
                if n_wav == 5 and len(dev) == 1 and dev[0] not in ('sord', 'funit'):
                    continue
            parts = 1 if n_wav <= 3 else (3 if n_wav == 4 else 6 if n_wav <= 6 else 12)
            for wp in range(parts):          # the windows of one configuration are spread over several cases
                cc = dict(c)
                cc['part'] = 'mono'
                cc['n_wav'] = n_wav
                cc['wpart'] = [wp, parts]
                out.append(cc)
    for sord in ('wav-desc', 'wav-asc'):
        for n_ap in (1, 3):
            for memmap in (True, False):
                for cunit in ('mJy', 'Jy'):          # the cube may be tabulated in either
                    out.append({'part': 'cube', 'sord': sord, 'n_ap': n_ap, 'memmap': memmap, 'cube_unit': cunit})
    return {'tier': tier, 'seed': seed, 'cases': out}


def cases(ctx):
    return iter(ctx['cases'])


def evidence_extra(ctx):
    return {'bounds': 'n_wav 2..%d; every chunk size 1..n_wav + default; every window over 2n+1 end positions (ordered pairs); deviation-bounded over n_ap{1,2,3}, n_models{1,3,5}, table permutation, spectral order; cube part: 13 requested wavelengths x 2 orders x n_ap{1,3} x memmap x cube unit{mJy,Jy}'
                      % (5 if ctx['tier'] == 'quick' else 9), 'alphabet_digest': 'cells encode (model, aperture, wavelength)'}


def _positions(w_asc):
    """2n+1 end positions: below all, on w_i, between w_i and w_(i+1), above all."""
    pos = [('below', w_asc[0] * 0.5)]
    for i, w in enumerate(w_asc):
        pos.append(('on', w))
        if i + 1 < len(w_asc):
            pos.append(('between', 0.5 * (w + w_asc[i + 1])))
    pos.append(('above', w_asc[-1] * 2.0))
    return pos


def run_case(ctx, case, rec, d):
    if case['part'] == 'cube':
        return _cube(ctx, case, rec, d)
    from astropy import units as u
    from astropy.io import fits
    from sedfitter.convolve import convolve_model_dir_monochromatic
    n_wav, n_ap, n_models = case['n_wav'], case['n_ap'], case['n_models']
    w_asc = 1.0 * 1.5 ** np.arange(n_wav)
    wav_file = w_asc if case['sord'] == 'wav-asc' else w_asc[::-1]
    names = ['mono_%s' % 'dbaec'[i] for i in range(n_models)]
    if n_models >= 3 and case['perm'] != 'sorted-prefix':
        names[2] = 'mono_a_name_of_thirty_chars_' + names[2][-2:]          # exactly the 30 characters of the name column
        assert len(names[2]) == 30
    if case['perm'] == 'sorted-prefix':
        # a parameter table that IS in alphabetical order, with names that are prefixes of one another: the SED files
        # (m10_sed.fits before m1_sed.fits) come in another order than the names
        names = ['m1', 'm10', 'm2', 'm20', 'm3'][:n_models]
        rec.cls('sorted-table-with-prefix-names')
    perm = {'identity': list(range(n_models)), 'reversed': list(range(n_models))[::-1], 'rotated': [(i + 1) % n_models for i in range(n_models)], 'sorted-prefix': list(range(n_models))}[case['perm']]
    ap = None if n_ap == 1 else 100.0 * 10.0 ** np.arange(n_ap)
    cell = lambda m, a, wi: 0.0 if (m == 1 and a == 0 and wi == 1) else 1000.0 * (m + 1) + 10.0 * (a + 1) + (wi + 1) / 64.0      # wi = index in w_asc; one cell holds zero flux (and zero error)
    md = os.path.join(d, 'pkg')
    os.makedirs(md)
    pkgwriter.write_conf(md, n_ap > 1, version=1)
    pkgwriter.write_parameters(md, names, {'par1': np.arange(n_models) + 0.5}, order=perm)
    for m, nm in enumerate(names):
        fl = np.array([[cell(m, a, int(np.argmin(np.abs(w_asc - w)))) for w in wav_file] for a in range(n_ap)])
        lay = case.get('layout', 'flat')
        if case.get('funit', 'mJy') != 'mJy':
            # stored as nu*F_nu in erg/cm^2/s: the monochromatic 'convolution' must hand back F_nu in mJy all the same
            fl = fl * 1e-26 * (pkgwriter.C_M_S / (np.asarray(wav_file) * 1e-6))[None, :]
        pkgwriter.write_sed_file(md, nm, wav_file, fl, fl / 8.0 * (1e-3 if (m % 2 and case.get('funit', 'mJy') == 'mJy') else 1.0), err_unit=('Jy' if (m % 2 and case.get('funit', 'mJy') == 'mJy') else None), unit='mJy' if case.get('funit', 'mJy') == 'mJy' else 'erg s-1 cm-2', apertures_au=ap, subdir=(nm[:6] if lay != 'flat' and m % 2 else None), gz=(lay != 'flat' and m != 1))
    table_order = [names[i] for i in perm]
    if perm != sorted(perm):
        rec.cls('permuted-parameter-table')
    if n_ap > 1:
        rec.cls('multi-aperture')
    if case['sord'] == 'wav-asc':
        rec.cls('sed-files-wav-ascending')
    if case.get('layout', 'flat') != 'flat':
        rec.cls('seds-in-subdirs-and-gz')
    if case.get('funit', 'mJy') != 'mJy':
        rec.cls('seds-stored-in-erg/cm2/s')
    cfg = (n_wav, n_ap, n_models, case['perm'], case['sord'], case.get('layout', 'flat'), case.get('funit', 'mJy'))
    positions = _positions(w_asc)
    windows = [(None, None)] + [(positions[i], positions[j]) for i in range(len(positions)) for j in range(i, len(positions))]
    # one-sided windows: only one of the two limits is given, the other keeps its default
    windows += [(positions[i], 'default') for i in range(len(positions))] + [('default', positions[j]) for j in range(len(positions))]
    windows = windows[case['wpart'][0]::case['wpart'][1]]
    chunks = [None] + list(range(1, n_wav + 1))
    sampled = False
    for win in windows:
        if win[0] is None:
            lo, hi = -np.inf, np.inf
            kw = {}
            rec.cls('default-window')
        elif 'default' in win:
            lo = -np.inf if win[0] == 'default' else win[0][1]
            hi = np.inf if win[1] == 'default' else win[1][1]
            kw = {'wav_max': hi * u.micron} if win[0] == 'default' else {'wav_min': lo * u.micron}
            rec.cls('one-sided-window')
            win = (('default', None) if win[0] == 'default' else win[0], ('default', None) if win[1] == 'default' else win[1])
        else:
            lo, hi = win[0][1], win[1][1]
            kw = {'wav_min': lo * u.micron, 'wav_max': hi * u.micron}
            if 'on' in (win[0][0], win[1][0]):
                rec.cls('window-end-on-wavelength')
        must = [i for i, w in enumerate(w_asc) if lo < w < hi]
        may = [i for i, w in enumerate(w_asc) if w == lo or w == hi]
        if len(must) == 0 and len(may) == 0:
            rec.cls('empty-window')
        if len(must) + len(may) == 1 or (len(must) == 0 and len(may) == 2 and lo == hi):
            rec.cls('single-wavelength-window')
        per_chunk = {}
        for ch in chunks:
            cdir = os.path.join(md, 'convolved')
            if os.path.exists(cdir):
                shutil.rmtree(cdir)
            kw2 = dict(kw)
            if ch is not None:
                kw2['max_ram'] = (ch + 0.5) * 8.0 * n_models * n_ap / 1024. ** 3
            sub = {'window': [None if win[0] is None else list(win[0]), None if win[1] is None else list(win[1])], 'chunk': ch}
            nin = len(must)
            if ch is not None and nin > 0:
                rec.cls('chunk==1') if ch == 1 else None
                if ch < nin or True:
                    rec.cls('chunk-divides-range' if nin % ch == 0 else 'chunk-does-not-divide-range')
            rec.state((cfg, sub['window'], ch))
            if nin >= 1 and ch is not None:
                rec.nontriv((cfg, str(sub['window']), ch))
            try:
                tab = convolve_model_dir_monochromatic(md, **kw2)
            except Exception as e:
                rec.ev()
                rec.trans()
                cls_ = 'empty-window' if (not must and not may) else ('single-wavelength-window' if nin <= 1 else ('chunk-divides' if (ch and nin % ch == 0) else 'chunk-not-dividing'))
                rec.violation('mono|exception|%s|%s' % (type(e).__name__, cls_), sub, {'msg': str(e)[:200], 'n_wav': n_wav, 'wavelengths_inside': nin})
                continue
            rec.ev()
            rec.trans()
            files = sorted(os.path.basename(f)[:-5] for f in glob.glob(os.path.join(cdir, '*.fits')))
            # the returned table names the files; wavelengths of the table rows
            twav = np.asarray(tab['wav'], float) if 'wav' in tab.colnames else None
            tnames = [x.decode() if isinstance(x, bytes) else str(x) for x in tab['filter']]
            named = sorted(x for x in tnames if x.strip())
            content = {}
            bad = None
            if named != files:
                bad = 'returned table names %r but the files are %r' % (named, files)
            else:
                for fname in files:
                    j = tnames.index(fname)
                    with fits.open(os.path.join(cdir, fname + '.fits')) as h:
                        t = h['CONVOLVED FLUXES'].data
                        rn = [str(x).strip() for x in t['MODEL_NAME']]
                        ff = np.asarray(t['TOTAL_FLUX'], float).reshape(len(rn), n_ap)
                        ee = np.asarray(t['TOTAL_FLUX_ERR'], float).reshape(len(rn), n_ap)
                        fw = h[0].header.get('FILTWAV')
                        fa = np.asarray(h['APERTURES'].data['APERTURE'], float) if 'APERTURES' in h else None
                    rec.ev()
                    wi = int(np.argmin(np.abs(w_asc - fw)))
                    if abs(w_asc[wi] - fw) > 1e-9 * fw:
                        bad = '%s: FILTWAV %r is not a tabulated wavelength' % (fname, fw)
                        break
                    if twav is not None and abs(twav[j] - fw) > 1e-9 * fw:
                        bad = '%s: the returned table lists wavelength %r for it, the file says %r' % (fname, twav[j], fw)
                        break
                    if fname != 'MO%03d' % (j + 1):
                        bad = '%s sits at table row %d' % (fname, j)
                        break
                    if wi in content:
                        bad = 'two files for wavelength %r' % fw
                        break
                    if rn != table_order:
                        bad = '%s: rows %r, parameter-table order is %r' % (fname, rn, table_order)
                        break
                    exp = np.array([[cell(names.index(nm), a, wi) for a in range(n_ap)] for nm in rn])
                    if not (np.allclose(ff, exp, rtol=1e-11) and np.allclose(ee, exp / 8.0, rtol=1e-11)):
                        bad = '%s (wavelength %r): fluxes %r, stored %r' % (fname, fw, ff[0], exp[0])
                        break
                    if ap is not None and (fa is None or not np.allclose(fa, ap)):
                        bad = '%s: apertures %r' % (fname, fa)
                        break
                    content[wi] = (tuple(rn), ff.tobytes(), ee.tobytes())
            if bad is None:
                missing = [i for i in must if i not in content]
                extra = [i for i in content if i not in must and i not in may]
                if missing:
                    bad = 'no file for tabulated wavelength(s) %s inside the window (%d of %d written)' % ([float(w_asc[i]) for i in missing], len(content), len(must))
                elif extra:
                    bad = 'file(s) for wavelength(s) %s outside the window' % [float(w_asc[i]) for i in extra]
            rec.outcome((len(content), nin))
            if bad:
                kind = 'missing' if 'no file for' in bad else 'outside' if 'outside the window' in bad else 'content'
                cls_ = 'single-wavelength-window' if nin <= 1 else ('chunk-divides' if (ch and nin % ch == 0) else 'chunk-default' if ch is None else 'chunk-not-dividing')
                rec.violation('mono|%s|%s' % (kind, cls_), sub, {'problem': bad, 'n_wav': n_wav, 'files': files})
                continue
            per_chunk[ch] = content
        if per_chunk:
            ref_c = per_chunk.get(None, next(iter(per_chunk.values())))
            for ch, content in per_chunk.items():
                same_must = all(content.get(i) == ref_c.get(i) for i in must)
                if set(k for k in content if k in must) != set(k for k in ref_c if k in must) or not same_must or set(content) != set(ref_c):
                    rec.violation('mono|depends-on-chunk-size', {'window': [None if win[0] is None else list(win[0]), None if win[1] is None else list(win[1])], 'chunk': ch},
                                  {'problem': 'result differs from the default memory limit', 'files_this_chunk': sorted(content), 'files_default': sorted(ref_c)})
            rec.trace()
        # ---- once per configuration: the package is used for a parameter listing, then convolved again (overwrite):
        # the rows of the new files must still follow the parameter table
        if win[0] is None and n_models >= 2 and case['wpart'][0] == 0:
            try:
                import sedfitter
                from sedfitter.fit_info import FitInfo
                from sedfitter.source import Source
                from props import _fitcommon as _fc
                src_ = Source()
                src_.name = 'lst'
                src_.valid = np.array([1, 1])
                src_.flux = np.array([1.0, 2.0])
                src_.error = np.array([0.1, 0.2])
                inf_ = FitInfo(src_)
                inf_.chi2 = np.arange(n_models) * 1.0
                inf_.av = np.zeros(n_models)
                inf_.sc = np.zeros(n_models)
                inf_.model_id = np.arange(n_models)
                inf_.model_name = np.array(table_order)
                inf_.meta.model_dir, inf_.meta.filters, inf_.meta.extinction_law = md, [], _fc.law_object('power')
                sedfitter.write_parameters(inf_, os.path.join(d, 'listing.txt'), select_format=('A', 0))
                convolve_model_dir_monochromatic(md, overwrite=True)
                rec.trans(2)
                rec.cls('convolved-again-after-listing')
                for fpath in sorted(glob.glob(os.path.join(md, 'convolved', '*.fits'))):
                    with fits.open(fpath) as h:
                        rn = [str(x).strip() for x in h['CONVOLVED FLUXES'].data['MODEL_NAME']]
                    rec.ev()
                    if rn != table_order:
                        rec.violation('mono|content|after-listing', {'file': os.path.basename(fpath)}, {'problem': 'rows %r, parameter-table order is %r (convolved after write_parameters had been used on the package)' % (rn, table_order)})
                        break
            except Exception as e:
                from mc.runner import exc_signature
                rec.violation('mono|after-listing|' + exc_signature(e), {'after_listing': True}, {'type': type(e).__name__, 'msg': str(e)[:300]})
            # ---- the SEDs of the package are regenerated (same grid, three times the fluxes) and the package is convolved again
            # with overwrite, the arguments given by position: every file must hold the new fluxes
            try:
              for factor in (3.0, 1.0):          # ... and then put back as they were
                for m, nm in enumerate(names):
                    fl = np.array([[cell(m, a, int(np.argmin(np.abs(w_asc - w)))) for w in wav_file] for a in range(n_ap)])
                    lay = case.get('layout', 'flat')
                    if case.get('funit', 'mJy') != 'mJy':
                        fl = fl * 1e-26 * (pkgwriter.C_M_S / (np.asarray(wav_file) * 1e-6))[None, :]
                    fl = fl * factor
                    pkgwriter.write_sed_file(md, nm, wav_file, fl, fl / 8.0 * (1e-3 if (m % 2 and case.get('funit', 'mJy') == 'mJy') else 1.0), err_unit=('Jy' if (m % 2 and case.get('funit', 'mJy') == 'mJy') else None), unit='mJy' if case.get('funit', 'mJy') == 'mJy' else 'erg s-1 cm-2', apertures_au=ap, subdir=(nm[:6] if lay != 'flat' and m % 2 else None), gz=(lay != 'flat' and m != 1))
                convolve_model_dir_monochromatic(md, True, 8)
                rec.trans()
                rec.cls('seds-regenerated-then-convolved-with-overwrite')
                nfiles = 0
                for fpath in sorted(glob.glob(os.path.join(md, 'convolved', '*.fits'))):
                    with fits.open(fpath) as h:
                        t = h['CONVOLVED FLUXES'].data
                        rn = [str(x).strip() for x in t['MODEL_NAME']]
                        ff = np.asarray(t['TOTAL_FLUX'], float).reshape(len(rn), n_ap)
                        fw = h[0].header.get('FILTWAV')
                    nfiles += 1
                    rec.ev()
                    wi = int(np.argmin(np.abs(w_asc - fw)))
                    exp = factor * np.array([[cell(names.index(nm), a, wi) for a in range(n_ap)] for nm in rn])
                    if not np.allclose(ff, exp, rtol=1e-11):
                        rec.violation('mono|content|stale-after-overwrite', {'file': os.path.basename(fpath)}, {'problem': 'after the SEDs were regenerated and the package convolved again with overwrite, %s holds %r; the SEDs now say %r' % (os.path.basename(fpath), ff[0], exp[0])})
                        break
                if nfiles != n_wav:
                    rec.violation('mono|missing|after-overwrite', {}, {'files': nfiles, 'n_wav': n_wav})
            except Exception as e:
                from mc.runner import exc_signature
                rec.violation('mono|after-overwrite|' + exc_signature(e), {'after_overwrite': True}, {'type': type(e).__name__, 'msg': str(e)[:300]})
        if not sampled and win[0] is not None and len(must) >= 2:
            rec.sample({'config': {k: v for k, v in case.items()}, 'wavelengths': w_asc, 'window': [lo, hi], 'chunk_sizes_tried': chunks, 'files_expected_for_wavelength_indices': must})
            sampled = True


def _cube(ctx, case, rec, d):
    """cube package + wavelength 'filters' -> the slice at a nearest tabulated wavelength"""
    from astropy import units as u
    from sedfitter.models import Models
    wav = np.array([1.0, 2.0, 4.0, 8.0, 16.0])
    n_ap = case['n_ap']
    names = ['cb_c', 'cb_a', 'cb_b']
    ap = None if n_ap == 1 else np.array([100.0, 1000.0, 10000.0])
    order = 1 if case['sord'] == 'wav-asc' else -1
    val = np.array([[[100.0 * (m + 1) + 10 * a + w for w in range(5)] for a in range(n_ap)] for m in range(3)])
    md = os.path.join(d, 'pkg')
    os.makedirs(md)
    pkgwriter.write_conf(md, n_ap > 1, version=2)
    pkgwriter.write_parameters(md, names, {'par1': [1.0, 2.0, 3.0]})
    cunit = case.get('cube_unit', 'mJy')
    cfac = {'mJy': 1.0, 'Jy': 1e-3}[cunit]
    if cunit != 'mJy':
        rec.cls('cube-tabulated-in-Jy')
    pkgwriter.write_cube(md, names, wav[::order], val[:, :, ::order] * cfac, unc=val[:, :, ::order] * cfac / 8.0, apertures_au=ap, unit=cunit)
    for req, unit in [(r, un) for r in [0.5, 1.0, 1.4, 1.6, 2.0, 2.9, 3.0, 3.1, 4.0, 7.9, 11.9, 12.1, 16.0, 40.0] for un in ('micron', 'nm', 'mm')]:
        sub = {'requested_micron': req, 'given_in': unit}
        if unit != 'micron':
            rec.cls('cube-wavelength-in-other-unit')
        try:
            m = Models.read(md, [{'aperture_arcsec': 1.0, 'wav': (req * u.micron).to(u.Unit(unit))}], distance_range=np.array([1.0, 1.0]) * u.kpc, use_memmap=case['memmap'])
        except Exception as e:
            from mc.runner import exc_signature
            rec.ev()
            rec.violation('cube-slice|' + exc_signature(e), sub, {'type': type(e).__name__, 'msg': str(e)[:200]})
            continue
        rec.ev()
        rec.trans()
        key = ('cube', case['sord'], n_ap, case['memmap'], req, unit, cunit)
        rec.state(key)
        rec.nontriv(key)
        dist = np.abs(wav - req)
        near = [j for j in range(5) if dist[j] <= dist.min() * (1 + 1e-12)]
        if len(near) > 1:
            rec.cls('cube-midway')
        elif req < wav[0] or req > wav[-1]:
            rec.cls('cube-outside')
        else:
            rec.cls('cube-nearest')
        got = np.asarray(m.fluxes.to(u.mJy).value, float)
        got = got.reshape(3, -1)[:, 0]
        if n_ap == 1:
            cands = [val[:, 0, j] for j in near]
        else:
            # distance 1 kpc, 1 arcsec -> 1000 AU = the second tabulated aperture
            cands = [val[:, 1, j] for j in near]
        rec.outcome(tuple(np.round(got, 3)))
        if not any(np.allclose(got, c, rtol=1e-6) for c in cands):
            rec.violation('cube-slice|wrong-wavelength', sub, {'got': got, 'expected_one_of': cands, 'tabulated': wav, 'stored_order': case['sord']})
        if [str(x).strip() for x in m.names] != names:
            rec.violation('cube-slice|names', sub, {'names': list(m.names)})
        if abs(m.wavelengths[0].to(u.micron).value - req) > 1e-9 * req:
            rec.violation('cube-slice|wavelength-attribute', sub, {'got': str(m.wavelengths[0])})
    rec.trace()
