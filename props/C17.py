"""C17 -- plotted model SEDs are the fitted models.

E1: cube packages fitted at tabulated wavelengths (wavelength 'filters'), so
the predictions stored with a fit and the plotted curves share abscissae;
deviation-bounded over apertures, distance dependence, spectral order of the
cube, angular apertures, memmap; inside every configuration the full product of
selected fits {1,3,5} x display mode {interp, largest, largest+smallest, all} x
input form {object, file}.  Observable: the LineCollection returned by
plot(..., output_dir=None).
"""
import os

import numpy as np

from mc.enumerate import deviation_bounded
from props import _fitcommon as fc
from ref import pkgwriter

ID = 'C17'
LEVEL = 'model_checking'
TECHNIQUE = 'deviation-bounded enumeration of package configurations x full product of (selected fits, display mode, input form) through the real plot(); curves compared with the predictions stored in the fit'
LEVEL_TEXT = ('Cube packages (1 or 3 apertures, distance dependent or not, stored in either spectral order, equal or different angular apertures per filter) are fitted at tabulated '
              'wavelengths and plotted with output_dir=None for 1, 3 and 5 selected fits in all four display modes, with the results passed as object and as file: the number of '
              'curves must be selected fits x apertures shown, the best fit must be drawn last, and for every fit and every filter the curve drawn for that filter\'s aperture '
              'must pass through 10^(stored log F - 26) c/lambda at the filter wavelength within 2e-3 (rounded constants KPC = 3.086e21, c = 3e8).')
LEVEL_NOTE = ('Only cube packages fitted at tabulated wavelengths are covered (the property\'s quantifier). When theta*d exceeds the largest tabulated aperture the interpolating display '
              'mode evaluates at 0.999*max: the interpolant anywhere between 0.999*max and max is accepted. Finite value alphabets.')
RULE = ("cases: package configurations; executions: one plot() call per (n selected, display mode, input form), one evaluation per (fit, filter) point compared; non-trivial = distinct "
        "(configuration, n selected, mode, form) with more than one curve or more than one selected fit")
ASSUMPTIONS = ["results come from cube packages fitted at tabulated wavelengths", "tolerance 2e-3 for the rounded physical constants"]
REQUIRED_CLASSES = ['negative-reported-A_V', 'model-names-that-are-prefixes-of-one-another', 'largest-beam-beyond-the-table', 'law-queried-then-regridded-before-the-fit', 'whole-curve-identity', 'best-fit-exactly-tied', 'invalid-rows-before-selected-models', 'model-names-sharing-their-first-31-characters', 'mode-interp', 'mode-largest', 'mode-largest+smallest', 'mode-all', 'multi-aperture', 'single-aperture', 'mixed-theta', 'form-object', 'form-file', 'five-fits', 'cube-stored-in-single-precision',
                    'distance-dependent', 'distance-independent', 'cube-wav-ascending', 'several-sources-one-call', 'apertures-stored-decreasing', 'cube-in-Jy', 'second-package-same-names', 'same-call-twice', 'law-in-other-unit', 'filter-wavelengths-in-mixed-units']
TIMEOUT = {'quick': 600, 'thorough': 3000}

AXES = {'n_ap': [3, 1], 'sord': ['wav-desc', 'wav-asc'], 'theta': ['mixed', 'uniform', 'wide'], 'memmap': [True, False], 'avr': [(0.0, 5.0), (2.0, 2.0), (-3.0, -1.0)], 'ap_order': ['inc', 'dec'], 'funit': ['mJy', 'Jy'], 'wunit': ['micron', 'first-in-Angstrom'], 'law': ['power', 'nonmono@nm'], 'cdtype': ['f8', 'f4']}
WAV = np.array([24.0, 8.0, 4.5, 2.2, 1.0])
BANDS = [0, 2, 4]
MODES = ['interp', 'largest', 'largest+smallest', 'all']


def setup(tier, seed):
    # a package is distance dependent iff it tabulates several apertures (docs/creating_model_packages.rst)
    cfgs = [dict(c, apdep=(c['n_ap'] > 1)) for c in deviation_bounded(AXES, 2 if tier == 'quick' else 5)]
    # whole-curve identity (every wavelength of the curve, not only the fitted ones) on packages with an exactly tied twin of the
    # best model, invalid cube rows before the selected models, and model names of 33 characters that share their first 31
    for n_ap in (1, 3):
        for long_names in (False, True, 'prefix'):
            for invalid in (False, True):
                for memmap in ((True,) if tier == 'quick' else (True, False)):
                    cfgs.append({'identity': True, 'n_ap': n_ap, 'long': long_names, 'invalid': invalid, 'memmap': memmap})
    return {'tier': tier, 'seed': seed, 'cases': cfgs}


def cases(ctx):
    return iter(ctx['cases'])


def evidence_extra(ctx):
    return {'bounds': 'deviation bound %d over %s; x n selected {1,3,5} x 4 display modes x {object, file}' % (2 if ctx['tier'] == 'quick' else 5, {k: len(v) for k, v in AXES.items()}),
            'alphabet_digest': 'seed=%d' % ctx['seed']}


def _identity(ctx, case, rec, d):
    """Every point of every curve is the SED of the model named at that rank, at the reported distance and A_V."""
    from astropy import units as u
    from sedfitter import plot
    from sedfitter.fit import Fitter
    from sedfitter.fit_info import FitInfoFile
    from ref import fitref
    seed = ctx['seed']
    n_ap = case['n_ap']
    apdep = n_ap > 1
    rng = np.random.default_rng(seed * 43 + n_ap)
    nm = (lambda i: 'robitaille17_spubhmi_m000001_i%02d' % i) if case['long'] is True else (lambda i: 'id_%s' % ('dbeacf'[i] if i < 6 else 'inv%d' % i))
    names = [nm(i) for i in range(6)]                       # row 1 is the twin of row 3
    if case['long'] == 'prefix':
        # names that are prefixes of one another, the longer one stored first
        names = ['30001_10', '30001_1', '30001_100', '30001_11', '30001_2', '30001_20']
        nm = lambda i: '4000%d_1' % i
        rec.cls('model-names-that-are-prefixes-of-one-another')
    aps = np.array([500.0, 2000.0, 9000.0])[:n_ap]
    val = 10 ** rng.uniform(0, 1, (6, n_ap, 5))
    val = np.cumsum(val, axis=1) * np.linspace(1, 1.3, n_ap)[None, :, None]
    val[1] = val[3]
    val[1][:, [1, 3]] = val[3][:, [1, 3]] * 1.7                # same fluxes at the three fitted wavelengths, others elsewhere: an exact tie
    rows = list(range(6))
    cube_names, cube_val, cube_valid = list(names), val.copy(), [1] * 6
    if case['invalid']:
        # two rows flagged invalid (no fluxes), stored before and between the valid ones
        cube_names = [nm(90), names[0], names[1], nm(91)] + names[2:]
        z = np.zeros((1,) + val.shape[1:])
        cube_val = np.concatenate([z, val[0:2], z, val[2:]])
        cube_valid = [0, 1, 1, 0, 1, 1, 1, 1]
        rec.cls('invalid-rows-before-selected-models')
    if case['long'] is True:
        rec.cls('model-names-sharing-their-first-31-characters')
    md = os.path.join(d, 'pkg_id')
    os.makedirs(md)
    pkgwriter.write_conf(md, apdep, logd_step=0.1, version=2)
    pkgwriter.write_parameters(md, cube_names, {'par1': np.arange(len(cube_names)) + 0.5}, pad=max(30, len(cube_names[0])))
    pkgwriter.write_cube(md, cube_names, WAV, cube_val, unc=cube_val * 0.01, apertures_au=aps if apdep else None, valid=cube_valid)
    theta = [1.0, 3.0, 2.0]
    law = fc.law_object('power')
    kall = fc.law_k('power', WAV)
    try:
        ft = Fitter([WAV[b] * u.micron for b in BANDS], np.array(theta) * u.arcsec, md, extinction_law=law, av_range=[0.0, 5.0],
                    distance_range=np.array([0.6, 2.5]) * u.kpc, use_memmap=case['memmap'])
    except Exception as e:
        from mc.runner import exc_signature
        rec.violation('plot|fitter|' + exc_signature(e), {'identity': True}, {'type': type(e).__name__, 'msg': str(e)[:300]})
        return
    k = np.asarray(law.get_av(WAV[BANDS] * u.micron), float)          # the law as the fit sees it, through its public interface
    src_flux = val[3, min(1, n_ap - 1), BANDS] * 10 ** (1.3 * k) / 1.2 ** 2
    uap = np.unique(theta)
    cfg = ('identity', n_ap, case['long'], case['invalid'], case['memmap'])
    rec.state(cfg)
    ncall = 0
    for nsel in (2, 4):
        for mode in MODES:
            if n_ap > 1 and mode == 'interp':
                continue          # the composite curve is only pinned at the filter wavelengths (the main family checks it there)
            for form in ('object', 'file'):
                ncall += 1
                info = ft.fit(fc.make_source([1, 1, 1], src_flux, 0.1 * src_flux, name='src'))
                rk_names = [str(x).strip() for x in np.asarray(info.model_name)[:nsel]]
                rk_av = np.asarray(info.av, float)[:nsel].copy()
                rk_sc = np.asarray(info.sc, float)[:nsel].copy()
                chi = np.asarray(info.chi2, float)
                if abs(chi[0] - chi[1]) <= 1e-9 * (1 + abs(chi[0])):          # tied (exactly, with the current arithmetic)
                    rec.cls('best-fit-exactly-tied')
                if form == 'file':
                    fn = os.path.join(d, 'id%d.fitinfo' % ncall)
                    w = FitInfoFile(fn, 'w')
                    w.write(info)
                    w.close()
                    arg = fn
                else:
                    arg = info
                sub = {'n_selected': nsel, 'mode': mode, 'form': form, 'identity': True}
                try:
                    figs = plot(arg, output_dir=None, select_format=('N', nsel), sed_type=mode, memmap=case['memmap'])
                    segs = [np.asarray(sg) for sg in figs['src']['lines'].get_segments()]
                except Exception as e:
                    from mc.runner import exc_signature
                    rec.ev()
                    rec.violation('plot|%s|%s' % (mode, exc_signature(e)), sub, {'type': type(e).__name__, 'msg': str(e)[:300]})
                    continue
                rec.trans()
                rec.trace()
                rec.nontriv((cfg, nsel, mode, form))
                if n_ap == 1:
                    ncur = 1 if mode in ('interp', 'largest') else (2 if mode == 'largest+smallest' else len(uap))
                else:
                    ncur = {'largest': 1, 'largest+smallest': 2, 'all': len(uap)}[mode]
                rec.outcome(('identity', len(segs), nsel, mode))
                if len(segs) != nsel * ncur:
                    rec.violation('plot|%s|curve-count' % mode, sub, {'curves': len(segs), 'expected': nsel * ncur})
                    continue
                bad = None
                for i in range(nsel):
                    if rk_names[i] not in names:
                        bad = 'fit rank %d names %r, which is not a valid model of the package' % (i + 1, rk_names[i])
                        break
                    m = names.index(rk_names[i])
                    dk = 10 ** rk_sc[i]
                    grp = segs[(nsel - 1 - i) * ncur:(nsel - i) * ncur]
                    for jc, cur in enumerate(grp):
                        if n_ap == 1:
                            fm = val[m, 0, :]
                        else:
                            th = {'largest': [max(theta)], 'largest+smallest': [min(theta), max(theta)], 'all': list(uap)}[mode][jc]
                            fm = np.array([fitref.interp_aperture(aps, val[m:m + 1, :, w_], [th * dk * 1000.0])[0, 0] for w_ in range(5)])
                        expect = fm * 10 ** (rk_av[i] * kall) / dk ** 2 * 1e-26 * (299792458.0 / (WAV * 1e-6))
                        for w_ in range(5):
                            kx = int(np.argmin(np.abs(cur[:, 0] - WAV[w_])))
                            rec.ev()
                            if abs(cur[kx, 0] - WAV[w_]) > 1e-6 * WAV[w_]:
                                bad = 'curve has no point at %r micron' % WAV[w_]
                                break
                            if abs(cur[kx, 1] / expect[w_] - 1.0) > 3e-3:
                                other = [names[q] for q in range(6) if q != m and n_ap == 1 and abs(cur[kx, 1] / (val[q, 0, w_] * 10 ** (rk_av[i] * kall[w_]) / dk ** 2 * 1e-26 * (299792458.0 / (WAV[w_] * 1e-6))) - 1.0) < 3e-3]
                                bad = 'fit rank %d is %s: at %r micron (%s) its curve is at %r, that model scaled and reddened as reported gives %r%s' % (
                                    i + 1, rk_names[i], WAV[w_], 'a fitted wavelength' if w_ in BANDS else 'not a fitted wavelength', cur[kx, 1], expect[w_], (' (this is the SED of %s)' % other[0]) if other else '')
                                break
                        if bad:
                            break
                    if bad:
                        break
                rec.cls('whole-curve-identity')
                if bad:
                    rec.violation('plot|%s|curve-is-not-the-named-model' % mode, sub, {'problem': bad, 'ranking': rk_names, 'chi2': chi[:nsel]})


def run_case(ctx, case, rec, d):
    if case.get('identity'):
        return _identity(ctx, case, rec, d)
    from astropy import units as u
    from sedfitter import plot
    from sedfitter.fit import Fitter
    from sedfitter.fit_info import FitInfoFile
    seed = ctx['seed']
    rng = np.random.default_rng(seed * 41 + case['n_ap'])
    n_ap, apdep = case['n_ap'], case['apdep']
    names = ['pl_%s' % 'dbeac'[i] for i in range(5)]
    aps = np.array([500.0, 2000.0, 9000.0])[:n_ap]
    val = 10 ** rng.uniform(0, 1, (5, n_ap, 5))
    val = np.cumsum(val, axis=1) * np.linspace(1, 1.3, n_ap)[None, :, None]
    order = 1 if case['sord'] == 'wav-desc' else -1
    md = os.path.join(d, 'pkg')
    os.makedirs(md)
    pkgwriter.write_conf(md, apdep, logd_step=0.1, version=2)
    pkgwriter.write_parameters(md, names, {'par1': np.arange(5) + 0.5})
    # the aperture table may be stored largest first, and the cube in Jy instead of mJy: same physical package
    aord = slice(None, None, -1) if (case.get('ap_order') == 'dec' and n_ap > 1) else slice(None)
    fsc, fun = (1e-3, 'Jy') if case.get('funit') == 'Jy' else (1.0, 'mJy')
    if case.get('ap_order') == 'dec' and n_ap > 1:
        rec.cls('apertures-stored-decreasing')
    if fun == 'Jy':
        rec.cls('cube-in-Jy')
    if case.get('cdtype') == 'f4':
        rec.cls('cube-stored-in-single-precision')          # what large published grids use; intermediate products must not leave its range
    pkgwriter.write_cube(md, names, WAV[::order], val[:, aord, ::order] * fsc, unc=val[:, aord, ::order] * 0.01 * fsc, unit=fun,
                         apertures_au=aps[aord] if (apdep or n_ap > 1) else None, float32=(case.get('cdtype') == 'f4'))
    theta = [1.0, 3.0, 2.0] if case['theta'] == 'mixed' else [1.0, 1.0, 1.0]
    if case['theta'] == 'wide':
        theta = [1.0, 12.0, 2.0]          # the largest beam reaches beyond the tabulated apertures (9000 AU) at most trial distances, the others stay inside
        rec.cls('largest-beam-beyond-the-table')
    if case['theta'] == 'mixed':
        rec.cls('mixed-theta')
    rec.cls('multi-aperture' if n_ap > 1 else 'single-aperture')
    rec.cls('distance-dependent' if apdep else 'distance-independent')
    if case['sord'] == 'wav-asc':
        rec.cls('cube-wav-ascending')
    law = fc.law_object(case.get('law', 'power'))
    if case.get('law', 'power') != 'power':
        rec.cls('law-in-other-unit')
    if case.get('_deviations', 0) % 2 == 1:
        # the law object has a history: it was queried once, then its wavelength column was replaced (a slightly stretched grid)
        law.get_av(np.array([0.55, 2.0]) * u.micron)
        law.wav = law.wav * 1.05
        rec.cls('law-queried-then-regridded-before-the-fit')
    # the filter wavelengths may each come in their own length unit
    wq = [WAV[b] * u.micron for b in BANDS]
    if case.get('wunit') == 'first-in-Angstrom':
        wq[0] = wq[0].to(u.AA)
        wq[2] = wq[2].to(u.mm)
        rec.cls('filter-wavelengths-in-mixed-units')
    try:
        if case['avr'][1] < 0:
            rec.cls('negative-reported-A_V')
        ft = Fitter(wq, np.array(theta) * u.arcsec, md, extinction_law=law, av_range=list(case['avr']),
                    distance_range=np.array([0.6, 2.5]) * u.kpc, use_memmap=case['memmap'])
    except Exception as e:
        from mc.runner import exc_signature
        rec.violation('plot|fitter|' + exc_signature(e), {}, {'type': type(e).__name__, 'msg': str(e)[:300]})
        return
    k = np.asarray(law.get_av(WAV[BANDS] * u.micron), float)          # the law as the fit sees it, through its public interface
    src_flux = val[2, min(1, n_ap - 1), BANDS] * 10 ** (1.3 * k) / 1.2 ** 2
    cfg = tuple(sorted((kk, str(v)) for kk, v in case.items() if kk != '_deviations'))
    rec.state(cfg)
    uap = np.unique(theta)
    ncall = 0
    for nsel in (1, 3, 5):
        if nsel == 5:
            rec.cls('five-fits')
        for mode in MODES:
            for form in ('object', 'file'):
                ncall += 1
                info = ft.fit(fc.make_source([1, 1, 1], src_flux, 0.1 * src_flux, name='src'))
                stored = np.asarray(info.model_fluxes, float).copy()
                sc_all = np.asarray(info.sc, float).copy()
                if form == 'file':
                    fn = os.path.join(d, 'o%d.fitinfo' % ncall)
                    w = FitInfoFile(fn, 'w')
                    w.write(info)
                    w.close()
                    arg = fn
                else:
                    arg = info
                sub = {'n_selected': nsel, 'mode': mode, 'form': form}
                rec.cls('mode-' + mode)
                rec.cls('form-' + form)
                try:
                    figs = plot(arg, output_dir=None, select_format=('N', nsel), sed_type=mode, memmap=case['memmap'])
                    segs = [np.asarray(sg) for sg in figs['src']['lines'].get_segments()]
                except Exception as e:
                    from mc.runner import exc_signature
                    rec.ev()
                    rec.violation('plot|%s|%s' % (mode, exc_signature(e)), sub, {'type': type(e).__name__, 'msg': str(e)[:300]})
                    continue
                rec.trans()
                rec.trace()
                if form == 'object' and nsel == 3:
                    # the very same call once more on the same result object: the same curves
                    try:
                        figs_b = plot(arg, output_dir=None, select_format=('N', nsel), sed_type=mode, memmap=case['memmap'])
                        segs_b = [np.asarray(sg) for sg in figs_b['src']['lines'].get_segments()]
                        rec.trans()
                        rec.cls('same-call-twice')
                        if len(segs_b) != len(segs) or not all(np.allclose(a_, b_, rtol=1e-12, atol=0) for a_, b_ in zip(segs, segs_b)):
                            rec.violation('plot|%s|second-call-differs' % mode, sub, {'problem': 'plotting the same result twice gives different curves'})
                    except Exception as e:
                        from mc.runner import exc_signature
                        rec.violation('plot|%s|second-call|%s' % (mode, exc_signature(e)), sub, {'type': type(e).__name__, 'msg': str(e)[:300]})
                if n_ap == 1:
                    ncur = 1 if mode in ('interp', 'largest') else (2 if mode == 'largest+smallest' else len(uap))
                else:
                    ncur = {'interp': 1, 'largest': 1, 'largest+smallest': 2, 'all': len(uap)}[mode]
                if nsel * ncur > 1:
                    rec.nontriv((cfg, nsel, mode, form))
                rec.outcome((len(segs), nsel, mode))
                if len(segs) != nsel * ncur:
                    rec.violation('plot|%s|curve-count' % mode, sub, {'curves': len(segs), 'expected': nsel * ncur, 'apertures_shown': ncur})
                    continue
                worst = 0.0
                bad = None
                for i in range(nsel):
                    grp = segs[(nsel - 1 - i) * ncur:(nsel - i) * ncur]            # drawn from worst to best: the best fit is the last group
                    pred = 10 ** (stored[i] - 26.0 + np.log10(299792458.0 / (WAV[BANDS] * 1e-6)))
                    for jb, b in enumerate(BANDS):
                        if mode == 'interp':
                            cur = grp[0]
                        elif mode == 'largest':
                            if theta[jb] != max(theta):
                                continue
                            cur = grp[0]
                        elif mode == 'largest+smallest':
                            if theta[jb] == min(theta):
                                cur = grp[0]
                            elif theta[jb] == max(theta):
                                cur = grp[1]
                            else:
                                continue
                            if min(theta) == max(theta):
                                cur = grp[0]
                        else:
                            cur = grp[list(uap).index(theta[jb])]
                        kx = int(np.argmin(np.abs(cur[:, 0] - WAV[b])))
                        rec.ev()
                        if abs(cur[kx, 0] - WAV[b]) > 1e-6 * WAV[b]:
                            bad = 'curve has no point at the filter wavelength %r' % WAV[b]
                            break
                        relerr = abs(cur[kx, 1] / pred[jb] - 1.0)
                        # theta*d beyond the table: the interpolating mode evaluates at 0.999*max
                        allow = 2e-3
                        if n_ap > 1 and mode == 'interp' and theta[jb] * 10 ** sc_all[i] * 1000.0 > aps[-1]:
                            m_idx = names.index(str(np.asarray(info.model_name)[i]).strip())
                            v = val[m_idx, :, b]
                            allow += abs((v[-1] - v[-2]) / (aps[-1] - aps[-2]) * 0.001 * aps[-1] / v[-1])
                        worst = max(worst, relerr)
                        if relerr > allow:
                            bad = 'fit rank %d, filter %r micron: curve %r, stored prediction %r (rel. diff %.3g)' % (i + 1, WAV[b], cur[kx, 1], pred[jb], relerr)
                            break
                    if bad:
                        break
                if bad:
                    rec.violation('plot|%s|curve-vs-stored' % mode, sub, {'problem': bad, 'scale': sc_all[:nsel], 'av': np.asarray(info.av, float)[:nsel]})
    # ---- several sources in ONE plot() call (they share the selected models, at different scales): every source's
    # curves must still be its own fitted models
    srcs = []
    for q, fac in enumerate((1.0, 0.25, 3.0)):
        srcs.append(fc.make_source([1, 1, 1], src_flux * fac, 0.1 * src_flux * fac, name='multi%d' % q))
    for mode in MODES:
        for form in ('list', 'file'):
            infos = [ft.fit(s_) for s_ in srcs]
            stored_all = [np.asarray(i_.model_fluxes, float).copy() for i_ in infos]
            sc_multi = [np.asarray(i_.sc, float).copy() for i_ in infos]
            if form == 'file':
                ncall += 1
                fn = os.path.join(d, 'm%d.fitinfo' % ncall)
                w = FitInfoFile(fn, 'w')
                for i_ in infos:
                    w.write(i_)
                w.close()
                arg = fn
            else:
                arg = infos
            sub = {'n_selected': 3, 'mode': mode, 'form': form, 'sources': 3}
            rec.cls('several-sources-one-call')
            try:
                figs = plot(arg, output_dir=None, select_format=('N', 3), sed_type=mode, memmap=case['memmap'])
            except Exception as e:
                from mc.runner import exc_signature
                rec.ev()
                rec.violation('plot|%s|%s' % (mode, exc_signature(e)), sub, {'type': type(e).__name__, 'msg': str(e)[:300]})
                continue
            rec.trans()
            rec.trace()
            rec.nontriv((cfg, 'multi', mode, form))
            ncur = ({'interp': 1, 'largest': 1, 'largest+smallest': 2, 'all': len(uap)}[mode]) if n_ap > 1 else (1 if mode in ('interp', 'largest') else (2 if mode == 'largest+smallest' else len(uap)))
            bad = None
            for q, s_ in enumerate(srcs):
                if s_.name not in figs or 'lines' not in figs[s_.name]:
                    bad = 'no curves returned for source %s' % s_.name
                    break
                segs = [np.asarray(sg) for sg in figs[s_.name]['lines'].get_segments()]
                if len(segs) != 3 * ncur:
                    bad = '%s: %d curves, expected %d' % (s_.name, len(segs), 3 * ncur)
                    break
                for i in range(3):
                    grp = segs[(3 - 1 - i) * ncur:(3 - i) * ncur]
                    pred = 10 ** (stored_all[q][i] - 26.0 + np.log10(299792458.0 / (WAV[BANDS] * 1e-6)))
                    for jb, b in enumerate(BANDS):
                        if mode == 'interp' or ncur == 1:
                            if mode == 'largest' and theta[jb] != max(theta):
                                continue
                            cur = grp[0]
                        elif mode == 'largest+smallest':
                            if theta[jb] == min(theta):
                                cur = grp[0]
                            elif theta[jb] == max(theta):
                                cur = grp[1]
                            else:
                                continue
                        else:
                            cur = grp[list(uap).index(theta[jb])]
                        kx = int(np.argmin(np.abs(cur[:, 0] - WAV[b])))
                        rec.ev()
                        allow = 2e-3
                        if n_ap > 1 and mode == 'interp' and theta[jb] * 10 ** sc_multi[q][i] * 1000.0 > aps[-1]:
                            m_idx = names.index(str(np.asarray(infos[q].model_name)[i]).strip())
                            v = val[m_idx, :, b]
                            allow += abs((v[-1] - v[-2]) / (aps[-1] - aps[-2]) * 0.001 * aps[-1] / v[-1])
                        if abs(cur[kx, 1] / pred[jb] - 1.0) > allow:
                            bad = '%s, fit rank %d, filter %r micron: curve %r, stored prediction %r' % (s_.name, i + 1, WAV[b], cur[kx, 1], pred[jb])
                            break
                    if bad:
                        break
                if bad:
                    break
            if bad:
                rec.violation('plot|%s|curve-vs-stored|several-sources' % mode, sub, {'problem': bad})
    # ---- a second package with the SAME model names in another row order (and other fluxes), fitted and plotted in the
    # same process: its curves must be its own models
    md2 = os.path.join(d, 'pkg2')
    os.makedirs(md2)
    names2 = names[::-1]
    val2 = val[::-1] * np.linspace(0.6, 1.9, 5)[:, None, None]
    pkgwriter.write_conf(md2, apdep, logd_step=0.1, version=2)
    pkgwriter.write_parameters(md2, names2, {'par1': np.arange(5) + 0.5})
    pkgwriter.write_cube(md2, names2, WAV[::order], val2[:, :, ::order], unc=val2[:, :, ::order] * 0.01, apertures_au=aps if (apdep or n_ap > 1) else None)
    try:
        ft2 = Fitter(wq, np.array(theta) * u.arcsec, md2, extinction_law=law, av_range=list(case['avr']),
                     distance_range=np.array([0.6, 2.5]) * u.kpc, use_memmap=case['memmap'])
        info2 = ft2.fit(fc.make_source([1, 1, 1], src_flux, 0.1 * src_flux, name='src2'))
        stored2 = np.asarray(info2.model_fluxes, float).copy()
        figs2 = plot(info2, output_dir=None, select_format=('N', 3), sed_type='interp', memmap=case['memmap'])
        segs2 = [np.asarray(sg) for sg in figs2['src2']['lines'].get_segments()]
        rec.trans()
        rec.cls('second-package-same-names')
        bad = None if len(segs2) == 3 else '%d curves, expected 3' % len(segs2)
        for i in range(3):
            if bad:
                break
            cur = segs2[3 - 1 - i]
            pred = 10 ** (stored2[i] - 26.0 + np.log10(299792458.0 / (WAV[BANDS] * 1e-6)))
            for jb, b in enumerate(BANDS):
                kx = int(np.argmin(np.abs(cur[:, 0] - WAV[b])))
                rec.ev()
                allow = 2e-3
                if n_ap > 1 and theta[jb] * 10 ** float(np.asarray(info2.sc, float)[i]) * 1000.0 > aps[-1]:
                    m_idx = names2.index(str(np.asarray(info2.model_name)[i]).strip())
                    v = val2[m_idx, :, b]
                    allow += abs((v[-1] - v[-2]) / (aps[-1] - aps[-2]) * 0.001 * aps[-1] / v[-1])
                if abs(cur[kx, 1] / pred[jb] - 1.0) > allow:
                    bad = 'second package, fit rank %d, filter %r micron: curve %r, stored prediction %r' % (i + 1, WAV[b], cur[kx, 1], pred[jb])
                    break
        if bad:
            rec.violation('plot|interp|curve-vs-stored|second-package', {'second_package': True}, {'problem': bad})
    except Exception as e:
        from mc.runner import exc_signature
        rec.violation('plot|second-package|' + exc_signature(e), {'second_package': True}, {'type': type(e).__name__, 'msg': str(e)[:300]})
    if case.get('_deviations') == 0:
        rec.sample({'config': {kk: v for kk, v in case.items()}, 'filters_micron': WAV[BANDS], 'theta_arcsec': theta, 'calls': 'n selected {1,3,5} x modes %s x {object,file}' % MODES})
