"""C13 -- aperture interpolation: exact at tabulated radii, linear between, clamped above.

E1: full product of table shapes (1..8 apertures, regular / irregular, 1..6
models) x request sets (every knot, thirds and halves of every segment,
beyond, far beyond, below, mixtures, single element) x request units, for
ConvolvedFluxes.interpolate, SED.interpolate (bare AU numbers and Quantities)
and SED.interpolate_variable.
"""
import itertools
import math

import numpy as np

from ref import fitref

ID = 'C13'
LEVEL = 'model_checking'
TECHNIQUE = 'exhaustive enumeration of table shapes x request positions (knots, segment fractions, beyond, below) x units through the real interpolators, against an explicit two-point formula'
LEVEL_TEXT = ('Tables with 1..8 apertures (log-spaced and irregular) and 1..6 models are interpolated by the real ConvolvedFluxes.interpolate, SED.interpolate and '
              'SED.interpolate_variable at every knot, at the 1/3 and 1/2 points of every segment, at 1.5x and 100x the largest radius, below the smallest one, in mixtures and '
              'single-element calls, with the request given in the table unit, AU, pc, cm, km (and as bare AU numbers where the API takes them): values must equal the two-point '
              'linear interpolant (tabulated value at knots, largest-aperture value beyond), too-small radii must be refused, names/order/wavelength must be untouched.')
LEVEL_NOTE = ('Table values from fixed + seed-derived alphabets. A request within 4 ulp of the smallest tabulated radius after unit conversion may be accepted or refused; for the '
              'wavelength-dependent variant a request above the table may return the interpolant anywhere between 0.999*max and max. Tolerance 1e-9 relative.')
RULE = ("cases: (interpolator, n_ap, spacing, n_models, table unit); executions: one call per (request set, request unit), one evaluation per returned cell; non-trivial = distinct "
        "(case, request set, unit) with n_ap >= 2")
ASSUMPTIONS = ["tables strictly increasing in aperture with ratio >= 1.05", "finite value alphabets"]
REQUIRED_CLASSES = ['model-names-of-40-characters', 'sed-aperture-table-in-other-unit', 'spectrum-of-100-wavelengths-or-more', 'table-with-a-non-finite-cell', 'error-in-other-unit', 'history-interpolate-after-change', 'on-knot', 'inside-segment', 'beyond-table', 'below-refused', 'single-aperture-repeated', 'other-unit', 'bare-numbers', 'mixture', 'single-element',
                    'variable-at-filter-wavelength', 'variable-above-table', 'variable-on-largest-knot', 'conv', 'sed', 'sed-variable']
TIMEOUT = {'quick': 300, 'thorough': 1200}


def setup(tier, seed):
    out = []
    for n_ap in range(1, 9):
        for spacing in ('log', 'irregular'):
            if n_ap <= 2 and spacing == 'irregular':
                continue
            for n_models in ((1, 3) if tier == 'quick' else (1, 2, 3, 6)):
                for tunit in ('AU', 'pc'):
                    out.append({'what': 'conv', 'n_ap': n_ap, 'spacing': spacing, 'n_models': n_models, 'tunit': tunit})
            for n_wav in ((3,) if tier == 'quick' else (2, 3, 7)):
                out.append({'what': 'sed', 'n_ap': n_ap, 'spacing': spacing, 'n_wav': n_wav})
                if n_ap in (1, 3, 4):
                    out.append({'what': 'hist', 'n_ap': n_ap, 'spacing': spacing, 'depth': 3 if tier == 'quick' else 4})
                out.append({'what': 'sedvar', 'n_ap': n_ap, 'spacing': spacing, 'n_wav': max(n_wav, 3)})
    # scale: spectra of 100 / 150 wavelengths (real model SEDs have 100-250), filters at wavelength indices beyond 64 and 127
    for n_ap, spacing, n_wav in ((4, 'log', 100), (6, 'irregular', 150)) + (() if tier == 'quick' else ((8, 'log', 250), (3, 'irregular', 130))):
        out.append({'what': 'sedvar', 'n_ap': n_ap, 'spacing': spacing, 'n_wav': n_wav})
        out.append({'what': 'sed', 'n_ap': n_ap, 'spacing': spacing, 'n_wav': n_wav})
    return {'tier': tier, 'seed': seed, 'cases': out}


def cases(ctx):
    return iter(ctx['cases'])


def evidence_extra(ctx):
    return {'bounds': 'n_ap 1..8 x {log, irregular} x n_models %s x table unit {AU, pc} x request sets (knots, thirds, halves, 1.5x, 100x, 0.5x, mixtures, singles) x request units {table, AU, pc, cm, km, bare}'
                      % ('{1,3}' if ctx['tier'] == 'quick' else '{1,2,3,6}'), 'alphabet_digest': 'seed=%d' % ctx['seed']}


def _table(seed, n_ap, spacing, n_rows):
    rng = np.random.default_rng(seed * 101 + n_ap * 7 + (3 if spacing == 'irregular' else 0))
    if n_ap == 1:
        ap = np.array([130.0])
    elif spacing == 'log':
        ap = np.logspace(2, 5, n_ap)
    else:
        ap = 100.0 * np.cumprod(np.r_[1.0, rng.uniform(1.06, 6.0, n_ap - 1)])
    vals = rng.uniform(0.5, 20.0, (n_rows, n_ap))
    if n_rows >= 2:
        vals[1] = np.sort(vals[1])            # one monotone row
    return ap, vals


def _request_sets(ap):
    sets = {}
    n = len(ap)
    sets['knots'] = list(ap)
    if n >= 2:
        sets['thirds'] = [ap[i] + (ap[i + 1] - ap[i]) / 3 for i in range(n - 1)]
        sets['halves'] = [0.5 * (ap[i] + ap[i + 1]) for i in range(n - 1)]
    sets['beyond'] = [ap[-1] * 1.5, ap[-1] * 100.0]
    sets['mixture'] = [ap[0], ap[-1] * 1.5] + ([0.5 * (ap[0] + ap[1]), ap[-1]] if n >= 2 else []) + [ap[-1] * 100.0]
    sets['single-knot'] = [ap[-1]]
    sets['single-beyond'] = [ap[-1] * 3.0]
    if n >= 2:
        sets['single-inside'] = [ap[0] * 0.25 + ap[1] * 0.75]
    sets['below'] = [ap[0] * 0.5]
    sets['below-just'] = [ap[0] * 0.9995]                 # no tolerance band below the table: this is too small
    sets['below-barely'] = [ap[-1], ap[0] * (1.0 - 1e-9)]
    sets['below-in-mixture'] = [ap[-1], ap[0] * 0.5]
    return sets


def _cls_for(rec, name, n_ap):
    if n_ap == 1:
        rec.cls('single-aperture-repeated')
        return
    rec.cls({'knots': 'on-knot', 'thirds': 'inside-segment', 'halves': 'inside-segment', 'beyond': 'beyond-table', 'mixture': 'mixture',
             'single-knot': 'single-element', 'single-beyond': 'single-element', 'single-inside': 'single-element'}.get(name, 'other'))


def run_case(ctx, case, rec, d):
    if case['what'] == 'conv':
        return _conv(ctx, case, rec)
    if case['what'] == 'sed':
        return _sed(ctx, case, rec)
    if case['what'] == 'hist':
        return _hist(ctx, case, rec)
    return _sedvar(ctx, case, rec)


def _conv(ctx, case, rec):
    from astropy import units as u
    from sedfitter.convolved_fluxes import ConvolvedFluxes
    rec.cls('conv')
    n_ap, n_models = case['n_ap'], case['n_models']
    ap, flux = _table(ctx['seed'], n_ap, case['spacing'], n_models)
    err = flux * 0.125 + 0.01
    tunit = u.Unit(case['tunit'])
    names = np.array(['cf_%d' % ((i * 5 + 2) % n_models) for i in range(n_models)])
    if n_ap % 3 == 0:
        # names that spell out parameters: 40 characters of which the first 38 are shared
        names = np.array(['convolved_model_with_long_parameters_%s' % str(x)[-3:].rjust(3, '_') for x in names])
        rec.cls('model-names-of-40-characters')
    key = ('conv', n_ap, case['spacing'], n_models, case['tunit'])
    rec.state(key)
    for sname, req in _request_sets(ap).items():
        for runit in ('table', 'AU', 'pc', 'cm', 'km'):
            ru = tunit if runit == 'table' else u.Unit(runit)
            # the error array may be kept in another unit than the flux array (Jy vs mJy): same physical errors
            eq = (err * u.mJy).to(u.Jy) if (n_ap + n_models) % 2 else err * u.mJy
            cf = ConvolvedFluxes(wavelength=2.2 * u.micron, model_names=names.copy(), apertures=(ap * u.au).to(tunit), flux=flux * u.mJy, error=eq)
            if eq.unit != u.mJy:
                rec.cls('error-in-other-unit')
            q = (np.array(req) * u.au).to(ru)
            sub = {'set': sname, 'unit': runit}
            expect_refusal = sname.startswith('below') and n_ap > 1
            try:
                r = cf.interpolate(q)
                outcome = 'ok'
            except Exception as e:
                r = None
                outcome = 'exc:' + type(e).__name__
                exc = e
            rec.ev()
            rec.trans()
            rec.outcome((sname, outcome))
            if n_ap >= 2:
                rec.nontriv(key + (sname, runit))
            if runit not in ('table',) and ru != tunit:
                rec.cls('other-unit')
            if expect_refusal:
                if r is not None:
                    rec.violation('conv|too-small-accepted', sub, {'requested_au': req, 'smallest_au': ap[0]})
                else:
                    rec.cls('below-refused')
                continue
            if r is None:
                # a knot request that lands within 4 ulp below the smallest radius after unit conversion may be refused
                back = q.to(tunit).value
                tab = (ap * u.au).to(tunit).value
                if n_ap > 1 and np.any((back < tab[0]) & (np.abs(back - tab[0]) <= 4 * np.spacing(tab[0]))):
                    rec.notes['conformant-refusal-within-4ulp-of-smallest'] += 1
                    continue
                from mc.runner import exc_signature
                kind = 'beyond' if any(x > ap[-1] for x in req) else 'inside'
                rec.violation('conv|exception|%s|%s' % (kind, 'table-unit' if ru == tunit else 'other-unit'), sub,
                              {'type': type(exc).__name__, 'msg': str(exc)[:200], 'requested_au': req, 'table_au': ap, 'site': exc_signature(exc)})
                continue
            _cls_for(rec, sname, n_ap)
            ef = fitref.interp_aperture(ap, flux, req)
            ee = fitref.interp_aperture(ap, err, req)
            gf = np.asarray(r.flux.to(u.mJy).value, float)
            ge = np.asarray(r.error.to(u.mJy).value, float)
            bad = None
            if gf.shape != ef.shape or ge.shape != ee.shape:
                bad = 'shape %r, expected %r' % (gf.shape, ef.shape)
            elif not np.allclose(gf, ef, rtol=1e-9, atol=0):
                bad = 'flux %r, two-point interpolant %r' % (gf[0], ef[0])
            elif not np.allclose(ge, ee, rtol=1e-9, atol=0):
                bad = 'error %r, two-point interpolant %r' % (ge[0], ee[0])
            elif [str(x) for x in r.model_names] != [str(x) for x in names]:
                bad = 'model names/order changed'
            elif r.central_wavelength != cf.central_wavelength:
                bad = 'central wavelength changed'
            elif len(r.apertures) != len(req):
                bad = 'apertures of the result'
            if bad:
                rec.violation('conv|value|%s' % sname.split('-')[0], sub, {'problem': bad, 'requested_au': req, 'table_au': ap})
    # ---- one model was not computed out to the largest radius (its last cell is inf / NaN): requests that do not involve
    # that radius still return the tabulated values and the interpolants of the finite neighbours, for every model
    if n_ap >= 3 and n_models >= 2:
        for badval in (np.inf, np.nan):
            flux_b = flux.copy()
            flux_b[1, -1] = badval
            cfb = ConvolvedFluxes(wavelength=2.2 * u.micron, model_names=names.copy(), apertures=(ap * u.au).to(tunit), flux=flux_b * u.mJy, error=err * u.mJy)
            req = list(ap[:-1]) + [0.5 * (ap[i] + ap[i + 1]) for i in range(n_ap - 2)]
            sub = {'set': 'finite-part-of-a-table-with-one-%s-cell' % ('inf' if badval == np.inf else 'nan')}
            try:
                with np.errstate(all='ignore'):
                    rb = cfb.interpolate((np.array(req) * u.au).to(tunit))
            except Exception as e:
                rec.violation('conv|exception|inside|table-unit', sub, {'type': type(e).__name__, 'msg': str(e)[:200]})
                continue
            rec.ev()
            rec.trans()
            rec.cls('table-with-a-non-finite-cell')
            efb = fitref.interp_aperture(ap, flux, req)
            gfb = np.asarray(rb.flux.to(u.mJy).value, float)
            if gfb.shape != efb.shape or not np.allclose(gfb, efb, rtol=1e-9, atol=0):
                rec.violation('conv|value|non-finite-cell-elsewhere', sub, {'problem': 'requests that do not involve the non-finite cell: got %r, expected %r' % (gfb[1], efb[1]), 'requested_au': req, 'table_au': ap})
    rec.trace()
    if n_ap == 3 and n_models == 3 and case['tunit'] == 'AU':
        rec.sample({'interpolator': 'ConvolvedFluxes.interpolate', 'table_au': ap, 'flux_model0': flux[0], 'request_sets': {k: v for k, v in _request_sets(ap).items()}})


def _sed(ctx, case, rec):
    from astropy import units as u
    from sedfitter.sed import SED
    rec.cls('sed')
    n_ap, n_wav = case['n_ap'], case['n_wav']
    ap, vals = _table(ctx['seed'] + 1, n_ap, case['spacing'], n_wav)       # (n_wav, n_ap)
    key = ('sed', n_ap, case['spacing'], n_wav)
    rec.state(key)

    def mk():
        s = SED()
        s.name = 'x'
        s.distance = 1 * u.kpc
        s.wav = (2.0 ** np.arange(n_wav))[::-1] * u.micron
        s.nu = s.wav.to(u.Hz, equivalencies=u.spectral())
        # the SED's own aperture table may be kept in another length unit (bare requests are AU whatever the table's unit)
        s.apertures = (ap * u.au).to(tab_unit)
        s.flux = vals.T * u.mJy
        s.error = vals.T * 0.1 * u.mJy
        return s
    tab_unit = [u.au, u.pc, u.cm][(n_ap + n_wav) % 3]
    if tab_unit != u.au:
        rec.cls('sed-aperture-table-in-other-unit')
    for sname, req in _request_sets(ap).items():
        for form in ('bare', 'AU', 'pc'):
            s = mk()
            q = np.array(req, dtype=float) if form == 'bare' else (np.array(req) * u.au).to(u.Unit(form))
            sub = {'set': sname, 'form': form}
            expect_refusal = sname.startswith('below') and n_ap > 1
            try:
                r = s.interpolate(q)
            except Exception as e:
                r = None
                exc = e
            rec.ev()
            rec.trans()
            rec.outcome((sname, form, r is None))
            if n_ap >= 2:
                rec.nontriv(key + (sname, form))
            if form == 'bare':
                rec.cls('bare-numbers')
            if expect_refusal:
                if r is not None:
                    rec.violation('sed|too-small-accepted', sub, {'requested_au': req})
                else:
                    rec.cls('below-refused')
                continue
            if r is None:
                if (form == 'pc' or tab_unit != u.au) and n_ap > 1 and min(abs(x - ap[0]) for x in req) < 1e-12 * ap[0]:          # a knot request one ulp below the table after a unit round trip
                    rec.notes['conformant-refusal-within-4ulp-of-smallest'] += 1
                    continue
                rec.violation('sed|exception|%s' % form, sub, {'type': type(exc).__name__, 'msg': str(exc)[:200], 'requested_au': req, 'table_au': ap})
                continue
            _cls_for(rec, sname, n_ap)
            exp = fitref.interp_aperture(ap, vals, req)            # (n_wav, n_req)
            got = np.asarray(r.value if hasattr(r, 'value') else r, float)
            if got.shape != exp.shape or not np.allclose(got, exp, rtol=1e-9, atol=0):
                rec.violation('sed|value|%s' % sname.split('-')[0], sub, {'got': got[0] if got.ndim > 1 else got, 'expected': exp[0], 'requested_au': req, 'table_au': ap})
    rec.trace()


def _sedvar(ctx, case, rec):
    """interpolate_variable(filter wavelengths [micron], filter apertures [AU]) -> flux(n_wav); at a filter's own
    wavelength the curve must equal the linear interpolant at that filter's aperture."""
    from astropy import units as u
    from sedfitter.sed import SED
    rec.cls('sed-variable')
    n_ap, n_wav = case['n_ap'], case['n_wav']
    n_wav = max(n_wav, 4)
    ap, vals = _table(ctx['seed'] + 2, n_ap, case['spacing'], n_wav)
    wav = (2.0 ** np.arange(n_wav))[::-1] if n_wav <= 40 else np.geomspace(0.1, 1000.0, n_wav)[::-1]
    if n_wav >= 100:
        rec.cls('spectrum-of-100-wavelengths-or-more')
    key = ('sedvar', n_ap, case['spacing'], n_wav)
    rec.state(key)

    def mk():
        s = SED()
        s.name = 'x'
        s.distance = 1 * u.kpc
        s.wav = wav * u.micron
        s.nu = s.wav.to(u.Hz, equivalencies=u.spectral())
        s.apertures = ap * u.au
        s.flux = vals.T * u.mJy
        s.error = vals.T * 0.1 * u.mJy
        return s
    filt_sets = [[0, n_wav - 1], [1, 2], list(range(n_wav)), [n_wav - 1, 0, 2]] + ([[70, 90, 64, 65, 63], [n_wav - 2, 5, n_wav // 2]] if n_wav >= 100 else [])
    ap_kinds = ['inside', 'knots', 'largest-knot', 'above', 'mixed']
    for fi, fw in enumerate(filt_sets):
        for kind in ap_kinds:
            nf = len(fw)
            if kind == 'inside':
                fa = [ap[0] + (ap[-1] - ap[0]) * (0.2 + 0.6 * j / max(nf - 1, 1)) for j in range(nf)] if n_ap > 1 else [ap[0]] * nf
            elif kind == 'knots':
                fa = [ap[(j + 1) % n_ap] for j in range(nf)]
            elif kind == 'largest-knot':
                fa = [ap[-1]] * nf
            elif kind == 'above':
                fa = [ap[-1] * (1.5 + j) for j in range(nf)]
            else:
                fa = [ap[-1] * 2.0 if j % 2 else ap[0] * (1.0 if n_ap == 1 else 1.5) for j in range(nf)]
            s = mk()
            sub = {'filters': fw, 'kind': kind}
            try:
                r = s.interpolate_variable(np.array([wav[j] for j in fw]), np.array(fa, dtype=float))
            except Exception as e:
                rec.ev()
                rec.violation('sedvar|exception|%s' % kind, sub, {'type': type(e).__name__, 'msg': str(e)[:200], 'apertures_au': fa, 'table_au': ap})
                continue
            rec.ev()
            rec.trans()
            got = np.asarray(r.value if hasattr(r, 'value') else r, float)
            rec.outcome((fi, kind, tuple(np.round(got, 6))))
            if n_ap >= 2:
                rec.nontriv(key + (fi, kind))
            if got.shape != (n_wav,):
                rec.violation('sedvar|shape', sub, {'shape': got.shape})
                continue
            if n_ap == 1:
                rec.cls('single-aperture-repeated')
                if not np.allclose(got, vals[:, 0], rtol=1e-12):
                    rec.violation('sedvar|single-aperture', sub, {'got': got, 'expected': vals[:, 0]})
                continue
            for j, a in zip(fw, fa):
                if a > ap[-1]:
                    lo = fitref.interp_aperture(ap, vals[j:j + 1], [ap[-1] * 0.999])[0, 0]
                    hi = vals[j, -1]
                    ok = min(lo, hi) - 1e-9 * abs(hi) <= got[j] <= max(lo, hi) + 1e-9 * abs(hi)
                    rec.cls('variable-above-table')
                else:
                    e = fitref.interp_aperture(ap, vals[j:j + 1], [a])[0, 0]
                    ok = abs(got[j] - e) <= 1e-7 * abs(e)
                    rec.cls('variable-at-filter-wavelength')
                    if a == ap[-1]:
                        rec.cls('variable-on-largest-knot')
                if not ok:
                    rec.violation('sedvar|value|%s' % kind, dict(sub, wavelength_index=j), {'got': got[j], 'aperture_au': a, 'table_au': ap, 'values_at_that_wavelength': vals[j]})
                    break
    rec.trace()


HIST_OPS = ['interp', 'sort', 'new-flux', 'new-error', 'interp-other-unit']


def _hist(ctx, case, rec):
    """E2: every sequence of up to `depth` operations on ONE ConvolvedFluxes object; after every
    operation an interpolation is compared with the reference model of the object's current content."""
    import itertools
    from astropy import units as u
    from sedfitter.convolved_fluxes import ConvolvedFluxes
    from mc.canon import canon
    n_ap = case['n_ap']
    n_models = 3
    ap, flux0 = _table(ctx['seed'] + 5, n_ap, case['spacing'], n_models)
    names0 = ['hm_b', 'hm_c', 'hm_a']
    req = list(ap) + ([0.5 * (ap[0] + ap[1])] if n_ap > 1 else []) + [ap[-1] * 2.0]
    seqs = [list(t) for L in range(1, case['depth'] + 1) for t in itertools.product(HIST_OPS, repeat=L) if t[-1].startswith('interp')]
    seen = set()
    for seq in seqs:
        cf = ConvolvedFluxes(wavelength=2.2 * u.micron, model_names=np.array(names0), apertures=ap * u.au, flux=flux0 * u.mJy, error=flux0 * 0.1 * u.mJy)
        model = {'names': list(names0), 'flux': flux0.copy(), 'err': flux0 * 0.1}
        cf.interpolate(np.array(req) * u.au)           # a first query, so that anything remembered is populated
        kept_results = []
        for step, op in enumerate(seq):
            sub = {'seq': seq[:step + 1]}
            try:
                if op == 'sort':
                    target = sorted(model['names']) if model['names'] != sorted(model['names']) else model['names'][::-1]
                    cf.sort_to_match(np.array(target))
                    idx = [model['names'].index(t) for t in target]
                    model = {'names': target, 'flux': model['flux'][idx], 'err': model['err'][idx]}
                    continue
                if op == 'new-flux':
                    model['flux'] = model['flux'][:, ::-1] * 1.5 + 0.25
                    cf.flux = model['flux'] * u.mJy
                    continue
                if op == 'new-error':
                    model['err'] = model['err'] * 3.0
                    cf.error = model['err'] * u.mJy
                    continue
                q = (np.array(req) * u.au) if op == 'interp' else (np.array(req) * u.au).to(u.pc)
                r = cf.interpolate(q)
            except Exception as e:
                rec.violation('history|exception', sub, {'type': type(e).__name__, 'msg': str(e)[:200]})
                break
            rec.ev()
            rec.trans()
            # results returned earlier in this history are the caller's: later operations on the object must not change them
            for old_r, old_c in kept_results:
                if canon([old_r.model_names, old_r.flux, old_r.error, old_r.apertures]) != old_c:
                    rec.violation('history|earlier-result-changed', sub, {'problem': 'a ConvolvedFluxes returned by an earlier interpolate() changed afterwards'})
                    kept_results = []
                    break
            kept_results.append((r, canon([r.model_names, r.flux, r.error, r.apertures])))
            c = canon([cf.model_names, cf.flux, cf.error])
            if c not in seen:
                seen.add(c)
                rec.state(('hist', n_ap, c))
            ef = fitref.interp_aperture(ap, model['flux'], req)
            ee = fitref.interp_aperture(ap, model['err'], req)
            rec.outcome(tuple(np.round(ef[0], 6)))
            if step > 0:
                rec.cls('history-interpolate-after-change')
            ok = ([str(x) for x in r.model_names] == model['names'] and np.allclose(r.flux.to(u.mJy).value, ef, rtol=1e-9) and np.allclose(r.error.to(u.mJy).value, ee, rtol=1e-9))
            if not ok:
                rec.violation('history|interpolate-after-%s' % (seq[step - 1] if step else 'nothing'), sub,
                              {'problem': 'interpolation does not follow the current content of the object', 'names_now': model['names'], 'got_names': [str(x) for x in r.model_names],
                               'got_flux_row0': r.flux.value[0], 'expected_row0': ef[0]})
                break
        rec.trace()
        rec.nontriv(('hist', n_ap, case['spacing'], tuple(seq)))
    rec.sample({'family': 'history on one ConvolvedFluxes', 'ops': HIST_OPS, 'n_sequences': len(seqs), 'example': seqs[-1]})
