"""C07 -- convolved-flux files keep model identity, identically in both package formats.

E1, deviation-bounded (+ all parameter-table permutations for <= 4 models):
the same SEDs are written as a per-file package and as a cube package (with
astropy.io.fits, not the library), both are convolved by the real
convolve_model_dir, the output files are read back with astropy.io.fits and
compared with the exact sum F*R per (model, aperture); then real Fitters on the
four (format x memmap) variants must agree.
"""
import glob as _glob
import itertools
import os

import numpy as np

from mc.enumerate import deviation_bounded
from ref import convref, pkgwriter

ID = 'C07'
LEVEL = 'model_checking'
TECHNIQUE = 'deviation-bounded enumeration of package configurations (+ all table permutations for <=4 models) through the real convolve_model_dir and Fitter, against exact per-model sums and across the two formats'
LEVEL_TEXT = ('Package configurations within 2 (quick) / 3 (thorough) deviations over number of models (1..8; 140 / 300 on five / nine re-ordering configurations), apertures (1..5), parameter-table permutation, SED file-name order, '
              'directory-listing order, spectral order, number of filters per call and resolved-model removal, plus every permutation of the parameter table for up to 4 models: '
              'each configuration is built in both formats from the same SEDs, convolved by the real code, and every row of every output file is compared with the exact sum of '
              'F*R (and quadrature error) for the model the row names; row order, FILTWAV and apertures are checked; both formats must give equal files and the four '
              '(format x memmap) fitters equal fits.')
LEVEL_NOTE = ('Cell values encode (model, aperture, wavelength); exact rational reference for R; float32 memory-mapped fits compared with a 2e-3 relative bound on chi^2, others to 1e-9. '
              'Resolved-model removal is an extra axis: the statement says fits from either form, memory-mapped or not, agree. Directory-listing order is imposed by wrapping glob.glob in-process.')
RULE = ("cases: package configurations; executions: convolve_model_dir on both formats (+ memmap variants), every output row compared, then Fitter.fit on 4 variants x sources; "
        "non-trivial = distinct configurations with >= 2 models")
ASSUMPTIONS = ["all SEDs of a package share the wavelength grid", "finite value alphabets"]
REQUIRED_CLASSES = ['two-filters-with-the-same-nominal-wavelength', 'per-file-seds-stored-as-nuFnu', 'two-packages-under-one-relative-path', 'spectra-of-100-points-or-more', 'filters-overhanging-both-ends-of-the-spectra', 'more-than-128-models', 'permuted-table', 'filenames-disagree-with-model-names', 'listing-reversed', 'sed-wav-ascending', 'three-filters', 'single-model', 'eight-models',
                    'five-apertures', 'formats-compared', 'fits-compared', 'remove-resolved', 'all-permutations-4', 'apertures-in-other-unit', 'seds-in-subdirs-or-gz', 'parameters-gz', 'seds-stored-in-Jy', 'seds-on-different-grids', 'single-real-aperture', 'error-column-in-other-unit', 'convolve-after-listing']
TIMEOUT = {'quick': 600, 'thorough': 3000}

AXES = {'n_models': [3, 1, 2, 5, 8], 'n_ap': [2, 1, 3, 5], 'perm': ['identity', 'reversed', 'rotated', 'swap01'], 'fnames': ['same', 'reversed'],
        'listing': ['sorted', 'reversed'], 'sord': ['wav-desc', 'wav-asc'], 'nfilt': [1, 3, 5], 'rr': [False, True], 'ap_unit': ['AU', 'pc', 'cm'], 'layout': ['flat', 'subdir', 'gz', 'subdir+gz'], 'par_gz': [False, True], 'funit': ['mJy', 'Jy', 'nuFnu'], 'grids': ['same', 'interior'], 'single_ap_real': [False, True], 'err_unit': ['same', 'other']}


def setup(tier, seed):
    out = [dict(c, fam='dev') for c in deviation_bounded(AXES, 2 if tier == 'quick' else 3)]
    out = [c for c in out if not (c['n_models'] == 1 and c['perm'] != 'identity') and not (c['n_models'] == 2 and c['perm'] == 'rotated')]
    for n in (2, 3, 4):
        for p in itertools.permutations(range(n)):
            out.append({'fam': 'allperm', 'n_models': n, 'n_ap': 2, 'perm': list(p), 'fnames': 'same', 'listing': 'sorted', 'sord': 'wav-desc', 'nfilt': 1, 'rr': False, 'ap_unit': 'AU', 'layout': 'flat', 'par_gz': False, 'funit': 'mJy', 'grids': 'same', 'single_ap_real': False, 'err_unit': 'same'})
    # scale: 140 (thorough: 300) models -- row indices beyond 127 / 255, names filling the 30-character column -- on the default
    # configuration and with one deviation on each axis that re-orders something
    default = {k: v[0] for k, v in AXES.items()}
    for dev in ([{}, {'perm': 'reversed'}, {'perm': 'rotated', 'fnames': 'reversed'}, {'listing': 'reversed', 'layout': 'subdir+gz'}, {'sord': 'wav-asc', 'nfilt': 3}]
                + ([] if tier == 'quick' else [{'perm': 'swap01', 'par_gz': True}, {'rr': True}, {'n_ap': 5}, {'n_ap': 1}])):
        out.append(dict(default, fam='big', n_models=140 if tier == 'quick' else 300, **dev))
    for dev in ([{'nfilt': 5}, {'nfilt': 5, 'sord': 'wav-asc', 'perm': 'reversed'}] + ([] if tier == 'quick' else [{'nfilt': 5, 'n_ap': 1}, {'nfilt': 3, 'layout': 'gz', 'n_models': 70}])):
        out.append(dict(dict(default, n_models=5), fam='longspec', n_wav=100 if tier == 'quick' else 150, **dev))
    return {'tier': tier, 'seed': seed, 'cases': out}


def cases(ctx):
    return iter(ctx['cases'])


def evidence_extra(ctx):
    return {'bounds': 'deviation bound %d over %s; + all permutations of the parameter table for 2..4 models' % (2 if ctx['tier'] == 'quick' else 3, {k: len(v) for k, v in AXES.items()}),
            'alphabet_digest': 'seed=%d' % ctx['seed']}


def _perm(kind, n):
    if isinstance(kind, list):
        return kind
    if kind == 'identity':
        return list(range(n))
    if kind == 'reversed':
        return list(range(n))[::-1]
    if kind == 'rotated':
        return [(i + 1) % n for i in range(n)]
    p = list(range(n))
    if n >= 2:
        p[0], p[1] = p[1], p[0]
    return p


def _mkfilter(nu, resp, name, cw):
    from astropy import units as u
    from sedfitter.filter import Filter
    f = Filter()
    f.name = name
    f.central_wavelength = cw * u.micron
    f.nu = np.array(nu, dtype=float) * u.Hz
    f.response = np.array(resp, dtype=float)
    return f


def _read_conv(path, n_models, n_ap):
    from astropy.io import fits
    with fits.open(path) as h:
        t = h['CONVOLVED FLUXES'].data
        names = [str(x).strip() for x in t['MODEL_NAME']]
        from astropy import units as u
        cu = h['CONVOLVED FLUXES'].columns['TOTAL_FLUX'].unit
        eu = h['CONVOLVED FLUXES'].columns['TOTAL_FLUX_ERR'].unit
        ff = np.asarray(t['TOTAL_FLUX'], float).reshape(n_models, n_ap) * (u.Unit(cu).to(u.mJy) if cu else 1.0)
        ee = np.asarray(t['TOTAL_FLUX_ERR'], float).reshape(n_models, n_ap) * (u.Unit(eu).to(u.mJy) if eu else 1.0)
        fw = h[0].header.get('FILTWAV')
        ap = None
        if 'APERTURES' in h:
            from astropy import units as u
            unit = h['APERTURES'].columns['APERTURE'].unit
            ap = (np.asarray(h['APERTURES'].data['APERTURE'], float) * (u.Unit(unit) if unit else u.au)).to(u.au).value
    return names, ff, ee, fw, ap


def run_case(ctx, case, rec, d):
    from astropy import units as u
    from sedfitter.convolve import convolve_model_dir
    import sedfitter.convolve.convolve as convmod
    from props import _fitcommon as fc
    seed = ctx['seed']
    n_models, n_ap = case['n_models'], case['n_ap']
    rng = np.random.default_rng(seed * 17 + n_models * 3 + n_ap)
    n_wav = case.get('n_wav', 7)
    w_asc = np.array([0.9, 1.6, 2.9, 5.2, 9.4, 17.0, 30.0])
    if n_wav != 7:          # scale: spectra of a hundred points or more (indices beyond 64 / 127), slightly irregular
        w_asc = np.geomspace(0.9, 30.0, n_wav) * (1.0 + 0.002 * np.cos(np.arange(n_wav) * 1.7))
        w_asc[0], w_asc[-1] = 0.9, 30.0
        rec.cls('spectra-of-100-points-or-more')
    wav_file = w_asc if case['sord'] == 'wav-asc' else w_asc[::-1]
    base_names = ['sd_q', 'sd_b', 'sd_x', 'sd_a', 'sd_m', 'sd_c', 'sd_z', 'sd_k']
    for i in range(8, n_models):        # scale: scrambled names, every seventh filling the 30-character name column
        tag = '%05d' % ((i * 7919 + 13) % 100003)
        base_names.append(('sd_w_%s' % tag) if i % 7 else ('sd_long_name_filling_30c_%s' % tag))
    base_names = base_names[:n_models]
    if n_models > 128:
        rec.cls('more-than-128-models')
    perm = _perm(case['perm'], n_models)
    table_order = [base_names[i] for i in perm]
    ap = None if n_ap == 1 else 100.0 * 4.0 ** np.arange(n_ap)
    if n_ap == 1 and case.get('single_ap_real'):
        ap = np.array([750.0])          # one aperture, but a real one: it must be carried over like any other
        rec.cls('single-real-aperture')
    apu = case.get('ap_unit', 'AU')
    AU_IN = {'AU': 1.0, 'pc': 1.0 / 206264.80624709636, 'cm': 1.495978707e13}[apu]      # one AU expressed in the unit
    ap_file = None if ap is None else ap * AU_IN
    if apu != 'AU' and ap is not None:
        rec.cls('apertures-in-other-unit')
    # physical SEDs: smooth, positive, different per model/aperture; last model strongly extended
    flux = np.zeros((n_models, n_ap, n_wav))
    for m in range(n_models):
        for a in range(n_ap):
            flux[m, a] = (1.0 + 0.37 * m) * (1.0 + 0.9 * a) * (w_asc / 3.0) ** (0.3 * (m % 3) - 0.4) * (1.0 + 0.05 * np.cos(w_asc * (m + 1)))
    if n_ap > 1:
        flux[n_models - 1] = flux[n_models - 1][:1] * (60.0 ** np.arange(n_ap))[:, None]
    err = flux * (0.03 + 0.01 * np.arange(n_wav))[None, None, :]
    idx_file = [int(np.argmin(np.abs(w_asc - w))) for w in wav_file]
    if perm != sorted(perm):
        rec.cls('permuted-table')
    if case['fam'] == 'allperm' and n_models == 4:
        rec.cls('all-permutations-4')
    if case['fnames'] == 'reversed' and n_models > 1:
        rec.cls('filenames-disagree-with-model-names')
    if case['listing'] == 'reversed':
        rec.cls('listing-reversed')
    if case['sord'] == 'wav-asc':
        rec.cls('sed-wav-ascending')
    if case['nfilt'] == 3:
        rec.cls('three-filters')
    if n_models == 1:
        rec.cls('single-model')
    if n_models == 8:
        rec.cls('eight-models')
    if n_ap == 5:
        rec.cls('five-apertures')
    cfg = tuple(sorted((k, str(v)) for k, v in case.items() if k != '_deviations'))
    rec.state(cfg)
    if n_models >= 2:
        rec.nontriv(cfg)
    # ---- the two packages
    md1 = os.path.join(d, 'pkg_v1')
    md2 = os.path.join(d, 'pkg_v2')
    for md, ver in ((md1, 1), (md2, 2)):
        os.makedirs(md)
        pkgwriter.write_conf(md, n_ap > 1, logd_step=0.2, version=ver)
    pkgwriter.write_parameters(md1, base_names, {'par1': np.arange(n_models) + 0.5}, order=perm, gz=case.get('par_gz', False))
    layout = case.get('layout', 'flat')
    funit = case.get('funit', 'mJy')
    nufnu = (funit == 'nuFnu')          # per-file SEDs stored as nu*F_nu in erg/cm^2/s (the cube of the twin package stays in mJy)
    if nufnu:
        funit = 'mJy'
        rec.cls('per-file-seds-stored-as-nuFnu')
    fscale = 1.0 if funit == 'mJy' else 1e-3        # stored number = physical mJy value * fscale
    if funit != 'mJy':
        rec.cls('seds-stored-in-Jy')
    if case.get('err_unit', 'same') != 'same':
        rec.cls('error-column-in-other-unit')
    if layout != 'flat':
        rec.cls('seds-in-subdirs-or-gz')
    if case.get('par_gz'):
        rec.cls('parameters-gz')
    # per-file SEDs need not share a grid (same length and end points, other interior points for odd models); the cube
    # cannot express that, so the two formats are then only compared with the exact sums, not with each other
    hetero = (case.get('grids', 'same') != 'same')
    w2 = w_asc.copy()
    w2[1:-1] = w_asc[1:-1] + 0.3 * (w_asc[2:] - w_asc[1:-1])
    wav_m = [w2 if (hetero and m % 2 == 1) else w_asc for m in range(n_models)]
    if hetero:
        rec.cls('seds-on-different-grids')
    # per-file: file names sorted differently from the model names when asked
    for m, nm in enumerate(base_names):
        fname = ('f%02d_sed.fits' % (n_models - 1 - m)) if case['fnames'] == 'reversed' else None
        eunit, efac = (funit, 1.0) if case.get('err_unit', 'same') == 'same' else (('Jy', 1e-3) if funit == 'mJy' else ('mJy', 1e3))      # error column in the sibling unit
        wfile_m = (wav_m[m] if case['sord'] == 'wav-asc' else wav_m[m][::-1])
        f_unit_m, nfac = funit, 1.0
        if nufnu:
            f_unit_m = 'erg s-1 cm-2'
            nfac = 1e-26 * (pkgwriter.C_M_S / (np.asarray(wfile_m) * 1e-6))[None, :]
            eunit, efac = ('erg s-1 cm-2', 1.0) if case.get('err_unit', 'same') == 'same' else ('W m-2', 1e-3)
        pkgwriter.write_sed_file(md1, nm, wfile_m, flux[m][:, idx_file] * fscale * nfac, err[m][:, idx_file] * fscale * efac * nfac, unit=f_unit_m, err_unit=eunit, apertures_au=ap_file, ap_unit=apu, filename=fname,
                                 subdir=(nm[:4] if m % 2 else nm[:3] + '_') if 'subdir' in layout else None, gz=('gz' in layout and m != 0))
    # cube: cube order = parameter-table order (the format requires it)
    pkgwriter.write_parameters(md2, table_order, {'par1': np.arange(n_models)[perm] + 0.5}, gz=case.get('par_gz', False))
    pkgwriter.write_cube(md2, table_order, wav_file, flux[perm][:, :, idx_file] * fscale, unc=err[perm][:, :, idx_file] * fscale, unit=funit, apertures_au=ap_file, ap_unit=apu)
    # ---- filters
    nu_asc = np.sort(pkgwriter.C_M_S / (w_asc * 1e-6))
    order_nu = np.argsort(pkgwriter.C_M_S / (w_asc * 1e-6))          # index into w_asc for increasing nu
    def q(i):        # position i of the 7-point grid carried over to a grid of n_wav points
        return int(round(i * (n_wav - 1) / 6.0))
    # FD and FE reach beyond the long- and the short-wavelength end of the spectra: only the overlap counts
    fdefs = [('FA', 3.0, np.array([nu_asc[q(1)] * 0.9, nu_asc[q(2)], nu_asc[q(3)] * 1.1, nu_asc[q(4)]])[::-1], np.array([0.0, 1.0, 0.7, 0.0])),
             ('FB', 1.3, np.array([nu_asc[q(4)] * 0.8, nu_asc[q(5)], nu_asc[q(6)]]), np.array([0.2, 1.0, 0.5])),
             ('FC', 3.0, np.linspace(nu_asc[q(0)], nu_asc[q(2)], 6), np.array([0.1, 0.5, 1.0, 0.8, 0.4, 0.1])),          # (FC is given the same nominal wavelength as FA: a label, not a key)
             ('FD', 25.0, np.array([nu_asc[0] * 0.45, nu_asc[0] * 0.8, nu_asc[q(1)], nu_asc[q(2)] * 1.05]), np.array([0.3, 1.0, 0.8, 0.1])),
             ('F.E1', 1.0, np.array([nu_asc[q(5)] * 0.97, nu_asc[-1] * 1.02, nu_asc[-1] * 1.4]), np.array([0.1, 1.0, 0.6]))][:case['nfilt']]          # (a filter name may contain a dot)
    if case['nfilt'] >= 5:
        rec.cls('filters-overhanging-both-ends-of-the-spectra')
    if case['nfilt'] >= 3:
        rec.cls('two-filters-with-the-same-nominal-wavelength')
    filters = [_mkfilter(x, y, nm, cw) for nm, cw, x, y in fdefs]
    for f in filters:
        f.normalize()
    # ---- run the real convolution on both packages (directory listing order imposed)
    real_glob = _glob.glob

    def listing(pattern, *a, **k):
        r = sorted(real_glob(pattern, *a, **k))
        return r[::-1] if case['listing'] == 'reversed' else r
    outputs = {}
    for tag, md, kw in (('v1', md1, {}), ('v2-memmap', md2, {'memmap': True}), ('v2-nomemmap', md2, {'memmap': False})):
        convmod.glob.glob = listing
        try:
            cdir = os.path.join(md, 'convolved')
            if os.path.exists(cdir):
                import shutil
                shutil.rmtree(cdir)
            convolve_model_dir(md, filters, **kw)
        except Exception as e:
            from mc.runner import exc_signature
            rec.ev()
            rec.violation('convolve|%s|%s' % (tag.split('-')[0], exc_signature(e)), {'variant': tag}, {'type': type(e).__name__, 'msg': str(e)[:300]})
            return
        finally:
            convmod.glob.glob = real_glob
        rec.ev()
        rec.trans()
        outputs[tag] = {f.name: _read_conv(os.path.join(md, 'convolved', f.name + '.fits'), n_models, n_ap) for f in filters}
    # ---- every row against the exact sums
    for f, (nm, cw, fx, fy) in zip(filters, fdefs):
        R, over, tot = convref.rebin_exact(fx, np.asarray(f.response), nu_asc)
        Rf = np.array([float(x) for x in R])
        Rf_m = {}
        if hetero:
            for m in range(n_models):
                num = pkgwriter.C_M_S / (wav_m[m] * 1e-6)
                om = np.argsort(num)
                Rf_m[m] = (om, np.array([float(x) for x in convref.rebin_exact(fx, np.asarray(f.response), num[om])[0]]))
        for tag in outputs:
            names, ff, ee, fw, fa = outputs[tag][f.name]
            sub = {'variant': tag, 'filter': f.name}
            rec.ev(n_models)
            if names != table_order:
                rec.violation('rows|order|%s' % tag.split('-')[0], sub, {'rows': names, 'table_order': table_order})
                continue
            for r, name in enumerate(names):
                m = base_names.index(name)
                ef = np.sum(flux[m][:, order_nu] * Rf[None, :], axis=1)
                eerr = np.sqrt(np.sum((err[m][:, order_nu] * Rf[None, :]) ** 2, axis=1))
                if hetero and tag == 'v1':
                    om, Rm = Rf_m[m]
                    ef = np.sum(flux[m][:, om] * Rm[None, :], axis=1)
                    eerr = np.sqrt(np.sum((err[m][:, om] * Rm[None, :]) ** 2, axis=1))
                rec.outcome((name, tuple(np.round(ef, 6))))
                if not np.allclose(ff[r], ef, rtol=1e-10):
                    which = next((base_names[q] for q in range(n_models) if np.allclose(ff[r], np.sum(flux[q][:, order_nu] * Rf[None, :], axis=1), rtol=1e-8)), None)
                    rec.violation('rows|flux|%s' % tag.split('-')[0], dict(sub, row=name), {'got': ff[r], 'exact_for_named_model': ef, 'matches_model': which})
                    break
                if not np.allclose(ee[r], eerr, rtol=1e-10):
                    rec.violation('rows|error|%s' % tag.split('-')[0], dict(sub, row=name), {'got': ee[r], 'exact_for_named_model': eerr})
                    break
            if fw is None or abs(fw - cw) > 1e-12:
                rec.violation('rows|FILTWAV', sub, {'got': fw, 'expected': cw})
            # a per-file SED without apertures carries the format's 1e-30 placeholder aperture; nothing is claimed about it
            if (ap is not None and (fa is None or not np.allclose(fa, ap, rtol=1e-9))) or (ap is None and fa is not None and tag != 'v1'):
                rec.violation('rows|apertures', sub, {'got': fa, 'expected': ap})
        a, b = outputs['v1'][f.name], outputs['v2-nomemmap'][f.name]
        c = outputs['v2-memmap'][f.name]
        rec.cls('formats-compared')
        if not hetero and a[0] == b[0] and not (np.allclose(a[1], b[1], rtol=1e-10) and np.allclose(a[2], b[2], rtol=1e-10) and np.allclose(b[1], c[1], rtol=1e-10) and np.allclose(b[2], c[2], rtol=1e-10)):
            rec.violation('formats-disagree|files', {'filter': f.name}, {'v1_flux': a[1][0], 'v2_flux': b[1][0], 'v1_err': a[2][0], 'v2_err': b[2][0]})
    rec.trace()
    # ---- fits from the four variants
    bands = [f.name for f in filters]
    kk = fc.law_k('power', [cw for _, cw, _, _ in fdefs])
    theta = [1.0, 3.0, 2.0, 1.5, 1.0][:len(bands)]
    dr = (0.3, 3.0)
    variants = [('v1', md1, False), ('v1', md1, True), ('v2', md2, False), ('v2', md2, True)]
    res = {}
    # sources: planted from model 0 / last model (at 1 kpc, aperture interpolated roughly -> just use the second aperture)
    srcs = []
    for p in (0, n_models - 1):
        base = np.array([np.sum(flux[p][min(1, n_ap - 1)][order_nu] * np.array([float(x) for x in convref.rebin_exact(fx, np.asarray(f.response), nu_asc)[0]]))
                         for f, (_, _, fx, _) in zip(filters, fdefs)])
        base = base * 10 ** (1.3 * kk) * 0.8
        flags = [1, 1, 1, 1, 1][:len(bands)] if p == 0 else [1, 4, 3, 1, 2][:len(bands)]
        fl, er = fc.photometry(flags, base, p)
        for j, v in enumerate(flags):
            if v in (2, 3):
                er[j] = 0.6
        srcs.append((flags, fl, er))
    if len(bands) == 1 and n_ap == 1:
        return            # one band, two parameters: singular -- nothing to fit
    if case['rr']:
        rec.cls('remove-resolved')
    # all four fitters are built first and used afterwards, the first one last
    built = {}
    for fmt, md, mm in variants:
        try:
            built[(fmt, mm)] = fc.make_fitter(md, bands, 'power', (0.0, 8.0), distance_range_kpc=dr, theta=theta, memmap=mm, remove_resolved=case['rr'])
        except Exception as e:
            from mc.runner import exc_signature
            rec.violation('fit-variants|' + exc_signature(e), {'variant': [fmt, mm]}, {'type': type(e).__name__, 'msg': str(e)[:300]})
            return
    try:
        # ... and one more memory-mapped fitter on the cube package, never used, is built after them
        fc.make_fitter(md2, bands, 'power', (0.0, 8.0), distance_range_kpc=dr, theta=theta, memmap=True, remove_resolved=not case['rr'])
    except Exception:
        pass
    for fmt, md, mm in variants[::-1]:
        try:
            ft = built[(fmt, mm)]
            res[(fmt, mm)] = [ft.fit(fc.make_source(*s)) for s in srcs if (n_ap > 1 or sum(1 for v in s[0] if v in (1, 4)) >= 2)]
        except Exception as e:
            from mc.runner import exc_signature
            rec.violation('fit-variants|' + exc_signature(e), {'variant': [fmt, mm]}, {'type': type(e).__name__, 'msg': str(e)[:300]})
            return
        rec.trans(len(srcs))
    ref_key = ('v1', False)
    if hetero:
        res = {k_: v_ for k_, v_ in res.items() if k_[0] == 'v1'}

    def byname(info):
        got = [str(x).strip() for x in np.asarray(info.model_name)]
        rows = [got.index(n) for n in base_names]
        return np.asarray(info.av, float)[rows], np.asarray(info.sc, float)[rows], np.asarray(info.chi2, float)[rows]
    for key, infos in res.items():
        for si, info in enumerate(infos):
            a = byname(res[ref_key][si])
            b = byname(info)
            rec.ev(n_models)
            rec.cls('fits-compared')
            f32 = (key == ('v2', True))
            tol = 2e-3 if f32 else 1e-9
            fin = np.isfinite(a[2]) & np.isfinite(b[2])
            ok = np.array_equal(np.isfinite(a[2]), np.isfinite(b[2])) and np.allclose(b[2][fin], a[2][fin], rtol=tol, atol=tol)
            same_d = (a[1] == b[1]) & fin
            ok = ok and np.allclose(b[0][same_d], a[0][same_d], rtol=tol, atol=tol)
            if not f32:
                ok = ok and np.allclose(b[1][fin], a[1][fin], rtol=1e-12, atol=1e-12)
            if not ok:
                rec.violation('fit-variants|disagree|%s%s' % ('remove_resolved|' if case['rr'] else '', '%s-%s' % (key[0], 'memmap' if key[1] else 'nomemmap')),
                              {'variant': list(key), 'source': si}, {'reference_variant': list(ref_key), 'chi2_ref': a[2], 'chi2': b[2], 'sc_ref': a[1], 'sc': b[1]})
    # ---- the per-file package and another package with the same model names (every flux scaled by a model-dependent factor) are
    # addressed by the SAME relative path from two working directories: each fit must be that of the package actually there
    if res.get(('v1', False)) and n_models >= 2 and case.get('_deviations', 0) <= 1:
        import shutil
        from astropy.io import fits as _fits
        cwd0 = os.getcwd()
        try:
            dx = os.path.join(d, 'elsewhere')
            os.makedirs(dx)
            mdx = os.path.join(dx, 'pkg_v1')
            shutil.copytree(md1, mdx)
            for b_ in bands:
                fp = os.path.join(mdx, 'convolved', b_ + '.fits')
                with _fits.open(fp) as h_:
                    t_ = h_['CONVOLVED FLUXES'].data
                    nm_ = [str(x).strip() for x in t_['MODEL_NAME']]
                    fac = np.array([1.0 + 0.5 * base_names.index(x) for x in nm_])
                    for col in ('TOTAL_FLUX', 'TOTAL_FLUX_ERR'):
                        arr = np.asarray(t_[col], float)
                        t_[col][:] = arr * (fac[:, None] if arr.ndim == 2 else fac)
                    h_.writeto(fp, overwrite=True)
            use = [s for s in srcs if (n_ap > 1 or sum(1 for v in s[0] if v in (1, 4)) >= 2)]
            os.chdir(d)
            rel_a = [fc.make_fitter('pkg_v1', bands, 'power', (0.0, 8.0), distance_range_kpc=dr, theta=theta, memmap=False, remove_resolved=case['rr']).fit(fc.make_source(*s)) for s in use]
            os.chdir(dx)
            rel_x = [fc.make_fitter('pkg_v1', bands, 'power', (0.0, 8.0), distance_range_kpc=dr, theta=theta, memmap=False, remove_resolved=case['rr']).fit(fc.make_source(*s)) for s in use]
            os.chdir(cwd0)
            abs_x = [fc.make_fitter(mdx, bands, 'power', (0.0, 8.0), distance_range_kpc=dr, theta=theta, memmap=False, remove_resolved=case['rr']).fit(fc.make_source(*s)) for s in use]
            rec.trans(3 * len(use))
            rec.cls('two-packages-under-one-relative-path')
            for what, got_l, want_l in (('first package by relative path', rel_a, res[('v1', False)]), ('second package by the same relative path from another directory', rel_x, abs_x)):
                for si, (g_, w_) in enumerate(zip(got_l, want_l)):
                    a, b = byname(w_), byname(g_)
                    rec.ev(n_models)
                    fin = np.isfinite(a[2]) & np.isfinite(b[2])
                    if not (np.array_equal(np.isfinite(a[2]), np.isfinite(b[2])) and np.allclose(b[2][fin], a[2][fin], rtol=1e-9, atol=1e-9) and np.allclose(b[1][fin], a[1][fin], rtol=1e-12, atol=1e-12)):
                        rec.violation('fit-variants|disagree|relative-path', {'which': what, 'source': si}, {'problem': 'the fit of the %s differs from the fit of the same package addressed by its absolute path' % what, 'chi2_abs': a[2], 'chi2_rel': b[2]})
                        break
        except Exception as e:
            from mc.runner import exc_signature
            rec.violation('fit-variants|relative-path|' + exc_signature(e), {'relative': True}, {'type': type(e).__name__, 'msg': str(e)[:300]})
        finally:
            os.chdir(cwd0)
    # ---- the package is used (fit, parameter listing) and then ANOTHER filter is convolved: the new file must follow the
    # parameter-table order like the earlier ones
    if n_models >= 2 and res.get(('v1', False)):
        try:
            import sedfitter
            sedfitter.write_parameters(res[('v1', False)][0], os.path.join(d, 'listing.txt'), select_format=('A', 0))
            fd = _mkfilter(np.linspace(nu_asc[q(3)], nu_asc[q(5)], 5), np.array([0.3, 1.0, 0.9, 0.6, 0.2]), 'FL', 2.2)
            fd.normalize()
            convolve_model_dir(md1, [fd])
            namesD, ffD, eeD, fwD, faD = _read_conv(os.path.join(md1, 'convolved', 'FL.fits'), n_models, n_ap)
            rec.trans(2)
            rec.ev(n_models)
            rec.cls('convolve-after-listing')
            if namesD != table_order:
                rec.violation('rows|order|v1|after-listing', {'filter': 'FL'}, {'rows': namesD, 'table_order': table_order, 'note': 'convolved after write_parameters had been called on this package'})
        except Exception as e:
            from mc.runner import exc_signature
            rec.violation('convolve-after-listing|' + exc_signature(e), {'filter': 'FL'}, {'type': type(e).__name__, 'msg': str(e)[:300]})
    if case.get('_deviations') == 0:
        rec.sample({'config': {k: v for k, v in case.items()}, 'table_order': table_order, 'filters': bands, 'v1_rows': outputs['v1'][bands[0]][0], 'v1_flux_first_row': outputs['v1'][bands[0]][1][0]})
