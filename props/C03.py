"""C03 -- data flags mean what the data-format page says.

Engine E1: every flag vector in {0,1,2,3,4,9}^n (n<=4 quick, n<=5 thorough),
both fitting modes, paired executions on one real Fitter:
 (a) junk under flags 0 / 9 must not change any output (bit-identical);
 (b) limit confidences all-0 / all-c / all-1 / limits re-flagged 0: fitted
     parameters unchanged (2-D), chi^2 moves by exactly -2 ln(1-c) per limit on
     whose forbidden side the fitted model lies; 3-D results judged by fitref;
 (c) flag-1 points replaced by the equivalent flag-4 points: identical fits.
"""
import itertools
import math

import numpy as np

from props import _fitcommon as fc
from ref import fitref

ID = 'C03'
LEVEL = 'model_checking'
TECHNIQUE = 'exhaustive enumeration of flag vectors with paired (metamorphic) executions on the real Fitter, plus the fitref oracle in the distance-dependent mode'
LEVEL_TEXT = ('Every flag vector over {0,1,2,3,4,9}^n, n<=4 (quick) / n<=5 (thorough), in both fitting modes: for each vector the source is fitted as is, '
              'with every junk value under every ignored position, with all limit confidences set to 0 / 0.3 / 0.9 / 1 and with limits re-flagged 0, '
              'and with flag-1 points rewritten as flag-4 points; outputs are compared pairwise (bit-identical for ignored content, exact penalty '
              'arithmetic for limits, 1e-12 for the flag-4 equivalence) on every model of the grid.')
LEVEL_NOTE = ('Photometry values from a finite alphabet (fixed + seed-derived); vectors whose regression is singular (fewer than two fitted points or equal '
              'extinction coefficients in the 2-parameter mode; no fitted point with k!=0 in the distance-dependent mode) are executed but only counted; a '
              'limit within 1e-9 dex of the fitted model may count either way. Trusts numpy.')
RULE = ("cases: (mode, grid, n, chunk of flag vectors); executions: ~12 Fitter.fit calls per vector (base, 4 junk values, 5 limit variants, flag-4 rewrite), "
        "each compared on every model; non-trivial = distinct (mode, grid, flag vector) inside the non-singular domain that contain an ignored point, a limit or a flag-1 point")
ASSUMPTIONS = ["finite value alphabets", "singular regressions are outside the quantifier"]
REQUIRED_CLASSES = ['ignored-band-vs-absent-band', 'grid-of-hundreds-of-models', 'integer-typed-photometry', 'limit-exactly-on-model', 'junk-with-remove-resolved', 'limits-different-confidences', 'reflag-in-place', 'junk-under-0', 'junk-under-9', 'nonpositive-junk-under-9', 'limit-lower-violated', 'limit-upper-violated', 'limit-not-violated',
                    'conf0-equals-flag0', 'conf1-violated-1e30', 'flag4-equivalence', 'mode-2d', 'mode-3d', 'singular-counted']
TIMEOUT = {'quick': 300, 'thorough': 1800}

JUNK = [-999.0, 0.0, 1e30, -1e-30]
# (flux, error) pairs put under ignored positions: the same junk in both columns, and junk flux with a sane error
JUNK_PAIRS = [(j, j) for j in JUNK] + [(0.0, 0.1), (-999.0, 0.1), (1e30, 1e-3)]
BANDSETS = {1: ['B1'], 2: ['B1', 'B3'], 3: ['B1', 'B3', 'B5'], 4: ['B1', 'B2', 'B4', 'B5'], 5: ['B1', 'B2', 'B3', 'B4', 'B5']}
CHUNK = 54


def setup(tier, seed):
    nmax = 4 if tier == 'quick' else 5
    out = []
    for mode in ('2d', '3d'):
        for grid in ((0,) if tier == 'quick' else (0, 1)):
            for n in range(1, nmax + 1):
                vecs = list(itertools.product(fc.FLAGS, repeat=n))
                for i in range(0, len(vecs), CHUNK):
                    out.append({'mode': mode, 'grid': grid, 'n': n, 'first': i, 'count': min(CHUNK, len(vecs) - i)})
    out.append({'mode': 'tie', 'grid': 0, 'n': 3, 'first': 0, 'count': 0})
    # scale: grids of a few hundred models (penalties and ignored bands for rows beyond 127 / 255), three-band vectors in chunks of 54
    for mode in ('2d', '3d'):
        for i in ((0, 54, 108, 162) if tier == 'quick' else range(0, 216, 54)):
            if tier == 'quick' and mode == '3d' and i in (0, 162):
                continue
            out.append({'mode': mode, 'grid': 0, 'n': 3, 'first': i, 'count': 54, 'big': 300 if tier == 'quick' else 600})
    return {'tier': tier, 'seed': seed, 'cases': out, 'psets': 2 if tier == 'quick' else 3}


def cases(ctx):
    return iter(ctx['cases'])


def evidence_extra(ctx):
    return {'bounds': 'all flag vectors n<=%d x 2 modes x %d grid(s) x %d photometry sets x (4 junk + 5 limit variants + flag-4 rewrite)' % (4 if ctx['tier'] == 'quick' else 5, 1 if ctx['tier'] == 'quick' else 2, ctx['psets']),
            'alphabet_digest': 'junk=%s seed=%d' % (JUNK, ctx['seed'])}


def _by_name(info, names):
    got = [str(x).strip() for x in np.asarray(info.model_name)]
    idx = {g: i for i, g in enumerate(got)}
    rows = [idx[n] for n in names]
    return (fc._asf(info.av)[rows], fc._asf(info.sc)[rows], fc._asf(info.chi2)[rows],
            None if info.model_fluxes is None else fc._asf(info.model_fluxes)[rows])


def _eq_exact(a, b):
    return all(np.array_equal(x, y, equal_nan=True) for x, y in zip(a, b))


def _close(a, b, tol):
    return all(np.allclose(x, y, rtol=tol, atol=tol, equal_nan=True) for x, y in zip(a, b))


def _exact_tie(ctx, case, rec, d):
    """A limit that coincides EXACTLY with the fitted model (same float through the same log10): the model is not on the
    forbidden side, so no penalty.  Distance-dependent mode, one aperture, A_V pinned at 0, d = 1 kpc exactly: the fitted
    model is the tabulated flux itself."""
    names = fc.names_for(4)
    bands = BANDSETS[3]
    tables = np.array([[[3.0], [7.0], [11.0]], [[5.0], [2.5], [40.0]], [[1.25], [9.0], [0.5]], [[6.0], [6.0], [6.0]]])      # (models, bands, 1 aperture)
    ap = np.array([500.0])
    md = fc.build_package(d, 'pkg', {'fmt': 'v1', 'names': names, 'bands': bands, 'apertures': ap, 'tables': tables, 'logd_step': 0.2})
    fitter = fc.make_fitter(md, bands, 'power', (0.0, 0.0), distance_range_kpc=(1.0, 1.0), memmap=False)
    for m in range(4):
        for jl in (1, 2):
            for kind in (2, 3):
                for conf in (0.5, 1.0):
                    fv = [1, 1, 1]
                    fv[jl] = kind
                    fl = tables[m, :, 0].copy()            # photometry = model m exactly
                    er = fl * 0.1
                    er[jl] = conf
                    info = fitter.fit(fc.make_source(fv, fl, er))
                    nm = [str(x).strip() for x in np.asarray(info.model_name)]
                    chi = float(fc._asf(info.chi2)[nm.index(names[m])])
                    rec.trans()
                    rec.ev()
                    rec.cls('limit-exactly-on-model')
                    rec.state(('tie', m, jl, kind, conf))
                    rec.nontriv(('tie', m, jl, kind, conf))
                    rec.outcome(round(chi, 6))
                    # fitted points of model m: log10 F - 0.5 (s/F)^2/ln10 vs log10 F  -> chi2 = 2 * (0.05/ ln10 * ln10 ... ) small and finite; no penalty
                    w, lf, le = fitref.log_transform(fv, fl, er)
                    expect = float(np.sum(w * (lf - np.log10(fl)) ** 2))
                    if abs(chi - expect) > 1e-9 * (1 + expect):
                        rec.violation('limits|penalty-on-exact-tie', {'model': names[m], 'band': jl, 'kind': kind, 'conf': conf},
                                      {'problem': 'a model lying exactly on the limit was penalised', 'chi2': chi, 'expected': expect, 'penalty': fitref.penalty(conf)})


def run_case(ctx, case, rec, d):
    if case['mode'] == 'tie':
        return _exact_tie(ctx, case, rec, d)
    seed = ctx['seed']
    n = case['n']
    bands = BANDSETS[n]
    mode = case['mode']
    nmod = case.get('big', 5)
    names = fc.names_for(nmod)
    if nmod > 256:
        rec.cls('grid-of-hundreds-of-models')
    k = fc.law_k('power', [fc.BAND_WAV[b] for b in bands])
    avlo, avhi = (0.0, 8.0)
    if mode == '2d':
        flux_all = fc.grid2d(seed * 10 + 3 + case['grid'], n_models=nmod, bands=fc.ALL_BANDS, special=False)
        cols = [fc.ALL_BANDS.index(b) for b in bands]
        spec = {'fmt': 'v1' if case['grid'] == 0 else 'v2', 'names': names, 'bands': fc.ALL_BANDS, 'flux': flux_all}
        md = fc.build_package(d, 'pkg', spec)
        fitter = fc.make_fitter(md, bands, 'power', (avlo, avhi), memmap=False)
        logm = np.log10(flux_all[:, cols])
        base_of = lambda p, ps: flux_all[p, cols] * 10 ** (1.5 * k) * 3.0
        rec.cls('mode-2d')
    else:
        ap, tables = fc.grid3d(seed * 10 + 5 + case['grid'], n_models=nmod, n_ap=4, bands=fc.ALL_BANDS)
        spec = {'fmt': 'v1' if case['grid'] == 0 else 'v2', 'names': names, 'bands': fc.ALL_BANDS, 'apertures': ap, 'tables': tables, 'logd_step': 0.2}
        # one model whose flux keeps rising steeply outwards: flagged as resolved at the nearer half of the trial distances (matters for
        # remove_resolved; the other models are only flagged at the nearest distance)
        tables[4] = tables[4][:, :1] * np.array([1.0, 1e3, 1e6, 1e9])[None, :]
        # ... and one that is extended in ONE band only (B3): whether it is removed depends on whether that band is used
        if nmod == 5:
            tables[3, 2, :] = tables[3, 2, 0] * np.array([1.0, 1e3, 1e6, 1e9])
        spec['tables'] = tables
        absent_fitters = {}
        md = fc.build_package(d, 'pkg', spec)
        dmin, dmax = 0.5, 5.0
        fitter = fc.make_fitter(md, bands, 'power', (avlo, avhi), distance_range_kpc=(dmin, dmax), memmap=False)
        fitter_rr = fc.make_fitter(md, bands, 'power', (avlo, avhi), distance_range_kpc=(dmin, dmax), memmap=False, remove_resolved=True)
        prob, grid = fc.judge_grid(fitter, dmin, dmax, 0.2)
        if prob:
            rec.violation('grid|%s' % prob.split(':')[0], {}, {'problem': prob})
            return
        cols = [fc.ALL_BANDS.index(b) for b in bands]
        logm3 = fitref.model_logflux_3d([tables[:, c, :] for c in cols], [ap] * n, [1.0] * n, grid)
        logd = np.log10(grid)
        base_of = lambda p, ps: 10 ** (logm3[p, (ps * 2 + 1) % len(grid), :] + 1.5 * k)
        rec.cls('mode-3d')
    vecs = list(itertools.product(fc.FLAGS, repeat=n))[case['first']:case['first'] + case['count']]
    cfg = (mode, case['grid'], n, nmod)
    sampled = False
    for fv in vecs:
        fitted = [j for j, v in enumerate(fv) if v in (1, 4)]
        if mode == '2d':
            nonsing = len(fitted) >= 2 and (max(k[fitted]) - min(k[fitted])) > 0.02
        else:
            nonsing = any(abs(k[j]) > 0.02 for j in fitted)
        for ps in range(ctx['psets']):
            planted = (ps + sum(fv)) % 5 if nmod == 5 else (ps * 97 + sum(fv) * 31) % nmod
            fl, er = fc.photometry(fv, base_of(planted, ps), ps if ps < 2 else ps + 4 * seed, conf_rot=sum(fv) + ps)
            for j, v in enumerate(fv):
                if v in (2, 3) and er[j] in (0.0, 1.0):
                    er[j] = 0.6            # base run: proper confidences; 0 and 1 are explored explicitly below
            fit = lambda f_, fl_, er_: fitter.fit(fc.make_source(f_, fl_, er_))
            base = fit(fv, fl, er)
            rec.trans()
            if not nonsing:
                rec.cls('singular-counted')
                rec.notes['singular-executed-not-judged'] += 1
                continue
            rec.state((cfg, fv, ps))
            b = _by_name(base, names)
            rec.outcome(tuple(np.round(b[2][:3], 5)))
            sub0 = {'flags': list(fv), 'pset': ps}
            interesting = False
            # ---- (a) junk under ignored positions
            ign = [j for j, v in enumerate(fv) if v in (0, 9)]
            if ign:
                interesting = True
                for junk, junk_e in JUNK_PAIRS:
                    f2, e2 = fl.copy(), er.copy()
                    for j in ign:
                        f2[j] = junk
                        e2[j] = junk_e
                    r = _by_name(fit(fv, f2, e2), names)
                    rec.trans()
                    rec.ev(len(names))
                    if 0 in fv:
                        rec.cls('junk-under-0')
                    if 9 in fv:
                        rec.cls('junk-under-9')
                        if junk <= 0:
                            rec.cls('nonpositive-junk-under-9')
                    if not _eq_exact(b, r):
                        resp = []
                        for wflag in (0, 9):
                            if wflag in fv and not _eq_exact(b, _by_name(fit(fv, *_junk_only(fv, fl, er, junk, wflag, junk_e)), names)):
                                resp.append(str(wflag))
                        which = '+'.join(resp) or 'combined'
                        sign = 'nonpositive' if junk <= 0 else 'positive'
                        rec.violation('ignored|flag-%s|%s-junk' % (which, sign), dict(sub0, junk=junk, junk_err=junk_e),
                                      {'problem': 'outputs change when ignored points carry %r' % junk, 'mode': mode,
                                       'base_av': b[0], 'junk_av': r[0], 'base_chi2': b[2], 'junk_chi2': r[2]})
            # ---- (a') the same with resolved models removed (distance-dependent mode): ignored content still must not matter
            if ign and mode == '3d':
                b_rr = _by_name(fitter_rr.fit(fc.make_source(fv, fl, er)), names)
                for junk, junk_e in JUNK_PAIRS + [(7.5, 0.3)]:
                    f2, e2 = fl.copy(), er.copy()
                    for j in ign:
                        f2[j] = junk
                        e2[j] = junk_e
                    r = _by_name(fitter_rr.fit(fc.make_source(fv, f2, e2)), names)
                    rec.trans()
                    rec.ev(len(names))
                    rec.cls('junk-with-remove-resolved')
                    if not _eq_exact(b_rr, r):
                        rec.violation('ignored|remove-resolved|%s-junk' % ('nonpositive' if junk <= 0 else 'positive'), dict(sub0, junk=junk, junk_err=junk_e),
                                      {'problem': 'with remove_resolved the outputs change when ignored points carry %r' % junk, 'base_chi2': b_rr[2], 'junk_chi2': r[2]})
            # ---- (a''') an ignored band is as good as absent: the same source without its flag-0/9 bands, fitted by a fitter that was
            # never told about those bands, gives the same A_V, scale and chi^2 (resolved models removed or not)
            if ign and mode == '3d' and nmod == 5 and ps == 0 and len(ign) < n:
                keep_j = [j for j in range(n) if j not in ign]
                key_j = tuple(keep_j)
                if key_j not in absent_fitters:
                    kb = [bands[j] for j in keep_j]
                    absent_fitters[key_j] = (fc.make_fitter(md, kb, 'power', (avlo, avhi), distance_range_kpc=(dmin, dmax), memmap=False),
                                             fc.make_fitter(md, kb, 'power', (avlo, avhi), distance_range_kpc=(dmin, dmax), memmap=False, remove_resolved=True))
                for which_rr, (ft_all, ft_abs) in (('', (fitter, absent_fitters[key_j][0])), ('remove_resolved', (fitter_rr, absent_fitters[key_j][1]))):
                    if which_rr and any(fv[j] == 9 for j in ign):
                        continue          # whether a plot-only band takes part in the removal of resolved models is not something the statement settles
                    fv_k = tuple(fv[j] for j in keep_j)
                    ra = _by_name(ft_all.fit(fc.make_source(fv, fl, er)), names)
                    rb = _by_name(ft_abs.fit(fc.make_source(fv_k, fl[keep_j], er[keep_j])), names)
                    rec.trans(2)
                    rec.ev(len(names))
                    rec.cls('ignored-band-vs-absent-band')
                    same = all(np.allclose(x_, y_, rtol=1e-9, atol=1e-9, equal_nan=True) for x_, y_ in zip(ra[:3], rb[:3]))
                    if not same:
                        rec.violation('ignored|band-not-as-good-as-absent%s' % ('|remove-resolved' if which_rr else ''), dict(sub0, kept_bands=[bands[j] for j in keep_j]),
                                      {'problem': 'the fit with the ignored band(s) present differs from the fit of a fitter built without them', 'with_band': [ra[1], ra[2]], 'without_band': [rb[1], rb[2]]})
            # ---- (a'') whole-number photometry handed over as python ints: a half-integer change under an ignored flag must not matter,
            # and the fit must equal the one of the same numbers given as floats
            if ps == 0 and 4 not in fv and n >= 2:
                fi = np.maximum(np.round(fl * 100.0), 1.0)
                ei = np.array([float(int(round(e_))) if v_ in (2, 3) else max(round(e_ * 100.0), 1.0) for v_, e_ in zip(fv, er)])
                r_float = _by_name(fit(fv, fi, ei), names)
                r_int = _by_name(fitter.fit(fc.make_source(fv, fi, ei, as_int=True)), names)
                rec.trans(2)
                rec.ev(len(names))
                rec.cls('integer-typed-photometry')
                if not _eq_exact(r_float, r_int):
                    rec.violation('integer-photometry|differs-from-float', sub0, {'problem': 'the same whole numbers give another fit when passed as ints', 'float_av': r_float[0], 'int_av': r_int[0]})
            # ---- (a''') the flag column handed over with another integer type (an unsigned byte is what a FITS 'B' column gives):
            # the flags mean the same whatever integer type carries them
            if ps == 0 and n >= 2:
                r_i64 = _by_name(fit(fv, fl, er), names)
                rec.trans()
                for dt_ in (np.uint8, np.int16):
                    s_dt = fc.make_source(fv, fl, er)
                    s_dt.valid = np.array(fv, dtype=dt_)
                    r_dt = _by_name(fitter.fit(s_dt), names)
                    rec.trans()
                    rec.ev(len(names))
                    rec.cls('flags-as-' + np.dtype(dt_).name)
                    if not _eq_exact(r_i64, r_dt):
                        rec.violation('flag-dtype|differs-from-int64', dict(sub0, dtype=np.dtype(dt_).name),
                                      {'problem': 'the same flags give another fit when the flag array has dtype %s' % np.dtype(dt_).name, 'int64_chi2': r_i64[2], 'other_chi2': r_dt[2]})
            # ---- (b) limits
            lim = [j for j, v in enumerate(fv) if v in (2, 3)]
            if lim:
                interesting = True
                f0 = tuple(0 if v in (2, 3) else v for v in fv)
                r0 = _by_name(fit(f0, fl, er), names)
                rec.trans()
                if mode == '2d':
                    pred = logm + r0[0][:, None] * k[None, :] - 2.0 * r0[1][:, None]
                else:
                    pred = r0[3]           # predicted log fluxes of the limits-as-0 run (alignment judged in C04)
                for conf in (0.0, 0.3, 0.9, 1.0, None, 'mixed'):
                    e2 = er.copy()
                    if conf == 'mixed':        # a different confidence on every limit
                        for q, j in enumerate(lim):
                            e2[j] = [0.25, 0.85, 0.5, 0.95, 0.1][q % 5]
                        if len(lim) >= 2:
                            rec.cls('limits-different-confidences')
                    elif conf is not None:
                        for j in lim:
                            e2[j] = conf
                    info_c = fit(fv, fl, e2)
                    r = _by_name(info_c, names)
                    rec.trans()
                    rec.ev(len(names))
                    if mode == '3d':
                        probs, st = fc.judge_3d(info_c, (list(fv), fl, e2), names, logm3, logd, k, avlo, avhi)
                        for kind, detail in probs:
                            rec.violation('limits3d|%s' % kind, dict(sub0, conf=conf), {'problem': detail, 'flux': fl, 'error': e2})
                        if conf == 0.0:
                            rec.cls('conf0-equals-flag0')
                            if not _close(r[:3], r0[:3], 1e-12):
                                rec.violation('limits|conf0-not-flag0', dict(sub0, conf=conf), {'mode': mode, 'conf0_chi2': r[2], 'flag0_chi2': r0[2]})
                        if not probs and st:
                            ls = fc.limit_stats(list(fv), st['ref']['lf'], st['ref']['le'], st['ref']['pred'][np.arange(len(names)), st['jbest'], :])
                            rec.cls('limit-not-violated', ls['lim_satisfied'])
                            if ls['lim_violated']:
                                rec.cls('limit-lower-violated' if 2 in fv else 'limit-upper-violated', ls['lim_violated'])
                                if 2 in fv and 3 in fv:
                                    rec.cls('limit-upper-violated')
                            if conf == 1.0 and ls['lim_violated']:
                                rec.cls('conf1-violated-1e30')
                        continue
                    # 2-D: parameters identical to the limits-as-0 run; chi2 = chi2_0 + sum of penalties
                    if not _close(r[:2], r0[:2], 1e-12):
                        rec.violation('limits|enter-solution', dict(sub0, conf=conf), {'problem': 'A_V/scale differ from the run with limits flagged 0',
                                                                                        'av': r[0], 'av_flag0': r0[0], 'sc': r[1], 'sc_flag0': r0[1]})
                        continue
                    lo = r0[2].copy()
                    hi = r0[2].copy()
                    nviol = np.zeros(len(names), int)
                    for j in lim:
                        c = e2[j]
                        pen = fitref.penalty(c)
                        dlt = pred[:, j] - math.log10(fl[j])
                        viol = (dlt < 0) if fv[j] == 2 else (dlt > 0)
                        amb = np.abs(dlt) < 1e-9
                        lo += np.where(viol & ~amb, pen, 0.0)
                        hi += np.where(viol | amb, pen, 0.0)
                        nviol += viol
                        rec.cls('limit-lower-violated' if fv[j] == 2 else 'limit-upper-violated', int(np.sum(viol)))
                        rec.cls('limit-not-violated', int(np.sum(~viol)))
                    tol = 1e-9 * (1 + np.abs(hi))
                    if np.any(r[2] < lo - tol) or np.any(r[2] > hi + tol):
                        m = int(np.argmax((r[2] < lo - tol) | (r[2] > hi + tol)))
                        rec.violation('limits|penalty', dict(sub0, conf=conf),
                                      {'problem': 'chi2 differs from chi2(limits ignored) + sum of -2ln(1-c) over violated limits', 'model': names[m],
                                       'chi2': r[2][m], 'chi2_flag0': r0[2][m], 'expected_range': [lo[m], hi[m]], 'n_violated': int(nviol[m]), 'confidences': e2[lim]})
                    if conf == 0.0:
                        rec.cls('conf0-equals-flag0')
                    if conf == 1.0 and np.any(nviol > 0):
                        rec.cls('conf1-violated-1e30')
                        if np.any(r[2][nviol > 0] < 1e30):
                            rec.violation('limits|conf1-below-1e30', dict(sub0, conf=conf), {'chi2': r[2], 'n_violated': nviol})
            # ---- (c) flag 1 -> flag 4
            ones = [j for j, v in enumerate(fv) if v == 1]
            if ones:
                interesting = True
                f4 = list(fv)
                fl4, er4 = fl.copy(), er.copy()
                for j in ones:
                    f4[j] = 4
                    fl4[j] = math.log10(fl[j]) - 0.5 * (er[j] / fl[j]) ** 2 / fitref.LN10
                    er4[j] = abs(er[j] / fl[j]) / fitref.LN10
                r = _by_name(fit(tuple(f4), fl4, er4), names)
                rec.trans()
                rec.ev(len(names))
                rec.cls('flag4-equivalence')
                if mode == '3d':
                    # the best distance is only determined where the chi2(d) minimum is unique: compare chi2
                    # everywhere, and (A_V, scale, predictions) for the models whose minimum is isolated
                    ref = fitref.fit3d(list(fv), fl, er, logm3, k, avlo, avhi)
                    srt = np.sort(ref['chi2_hi'], axis=1)
                    uniq = (srt[:, 1] - srt[:, 0] > 1e-6 * (1 + srt[:, 0])) if srt.shape[1] > 1 else np.ones(len(names), bool)
                    ok = np.allclose(b[2], r[2], rtol=1e-9, atol=1e-9) and _close([x[uniq] for x in b], [x[uniq] for x in r], 1e-9)
                else:
                    # the two sources differ in the last bit of their log fluxes (two ways of taking a logarithm); what that does to (A_V, scale)
                    # is bounded by the sensitivity of this regression, which the reference measures
                    ref_ = fitref.fit2d(list(fv), fl, er, logm, k, avlo, avhi)
                    sens_, cond_ = ref_['sens'], ref_['cond']
                    if not np.isfinite(cond_) or cond_ > 1e4:
                        rec.notes['flag4-equivalence-skipped-ill-conditioned'] += 1          # (as in C01: such regressions are outside the quantifier)
                        ok = True
                    else:
                        # normal equations solved through their determinant lose cond^2 * eps: the last-bit difference of the inputs may come back that large
                        tolp = 1e-12 + 1e-14 * sens_ + 4e-15 * cond_ ** 2
                        ok = np.allclose(b[2], r[2], rtol=1e-9, atol=1e-9, equal_nan=True) and _close(b[:2], r[:2], tolp) and _close(b[3:], r[3:], 10 * tolp)
                if not ok:
                    rec.violation('flag4|not-equivalent', sub0, {'mode': mode, 'base_av': b[0], 'flag4_av': r[0], 'base_sc': b[1], 'flag4_sc': r[1], 'base_chi2': b[2], 'flag4_chi2': r[2]})
            # ---- (d) the same Source object re-flagged / re-valued in place between fits must behave like a fresh one
            if n >= 2 and ps == 0:
                s_live = fc.make_source(fv, fl, er)
                fitter.fit(s_live)
                rec.trans()
                for jpos in range(n):
                    for newflag in (0, 9, 1):
                        if fv[jpos] == newflag:
                            continue
                        f2 = list(fv)
                        f2[jpos] = newflag
                        fit2 = [j for j, v in enumerate(f2) if v in (1, 4)]
                        ok_dom = (len(fit2) >= 2 and (max(k[fit2]) - min(k[fit2])) > 0.02) if mode == '2d' else any(abs(k[j]) > 0.02 for j in fit2)
                        if not ok_dom or (newflag == 1 and fv[jpos] in (2, 3, 4)):
                            continue
                        s_live.valid = np.array(f2)
                        r_live = _by_name(fitter.fit(s_live), names)
                        r_fresh = _by_name(fit(tuple(f2), fl, er), names)
                        rec.trans(2)
                        rec.ev(len(names))
                        rec.cls('reflag-in-place')
                        interesting = True
                        if not _eq_exact(r_live, r_fresh):
                            rec.violation('reflag|stale-state-in-source', dict(sub0, pos=jpos, newflag=newflag),
                                          {'problem': 'a Source whose flags were re-assigned gives a different fit than a fresh Source with the same content',
                                           'live_av': r_live[0], 'fresh_av': r_fresh[0]})
                        s_live.valid = np.array(fv)
                        # values re-assigned in place as well
                        s_live.flux = fl * 1.0
                        s_live.error = er * 1.0
            if interesting:
                rec.nontriv((cfg, fv))
                rec.trace()
            if not sampled and len(fv) >= 3 and ign and lim:
                rec.sample({'mode': mode, 'flags': list(fv), 'flux': fl, 'error': er, 'paired_runs': 'junk %s under flags 0/9; confidences 0,0.3,0.9,1; limits as flag 0; flag 1 -> 4' % JUNK})
                sampled = True


def _junk_only(fv, fl, er, junk, which, junk_e=None):
    f2, e2 = fl.copy(), er.copy()
    for j, v in enumerate(fv):
        if v == which:
            f2[j] = junk
            e2[j] = junk if junk_e is None else junk_e
    return f2, e2
