"""C20 -- source lines are parsed by the documented column layout or rejected.

Engine E1 (shape enumerator): every column count 0..3n+6 of every enumerated
(n, flag vector, value placement, separator) line is parsed by the real
Source.from_ascii and compared with a reference parser written from
docs/data.rst; well-formed lines are additionally pushed through to_ascii,
to_dict/from_dict and pickle.
"""
import itertools
import pickle

import numpy as np

from mc.canon import canon
from ref import parseref

ID = 'C20'
LEVEL = 'model_checking'
TECHNIQUE = 'bounded-exhaustive enumeration of line shapes (n, flag vector, column count, token kinds) run through the real parser against a reference parser'
LEVEL_TEXT = ('All n in 0..12, every flag vector over {0,1,2,3,4,9} for small n (and every vector within Hamming distance 2 of two '
              'base vectors for larger n), every column count 0..3n+6 obtained by cutting or padding, invalid flags at every '
              'position, values from an alphabet spanning 60 decades placed so that every (position, value) pair occurs: each '
              'line is parsed by the real Source.from_ascii and the outcome class (parsed / rejected / end of input) and every '
              'parsed value are compared with a reference parser; round trips through to_ascii (printed precision), dict and '
              'pickle are checked on every well-formed line.')
LEVEL_NOTE = ('Exhaustive over line *shapes* within the bound; numeric tokens come from a finite alphabet (plus seed-derived values). '
              'A cut/padded line whose column count is another multiple of three is judged by the documented layout for that n. '
              'Trusts Python float()/int() as the meaning of a numeric token.')
RULE = ("cases: (n, flag vector) pairs; executions: for each, the well-formed line in 3 separator styles, every column count "
        "0..3n+6 (cut / padded), each invalid flag at each position, round trips; non-trivial = distinct lines that are either "
        "malformed-but-at-least-3-columns or well-formed with n>=1")
ASSUMPTIONS = ["numeric tokens are drawn from a finite alphabet + seed-derived values; names have no spaces",
               "tokens such as '1.0' or '1_0' in a flag column are not generated (their status as integers is not specified)"]
REQUIRED_CLASSES = ['line-parsed-again-after-first-result-edited', 'name-with-braces', 'looked-at-between-parsing-and-formatting', 'eof', 'rejected-count', 'rejected-flag', 'ok', 'reinterpreted-as-other-n', 'n=0', 'n=12',
                    'roundtrip-ascii', 'roundtrip-pickle', 'roundtrip-dict', 'name-40', 'tabs', 'negative-and-placeholder', 'earlier-sources-rechecked', 'name-with-hash', 'edited-in-place-then-formatted-again']

FLAGS = (0, 1, 2, 3, 4, 9)
BADFLAGS = ['5', '8', '10', '-1', '1.5', '7', '-7', '-12', '-16', '15', '16', '255', '256', '-128', '99', '-9']
VALS = [1e-30, 3.217e-7, 1.0, 2.5e3, 9.999e29, -1.5, -999.0, 0.0, -999.4, -9990.0, -9995.25, -999999.0]          # (values that merely begin like the -999 placeholder are values)
INTLIKE = ['1', '0', '3', '2', '4', '9']          # flux/error tokens that would also be valid flags


def setup(tier, seed):
    rng = np.random.default_rng(seed)
    nfull = 4 if tier == 'quick' else 5
    work = []
    for n in range(0, nfull + 1):
        for fv in itertools.product(FLAGS, repeat=n):
            work.append((n, list(fv)))
    for n in range(nfull + 1, 13):
        bases = [[FLAGS[(i + n) % 6] for i in range(n)], [1] * n]
        seen = set()
        for b in bases:
            cand = [tuple(b)]
            for i in range(n):
                for a in FLAGS:
                    v = list(b)
                    v[i] = a
                    cand.append(tuple(v))
            if tier == 'thorough' or n <= 8:
                for i, j in itertools.combinations(range(n), 2):
                    for a, c in itertools.product(FLAGS, repeat=2):
                        v = list(b)
                        v[i] = a
                        v[j] = c
                        cand.append(tuple(v))
            for c in cand:
                if c not in seen:
                    seen.add(c)
                    work.append((n, list(c)))
    extra_vals = [float('%.6e' % (10 ** rng.uniform(-30, 30) * (1 if rng.random() < 0.8 else -1))) for _ in range(8)]
    return {'tier': tier, 'seed': seed, 'work': work, 'vals': VALS + extra_vals}


def cases(ctx):
    w = ctx['work']
    step = 40
    for i in range(0, len(w), step):
        yield {'first': i, 'items': w[i:i + step]}


def evidence_extra(ctx):
    return {'bounds': 'n 0..12; all flag vectors for n<=%d; Hamming<=2 neighbourhoods of 2 base vectors above; every column count 0..3n+6' % (4 if ctx['tier'] == 'quick' else 5),
            'alphabet_digest': 'vals=%s' % ctx['vals']}


def _tok(v, style):
    if style == 0:
        return repr(float(v))
    if style == 1:
        return '%.3e' % v
    return '%11.3e' % v


def _outcome(line):
    from sedfitter.source import Source
    try:
        s = Source.from_ascii(line)
    except EOFError:
        return ('eof',), None
    except Exception as e:
        return ('err', type(e).__name__), None
    return ('ok',), s


def _cmp_ok(exp, s):
    _, name, x, y, flags, fl, er = exp
    if s.name != name:
        return 'name'
    if float(s.x) != x or float(s.y) != y:
        return 'coordinates'
    if s.valid is None or list(np.asarray(s.valid).tolist()) != flags:
        return 'flags'
    if s.flux is None or not np.array_equal(np.asarray(s.flux, float), np.array(fl, float)):
        return 'flux<->column association'
    if s.error is None or not np.array_equal(np.asarray(s.error, float), np.array(er, float)):
        return 'error<->column association'
    return None


_ALIVE = []


def _judge(rec, line, sub, tag):
    exp = parseref.parse(line)
    got, s = _outcome(line)
    rec.ev()
    rec.trans()
    rec.state(line)
    rec.outcome((exp[0], got[0]))
    if exp[0] != got[0]:
        rec.violation('from_ascii|%s-expected|got-%s' % (exp[0], got[0]), sub,
                      {'line': line, 'expected': exp[:2], 'got': got, 'why': tag})
        return None
    if exp[0] == 'ok':
        # sources parsed earlier and still alive must not be touched by a later parse
        for old_s, old_exp, old_line in _ALIVE:
            rec.ev()
            if _cmp_ok(old_exp, old_s):
                rec.violation('from_ascii|earlier-source-overwritten', sub, {'earlier_line': old_line, 'problem': _cmp_ok(old_exp, old_s), 'parsed_now': line})
                del _ALIVE[:]
                break
        _ALIVE.append((s, exp, line))
        if len(_ALIVE) > 3:
            _ALIVE.pop(0)
            rec.cls('earlier-sources-rechecked')
        bad = _cmp_ok(exp, s)
        if bad:
            rec.violation('from_ascii|mis-assigned|%s' % bad.split('<')[0], sub,
                          {'line': line, 'problem': bad, 'expected': exp[1:], 'got': [s.name, s.x, s.y, s.valid, s.flux, s.error]})
            return None
        rec.cls('ok')
        return s
    if exp[0] == 'eof':
        rec.cls('eof')
    else:
        rec.cls('rejected-flag' if 'flag' in exp[1] else 'rejected-count' if 'column count' in exp[1] else 'rejected-other')
    return None


def _roundtrips(rec, s, sub):
    from sedfitter.source import Source
    # ascii: printed precision (%9.5f coordinates, %11.3e values)
    try:
        line = s.to_ascii()
        s2 = Source.from_ascii(line)
        ok = (s2.name == s.name and abs(s2.x - s.x) <= 5.1e-6 and abs(s2.y - s.y) <= 5.1e-6 and
              list(s2.valid) == list(s.valid) and
              np.allclose(s2.flux, s.flux, rtol=5.1e-4, atol=0) and np.allclose(s2.error, s.error, rtol=5.1e-4, atol=0))
        exp = parseref.parse(line)
        ok = ok and exp[0] == 'ok' and _cmp_ok(exp, s2) is None
    except Exception as e:
        ok = False
        line = 'exception %s: %s' % (type(e).__name__, e)
    rec.ev()
    rec.cls('roundtrip-ascii')
    if not ok:
        rec.violation('to_ascii|roundtrip', sub, {'formatted': line, 'source': [s.name, s.x, s.y, s.valid, s.flux, s.error]})
    # the same line parsed a second time, after the first result has been edited in place by its owner: the second result shows the line
    if s.n_wav:
        try:
            line = s.to_ascii()
            t = Source.from_ascii(line)
            t.flux *= 1e-3
            t.error += 1.0
            t.valid[0] = 0 if int(t.valid[0]) != 0 else 1
            u_ = Source.from_ascii(line)
            exp = parseref.parse(line)
            ok = exp[0] == 'ok' and _cmp_ok(exp, u_) is None
        except Exception as e:
            ok = False
        rec.ev()
        rec.cls('line-parsed-again-after-first-result-edited')
        if not ok:
            rec.violation('from_ascii|second-parse-shows-edits-of-first', sub, {'line': line, 'problem': 'parsing the same line again after the first result was changed in place does not give the line\'s values'})
    # a value and a flag changed in place after the first formatting: the second formatting shows the source as it is now
    if s.n_wav:
        try:
            s.to_ascii()
            j = s.n_wav - 1
            old_v, old_f = int(s.valid[j]), float(s.flux[j])
            s.valid[j] = 0 if old_v != 0 else 9
            s.flux[j] = 4.25 if old_f != 4.25 else 8.5
            s3 = Source.from_ascii(s.to_ascii())
            ok = int(s3.valid[j]) == int(s.valid[j]) and abs(s3.flux[j] - s.flux[j]) <= 5.1e-4 * abs(s.flux[j])
            s.valid[j] = old_v
            s.flux[j] = old_f
        except Exception as e:
            ok = False
        rec.ev()
        rec.cls('edited-in-place-then-formatted-again')
        if not ok:
            rec.violation('to_ascii|stale-after-in-place-edit', sub, {'problem': 'to_ascii after an in-place change of a flag and a value does not show the change'})
    # looking at a source (its log-flux transform, its printed form) between parsing and formatting changes nothing
    if s.n_wav:
        before = canon(s)
        line0 = s.to_ascii()
        try:
            with np.errstate(all='ignore'):
                s.get_log_fluxes()
                str(s)
                s.get_log_fluxes()
            ok = (canon(s) == before and s.to_ascii() == line0)
        except Exception as e:
            ok = True          # (whether such a source can be transformed at all is not this property's business)
        rec.ev()
        rec.cls('looked-at-between-parsing-and-formatting')
        if not ok:
            rec.violation('to_ascii|changed-by-looking', sub, {'problem': 'after get_log_fluxes() / str() the source formats differently', 'before': line0, 'after': s.to_ascii()})
    c0 = canon(s)
    for nm, f in (('pickle', lambda z: pickle.loads(pickle.dumps(z, 2))), ('dict', lambda z: Source.from_dict(z.to_dict()))):
        try:
            z = f(s)
            ok = canon(z) == c0
        except Exception as e:
            ok = False
        rec.ev()
        rec.cls('roundtrip-' + nm)
        if not ok:
            rec.violation('source|roundtrip-%s' % nm, sub, {'source': [s.name, s.x, s.y, s.valid, s.flux, s.error]})


def run_case(ctx, case, rec, d):
    del _ALIVE[:]
    vals = ctx['vals']
    for k, (n, flags) in enumerate(case['items']):
        idx = case['first'] + k
        rot = idx + ctx['seed']
        fl = [vals[(i * 3 + rot) % len(vals)] for i in range(n)]
        er = [vals[(i * 5 + 1 + rot // 3) % len(vals)] for i in range(n)]
        name = ['s', 'SSTGLMC_G009.8925-00.3420', 'n' * 30, 'x' * 40, 'IRAS#16293-2422', 'a+b:c;d%e', '#1', 'src{x}', '{}', '{0}%s\\n', 'na\u00efve-\u03b2', "it's", '"q"', '{name:>5}'][idx % 14]
        if '{' in name:
            rec.cls('name-with-braces')
        if '#' in name:
            rec.cls('name-with-hash')
        style = idx % 3
        base = [name, '12.34567', '-0.5'] + [str(f) for f in flags]
        for a, b in zip(fl, er):
            base += [_tok(a, style), _tok(b, style)]
        sub = {'n': n, 'flags': flags, 'idx': idx}
        if n == 0:
            rec.cls('n=0')
        if n == 12:
            rec.cls('n=12')
        if len(name) == 40:
            rec.cls('name-40')
        if any(v < 0 for v in fl + er):
            rec.cls('negative-and-placeholder')
        # well-formed line, three separator styles
        for sep in (' ', '\t', '   \t '):
            if sep != ' ':
                rec.cls('tabs')
            line = sep.join(base) + ('\n' if idx % 2 else '')
            s = _judge(rec, line, dict(sub, sep=sep), 'well-formed')
            if s is not None and sep == ' ':
                if n >= 1:
                    rec.nontriv(line)
                _roundtrips(rec, s, dict(sub, what='roundtrip'))
        # every column count 0 .. 3n+6: cut, or padded with value-like tokens
        for pad_kind in (0, 1):
            padtok = ['7.5', INTLIKE[idx % 6]][pad_kind]
            cols = list(base)
            if pad_kind == 1:
                # integer-looking flux/error tokens: a cut/padded line can be a well-formed line for another n
                cols = base[:3 + n] + [INTLIKE[(i + idx) % 6] for i in range(2 * n)]
            for ncol in range(0, 3 * n + 7):
                if ncol == len(cols) and pad_kind == 0:
                    continue
                line = ' '.join(cols[:ncol] if ncol <= len(cols) else cols + [padtok] * (ncol - len(cols)))
                exp = parseref.parse(line)
                if exp[0] == 'ok' and ncol != len(cols):
                    rec.cls('reinterpreted-as-other-n')
                if ncol >= 3 and ncol != len(cols):
                    rec.nontriv(line)
                _judge(rec, line, dict(sub, ncol=ncol, pad_kind=pad_kind), 'cut/padded to %d columns' % ncol)
        # invalid flags at every position
        for pos in range(n):
            bf = BADFLAGS[(pos + idx) % len(BADFLAGS)]
            cols = list(base)
            cols[3 + pos] = bf
            line = ' '.join(cols)
            rec.nontriv(line)
            _judge(rec, line, dict(sub, badflag=bf, pos=pos), 'invalid flag')
        if k == 0:
            rec.sample({'n': n, 'flags': flags, 'line': ' '.join(base), 'column_counts_tried': '0..%d' % (3 * n + 6)})
