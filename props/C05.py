"""C05 -- selection tuples keep exactly the fits the syntax page promises.

Engine E2: explicit-state search over operation sequences on real FitInfo
objects.  A state is the history (initial ranked vector, n_data variant,
model_fluxes present?, selectors applied); objects are rebuilt by replaying
the history on fresh objects.  Its identity is canon(FitInfo) (every field,
plus any attribute a changed implementation might add).  The reachable set is
finite (prefixes of the ranking), so the breadth-first search runs to its
fixpoint: every selector is applied in *every* reachable state, not only up to
a depth.  On top of that, every pair (first, second) of selectors is executed
from every reachable state without deduplication for the two relational
claims (idempotence; looser selector first).
"""
import itertools

import numpy as np

from ref import selref

ID = 'C05'
LEVEL = 'model_checking'
TECHNIQUE = 'explicit-state BFS to fixpoint over selector histories on the real FitInfo objects, against a pure-Python reference'
LEVEL_TEXT = ('Every selector is applied in every reachable state of every ranked chi^2 vector of length 0..5 over an alphabet '
              'with ties, inf and NaN (and of seed-derived longer vectors), and every ordered pair of selectors is executed '
              'from those states; each step is compared with a ten-line reference and the prefix/equal-length invariants. '
              'The state space is finite, the search runs to its fixpoint, so histories of any length are covered for the '
              'enumerated vectors.')
LEVEL_NOTE = ('Exhaustive over the stated finite alphabet only (real-valued chi^2 cannot be enumerated); thresholds exactly equal '
              'to an attained statistic are outside the quantifier; trusts numpy slicing and the canonical encoding of FitInfo.')
RULE = ("initial states: every non-decreasing chi^2 vector (NaN last) of length 0..Lmax over "
        "{0.5,1.5,3,7,inf,nan} (repetition = ties) x 3 n_data variants (real Source flag vectors that also hold "
        "flags 0,2,3,9) x model_fluxes present/None, plus seed-derived longer vectors, plus (thorough) every "
        "unsorted vector pushed through the real FitInfo.sort(); transitions: the real FitInfo.keep with each of "
        "31 selectors in every reachable state (BFS to fixpoint, canonical-hash deduplication) and every ordered "
        "pair of selectors from every reachable state; a case is non-trivial if at least one selector cuts the "
        "list strictly between 0 and its full length")
ASSUMPTIONS = [
    "thresholds are offset from every attainable statistic (checked by the driver), equality is outside the quantifier",
    "real-valued chi^2 are instantiated from a finite alphabet containing ties, +inf and NaN plus seed-derived values",
    "two FitInfo objects with equal canonical encoding (all fields and all instance attributes) have equal futures",
]
REQUIRED_CLASSES = ['source-with-no-fitted-point', 'statistics-need-double-precision', 'ranking-of-hundreds-of-fits', 'n>total', 'empty-vector', 'all-inf', 'nan-present', 'tie-straddles-N-cut',
                    'cut-strictly-inside', 'kept-all', 'kept-none', 'model_fluxes-None', 'unsorted-through-sort',
                    'longer-vector', 'flags-changed-on-live-source']

INF = float('inf')
NAN = float('nan')
ALPHA = [0.5, 1.5, 3.0, 7.0, INF, NAN]
THRESH = [0.26, 0.9, 2.2, 4.1, 10.3, 2e30]
SELECTORS = [('A', 0)] + [('N', n) for n in (0, 1, 2, 3, 5, 7)] + [(f, v) for f in 'CDEF' for v in THRESH]
FLAGSETS = {1: [1, 0, 2], 2: [1, 4, 3, 9], 3: [1, 1, 4, 0, 2]}
NODATA_FLAGS = [2, 3, 9, 0]


def _enc(chi):
    return ['nan' if c != c else ('inf' if c == INF else c) for c in chi]


def _dec(chi):
    return [NAN if c == 'nan' else (INF if c == 'inf' else float(c)) for c in chi]


def _check_thresholds(chi, thresholds=THRESH):
    for nd in FLAGSETS:
        for x in selref.attained([c for c in chi], nd):
            for v in thresholds:
                if abs(x - v) <= 1e-9 * max(1.0, abs(v)):
                    return False
    return True


def setup(tier, seed):
    lmax = 5
    ranked = []
    for L in range(0, lmax + 1):
        for c in itertools.combinations_with_replacement(range(len(ALPHA)), L):
            ranked.append([ALPHA[i] for i in c])
    for chi in ranked:
        assert _check_thresholds(chi), chi
    # seed-derived longer ranked vectors (values on a lattice that is re-drawn
    # until no threshold is hit exactly)
    rng = np.random.default_rng(seed)
    longer = []
    n_long = 24 if tier == 'quick' else 120
    while len(longer) < n_long:
        L = int(rng.integers(6, 13))
        vals = list(np.round(rng.uniform(0.05, 12.0, L), 3) + 0.0007)
        k = int(rng.integers(0, 4))
        for _ in range(k):
            vals[int(rng.integers(0, L))] = [INF, NAN, vals[0], vals[-1]][int(rng.integers(0, 4))]
        fin = sorted(v for v in vals if v == v)
        chi = [float(v) for v in fin] + [NAN] * (L - len(fin))
        if _check_thresholds(chi):
            longer.append(chi)
    unsorted_vecs = []
    if tier == 'thorough':
        for L in range(2, lmax + 1):
            for c in itertools.product(range(len(ALPHA)), repeat=L):
                v = [ALPHA[i] for i in c]
                if any(not (v[i] <= v[i + 1]) and not (v[i + 1] != v[i + 1]) for i in range(L - 1)) or \
                   any(v[i] != v[i] and v[i + 1] == v[i + 1] for i in range(L - 1)):
                    unsorted_vecs.append(v)
    else:
        for L in (2, 3, 4):
            for c in itertools.product(range(len(ALPHA)), repeat=L):
                v = [ALPHA[i] for i in c]
                if sorted(range(L), key=lambda i: (v[i] != v[i], v[i])) != list(range(L)) and (sum(c) + L) % 5 == seed % 5:
                    unsorted_vecs.append(v)
    # scale: rankings of several hundred fits (cuts beyond positions 127 / 255), tail of 1e30, inf and NaN rows
    huge = []
    for L, shift in ((300, 0.0007), (700, 0.0003)) if tier == 'quick' else ((300, 0.0007), (700, 0.0003), (1500, 0.0011), (5000, 0.0013)):
        for attempt in range(50):
            step = (14.0 / (L - 10)) * (1.0 + shift * (attempt + 1))        # statistics are multiples of the step: moved until none sits on a threshold
            chi = [0.0531 + i * step for i in range(L - 10)] + [1e30] * 6 + [INF] * 2 + [NAN] * 2
            if _check_thresholds(chi):
                break
        else:
            raise AssertionError('no admissible lattice for L=%d' % L)
        huge.append(chi)
    return {'tier': tier, 'seed': seed, 'ranked': ranked, 'longer': longer, 'unsorted': unsorted_vecs, 'huge': huge,
            'pairs_lmax': 5 if tier == 'thorough' else 3}


def cases(ctx):
    for chi in ctx['ranked']:
        yield {'kind': 'ranked', 'chi': _enc(chi)}
    for chi in ctx['longer']:
        yield {'kind': 'longer', 'chi': _enc(chi)}
    for chi in ctx['huge']:
        yield {'kind': 'huge', 'chi': _enc(chi)}
    for i in range(len(PRECISION)):
        yield {'kind': 'precision', 'which': i}
    group = []
    for v in ctx['unsorted']:
        group.append(_enc(v))
        if len(group) == 40:
            yield {'kind': 'unsorted', 'vecs': group}
            group = []
    if group:
        yield {'kind': 'unsorted', 'vecs': group}


def evidence_extra(ctx):
    return {'bounds': 'vector length 0..5 exhaustively over a 6-value alphabet (462 ranked multisets) x 3 n_data x 2 (+ n_data = 0 for length <= 4); '
                      '%d seed-derived vectors of length 6..12; rankings of 300 and 700 (thorough: up to 5000) fits with cuts around positions 127/128, 255/256 and the tail; %d unsorted vectors through sort(); 31 selectors; BFS to '
                      'fixpoint; all 961 selector pairs from every reachable state of vectors up to length %d'
                      % (len(ctx['longer']), len(ctx['unsorted']), ctx['pairs_lmax']),
            'alphabet_digest': 'alpha=%s thresholds=%s seed=%d' % (_enc(ALPHA), THRESH, ctx['seed'])}


# ---------------------------------------------------------------------------

def _mk(chi, flags, with_mf, presort=False):
    from sedfitter.fit_info import FitInfo
    from sedfitter.source import Source
    s = Source()
    s.name = 's'
    s.valid = np.array(flags)
    # flag-4 points carry log10 fluxes, which may be zero or negative; set in the order a parsed line sets them (flags first)
    s.flux = np.array([(-0.5 if j % 2 else 0.0) if v == 4 else 1.0 for j, v in enumerate(flags)])
    s.error = np.ones(len(flags)) * 0.1
    i = FitInfo(s)
    n = len(chi)
    i.chi2 = np.array(chi, dtype=float)
    i.av = np.arange(n) * 1.0 + 100
    i.sc = np.arange(n) * 1.0 + 200
    i.model_name = np.array(['m%d' % j for j in range(n)], dtype='U30')
    i.model_id = np.arange(n)[::-1].copy()
    i.model_fluxes = (np.arange(n * 2).reshape(n, 2) * 1.0 if with_mf else None)
    if presort:
        i.sort()
    i.n_fits          # looked at before any selection (e.g. to report the total): later selections must not be confused by that
    return i


def _snapshot(i):
    return (np.array(i.chi2, dtype=float, copy=True), np.array(i.av, dtype=float, copy=True),
            np.array(i.sc, dtype=float, copy=True), np.array(i.model_name, copy=True),
            np.array(i.model_id, copy=True),
            None if i.model_fluxes is None else np.array(i.model_fluxes, dtype=float, copy=True))


def _same(a, b):
    if a is None or b is None:
        return a is None and b is None
    a = np.asarray(a)
    b = np.asarray(b)
    if a.shape != b.shape:
        return False
    if a.dtype.kind in 'US' or b.dtype.kind in 'US':
        return bool(np.all(a == b))
    return bool(np.array_equal(a, b, equal_nan=True))


def _check_step(before, obj, k):
    """All six arrays cut to the same length k and equal to prefixes of `before`."""
    after = _snapshot(obj)
    names = ('chi2', 'av', 'sc', 'model_name', 'model_id', 'model_fluxes')
    for nm, b, a in zip(names, before, after):
        if b is None:
            if a is not None:
                return 'arrays', '%s appeared' % nm
            continue
        if a is None:
            return 'arrays', '%s vanished' % nm
        if len(a) != k:
            return 'count', '%s has length %d, expected %d' % (nm, len(a), k)
        if not _same(a, b[:k]):
            return 'arrays', '%s is not the prefix of the ranking' % nm
    if obj.n_fits != k:
        return 'count', 'n_fits=%r expected %d' % (obj.n_fits, k)
    return None


def _explore(rec, case_id, chi, nd, flags, with_mf, presort, do_pairs, SELECTORS=None):
    """BFS to fixpoint from one initial state, on the real objects."""
    SELECTORS = SELECTORS or globals()['SELECTORS']
    from mc.canon import state_hash as canon      # state identity (private attributes included), not an oracle

    def build(hist):
        o = _mk(chi_init, flags, with_mf, presort)
        for s in hist:
            o.keep(s)
        return o

    chi_init = chi
    o0 = build([])
    if presort:
        # the ranked vector is whatever the real sort() produced; C04 judges sort
        # itself, here it only supplies initial states (but it must be ranked)
        ranked = [float(x) for x in o0.chi2]
        fin = [x for x in ranked if x == x]
        if fin != sorted(fin) or any(x != x for x in ranked[:len(fin)]):
            rec.violation('sort|not-ranked', {'chi': _enc(chi)}, {'got': _enc(ranked)})
            return
        rec.cls('unsorted-through-sort')
    else:
        ranked = list(chi)
    seen = {canon(o0): []}
    frontier = [[]]
    rec.state((case_id, nd, with_mf, canon(o0)))
    while frontier:
        nxt = []
        for hist in frontier:
            cur = build(hist)
            cur_chi = [float(x) for x in cur.chi2]
            before = _snapshot(cur)
            for s in SELECTORS:
                o = build(hist)
                o.keep(s)
                rec.trans()
                rec.ev()
                k = selref.kept(cur_chi, nd, s)
                rec.outcome((len(cur_chi), len(o.chi2)))
                bad = _check_step(before, o, k)
                if bad:
                    rec.violation('keep|%s|%s' % (s[0], bad[0]),
                                  {'chi': _enc(chi), 'nd': nd, 'mf': with_mf, 'hist': hist, 'sel': s},
                                  {'problem': bad[1], 'state_chi2': _enc(cur_chi), 'expected_kept': k,
                                   'got_len': len(o.chi2)})
                    continue
                # classes
                n = len(cur_chi)
                if 0 < k < n:
                    rec.cls('cut-strictly-inside')
                    rec.nontriv((case_id, nd, with_mf, tuple(map(tuple, hist)), s))
                    if s[0] == 'N' and cur_chi[k - 1] == cur_chi[k]:
                        rec.cls('tie-straddles-N-cut')
                if n and k == n:
                    rec.cls('kept-all')
                if n and k == 0:
                    rec.cls('kept-none')
                if s[0] == 'N' and s[1] > n:
                    rec.cls('n>total')
                if n == 0:
                    rec.cls('empty-vector')
                if n and all(c == INF for c in cur_chi):
                    rec.cls('all-inf')
                if any(c != c for c in cur_chi):
                    rec.cls('nan-present')
                if not with_mf:
                    rec.cls('model_fluxes-None')
                c = canon(o)
                if c not in seen:
                    seen[c] = hist + [list(s)]
                    nxt.append(hist + [list(s)])
                    rec.state((case_id, nd, with_mf, c))
            # relational claims: every ordered pair from this state
            if do_pairs:
                for s1 in SELECTORS:
                    k1 = selref.kept(cur_chi, nd, s1)
                    for s2 in SELECTORS:
                        kd = selref.kept(cur_chi, nd, s2)
                        same_sel = (s1 == s2)
                        if not same_sel and k1 < kd:
                            continue          # s1 is not looser than s2 on this state
                        o = build(hist)
                        o.keep(s1)
                        o.keep(s2)
                        rec.trans(2)
                        rec.ev()
                        rec.trace()
                        want = k1 if same_sel else kd
                        # reference run of the same two steps (the relation is a theorem of the reference)
                        k2ref = selref.kept(cur_chi[:k1], nd, s2)
                        bad = _check_step(before, o, k2ref)
                        rel = 'idempotence' if same_sel else 'looser-first'
                        if bad is None and k2ref != want:
                            # the reference itself says the relation does not hold here:
                            # happens only when the first cut removes the best fit's
                            # successors so that nothing changes for s2 -- cannot occur for
                            # prefixes; flag loudly as a harness problem
                            raise AssertionError('reference model breaks %s: %r' % (rel, (chi, nd, s1, s2)))
                        if bad:
                            rec.violation('keep|%s>%s|%s' % (s1[0], s2[0], rel),
                                          {'chi': _enc(chi), 'nd': nd, 'mf': with_mf, 'hist': hist, 's1': s1, 's2': s2},
                                          {'problem': bad[1], 'state_chi2': _enc(cur_chi), 'expected_kept': want,
                                           'got_len': len(o.chi2)})
        frontier = nxt


def _live_source(rec, chi):
    """n_data is a property of the source as it is NOW: flags re-assigned or changed in place between two
    selections must be honoured (E and F divide by the current count of flags 1/4)."""
    for flags, edits in (([1, 1, 4, 0, 2], [(0, 0), (3, 1), (2, 9)]), ([1, 4, 3, 9], [(1, 2), (3, 4)])):
        for mode in ('inplace', 'setter'):
            for sel in [s for s in SELECTORS if s[0] in 'EF']:
                o = _mk(chi, flags, True)
                cur = list(flags)
                o.keep(('A', 0))
                _ = o.source.n_data              # a first read, so that anything remembered is populated
                for pos, newflag in edits:
                    cur[pos] = newflag
                    if mode == 'inplace':
                        o.source.valid[pos] = newflag
                    else:
                        o.source.valid = np.array(cur)
                    o2 = _mk(chi, flags, True)
                    o2.source = o.source
                    nd = selref.n_data(cur)
                    if nd == 0:
                        continue
                    before = _snapshot(o2)
                    o2.keep(sel)
                    rec.trans()
                    rec.ev()
                    rec.cls('flags-changed-on-live-source')
                    k = selref.kept([float(x) for x in chi], nd, sel)
                    bad = _check_step(before, o2, k)
                    if bad:
                        rec.violation('keep|%s|stale-n_data' % sel[0], {'chi': _enc(chi), 'flags_now': cur, 'how': mode, 'sel': sel},
                                      {'problem': bad[1], 'n_data_now': nd, 'source.n_data': int(o.source.n_data), 'expected_kept': k})


PRECISION = [
    # chi^2 values with a large common offset and differences of order one: the statistics chi2 - best and chi2 / n_data need the
    # full double precision of the stored values (single precision spaces 1e8 by 8)
    ([1e8, 1e8 + 1.0, 1e8 + 2.5, 1e8 + 6.0, 1e8 + 40.0], [('C', 1e8 + 0.5), ('C', 1e8 + 3.0), ('C', 99999999.5), ('D', 0.4), ('D', 1.4), ('D', 3.1), ('D', 10.0),
                                                        ('E', 5e7 + 0.75), ('E', 1e8 + 1.5), ('F', 0.9), ('F', 1.6), ('F', 2.2)]),
    ([3.0e6 + 0.125 * i for i in range(12)], [('C', 3.0e6 + 0.3), ('C', 3.0e6 + 1.3), ('D', 0.3), ('D', 0.7), ('D', 1.3), ('F', 0.3), ('E', 1.5e6 + 0.2), ('E', 1.0e6 + 0.2)]),
    # beyond the single-precision range, and a ranking that ends in values that differ in the last bits only
    ([1.0, 1e37, 5e38, 1e39, 1e300], [('C', 1e38), ('C', 6e38), ('C', 1e40), ('D', 2e39), ('E', 2e38), ('F', 4e38)]),
    # thresholds a few parts in 10^6 away from a statistic (not on it): "close to the threshold" is still one side or the other
    ([30.0, 30.0002, 30.0004, 31.0, 62.0], [('C', 30.0001), ('C', 30.0003), ('C', 29.9999), ('D', 0.0001), ('D', 0.0003), ('D', 1.00001), ('E', 15.00005), ('E', 10.00005), ('E', 30.0001), ('F', 0.00005), ('F', 0.00015)]),
    ([2.0, 2.0 + 1e-13, 2.0 + 2e-13, 2.0 + 1e-9, 2.0 + 1e-6], [('C', 2.0 + 1.5e-13), ('C', 2.0 + 5e-10), ('D', 1.5e-13), ('D', 5e-10), ('D', 5e-7), ('F', 0.4e-13), ('E', 1.0 + 2e-10)]),
]


def run_case(ctx, case, rec, d):
    if case['kind'] == 'precision':
        chi, sels = PRECISION[case['which']]
        for nd, flags in FLAGSETS.items():
            # no statistic may sit on a threshold (the comparison there is decided by the last bit)
            best_ = chi[0]
            for f_, v_ in sels:
                att = [{'C': c_, 'D': c_ - best_, 'E': c_ / nd, 'F': (c_ - best_) / nd}[f_] for c_ in chi]          # the statistic of this form
                for c_, x in zip(chi, att):
                    if x != x or abs(x) == INF:
                        continue
                    noise = 8 * np.spacing(max(abs(v_), abs(c_), abs(best_) if f_ in 'DF' else 0.0))          # rounding noise of forming this statistic, whichever way
                    assert abs(x - v_) > noise, (chi, nd, f_, v_)
            _explore(rec, ('precision', case['which']), list(chi), nd, flags, nd == 2, False, True, SELECTORS=[('A', 0), ('N', 2)] + sels)
        rec.cls('statistics-need-double-precision')
        return
    if case['kind'] == 'huge':
        chi = _dec(case['chi'])
        L = len(chi)
        sels = SELECTORS + [('N', n) for n in (100, 127, 128, 129, 255, 256, 257, L - 11, L - 10, L - 1, L, L + 1)]
        rec.cls('ranking-of-hundreds-of-fits')
        for nd, flags in FLAGSETS.items():
            _explore(rec, ('huge', L), chi, nd, flags, nd == 2, False, False, SELECTORS=sels)
        return
    if case['kind'] in ('ranked', 'longer'):
        chi = _dec(case['chi'])
        if len(chi) in (3, 4) and not any(c != c for c in chi):
            _live_source(rec, chi)
        if case['kind'] == 'longer':
            rec.cls('longer-vector')
        do_pairs = len(chi) <= ctx['pairs_lmax'] or case['kind'] == 'longer' and ctx['tier'] == 'thorough'
        for nd, flags in FLAGSETS.items():
            assert selref.n_data(flags) == nd
            for with_mf in (True, False):
                _explore(rec, tuple(case['chi']), chi, nd, flags, with_mf, False, do_pairs)
        if len(chi) <= 4:
            # a source made of limits and ignored points only: n_data is 0, chi^2/n_data is inf (or NaN for 0/0), which is below no threshold
            assert selref.n_data(NODATA_FLAGS) == 0
            _explore(rec, tuple(case['chi']), chi, 0, NODATA_FLAGS, True, False, len(chi) <= 3)
            rec.cls('source-with-no-fitted-point')
        if len(rec.samples) == 0 and len(chi) >= 3:
            rec.sample({'initial_chi2': case['chi'], 'n_data_variants': FLAGSETS, 'selectors': [list(s) for s in SELECTORS[:9]] + ['...'],
                        'exploration': 'BFS to fixpoint + all selector pairs'})
    else:
        for v in case['vecs']:
            chi = _dec(v)
            nd = 1 + (len(chi) % 3)
            _explore(rec, ('u',) + tuple(v), chi, nd, FLAGSETS[nd], True, True, False)
