"""C15 -- flux unit conversions are mutually consistent and invertible.

E1: stored unit x requested unit (25 pairs) and the chains A->B->A, A->B->C
(125 triples), realised as real write / read / write / read sequences on SED
files, over apertures, distances and frequency grids (either order).
"""
import itertools
import os

import numpy as np

from mc.enumerate import deviation_bounded, full_product
from ref import pkgwriter, unitref

ID = 'C15'
LEVEL = 'model_checking'
TECHNIQUE = 'exhaustive enumeration of unit pairs and chains as write/read histories on real SED files, against a three-family reference (F = nu F_nu, L = F d^2)'
LEVEL_TEXT = ('All 25 (stored, requested) unit pairs over {mJy, Jy, erg/cm^2/s, erg/s, W/m^2}, all 125 chains A->B->A and A->B->C executed as real file write/read/write/read '
              'sequences, on SEDs with 1/2/5 apertures, four distance settings (1 kpc, 140 pc, 3.3e22 cm, header keyword absent = 1 kpc; read one after the other in the same process) and frequency grids of 2/3/10 points in either order; every returned value is compared with the '
              'reference, chains must close to 1e-12, and unsupported target units (K, m, Hz) must be refused.')
LEVEL_NOTE = ('Flux values from a fixed + seed-derived alphabet; the first file of every chain is written with astropy.io.fits directly (independent of SED.write), intermediate files '
              'by SED.write. Trusts astropy unit conversion factors only within a family (Jy<->mJy, erg/cm2/s<->W/m2).')
RULE = ("cases: (n_ap, distance, n_wav, spectral order) configurations x stored unit A; executions: for every B: read A as B, write, read back as A, and for every C compare "
        "read(B-file, C) with read(A-file, C); non-trivial = distinct (configuration, A, B) with A != B")
ASSUMPTIONS = ["positive finite fluxes and frequencies", "distance taken from the file header"]
REQUIRED_CLASSES = ['distance-of-an-earlier-object-changed-in-place', 'frequency-column-not-exactly-c-over-wavelength', 'all-stored-numbers-tiny', 'unsupported-stored-unit-refused', 'intermediate-object-in-wavelength-order', 'fluxes-spanning-many-decades', 'spectral-axis-requested-in-GHz-and-nm', 'unsupported-error-unit-refused', 'legacy-unit-strings', 'zero-flux-cell', 'error-column-in-other-unit', 'float32-file', 'distance-keyword-absent', 'pair-different-family', 'chain-ABA', 'chain-ABC', 'unsupported-refused', 'luminosity-with-distance!=1kpc', 'nu-decreasing-in-file', 'multi-aperture']
TIMEOUT = {'quick': 300, 'thorough': 1800}

UNITS = ['mJy', 'Jy', 'erg / (cm2 s)', 'erg / s', 'W / m2', 'MJy']          # MJy: megajansky (not the legacy spelling MJY of mJy)
FITS_UNIT = {'MJy': 'MJy', 'mJy': 'mJy', 'Jy': 'Jy', 'erg / (cm2 s)': 'erg s-1 cm-2', 'erg / s': 'erg s-1', 'W / m2': 'W m-2'}
AXES = {'n_ap': [2, 0, 1, 5], 'n_wav': [3, 2, 10], 'order': ['nu-inc', 'nu-dec'], 'err_unit': ['same', 'other'], 'f32': [False, True], 'legacy': [False, True], 'zero': [False, True], 'faint': [False, True], 'nu_col': ['exact', 'c=3e8'], 'scale': [1.0, 1e-12]}
DISTS = ['1kpc', '140pc', 'absent', '3.3e22cm', '1kpc']      # visited in this order inside every case (same grid, same units, other distance)
DIST_CM = {'1kpc': pkgwriter.KPC_CM, '140pc': 140 * pkgwriter.KPC_CM / 1000.0, '3.3e22cm': 3.3e22, 'absent': pkgwriter.KPC_CM}


def setup(tier, seed):
    cfgs = list(deviation_bounded(AXES, 1)) if tier == 'quick' else list(full_product(AXES))
    out = []
    for c in cfgs:
        for A in UNITS:
            cc = dict(c)
            cc['A'] = A
            out.append(cc)
    return {'tier': tier, 'seed': seed, 'cases': out}


def cases(ctx):
    return iter(ctx['cases'])


def evidence_extra(ctx):
    return {'bounds': ('deviation bound 1 over' if ctx['tier'] == 'quick' else 'full product of') + ' %s; x distances %s (visited in sequence in one process) x 5 stored units x 5 requested x 5 third units' % ({k: len(v) for k, v in AXES.items()}, DISTS),
            'alphabet_digest': 'seed=%d' % ctx['seed']}


def _close(a, b, tol=1e-12):
    a = np.asarray(a, float)
    b = np.asarray(b, float)
    return a.shape == b.shape and np.allclose(a, b, rtol=tol, atol=0, equal_nan=False)


def run_case(ctx, case, rec, d):
    # the files for the different distances take turns under the SAME path (each overwrites the previous one): what is read
    # must always be the file as it is now
    for di, dist in enumerate(DISTS):
        _one_distance(ctx, dict(case, dist=dist), rec, os.path.join(d, 'same_place'))


def _one_distance(ctx, case, rec, d):
    from astropy import units as u
    from sedfitter.sed import SED
    os.makedirs(d, exist_ok=True)
    for old_b in [x for x in os.listdir(d) if x.startswith('b_')]:
        os.remove(os.path.join(d, old_b))
    rng = np.random.default_rng(ctx['seed'] * 13 + case['n_wav'])
    n_ap, n_wav, A = case['n_ap'], case['n_wav'], case['A']
    dist = DIST_CM[case['dist']]
    if case['dist'] == 'absent':
        rec.cls('distance-keyword-absent')
    nu = np.array([1e12, 3e12, 2e13, 5e14, 7e11, 9e12, 4e13, 8e13, 2e14, 1e15])[:n_wav]
    nu = np.sort(nu)
    if case['order'] == 'nu-dec':
        nu = nu[::-1]
        rec.cls('nu-decreasing-in-file')
    wav = pkgwriter.C_M_S / nu * 1e6
    nu_arg = None
    if case.get('nu_col', 'exact') != 'exact':
        # a file whose wavelengths were derived with c = 3e8 m/s: its FREQUENCY column is not exactly c / WAVELENGTH, and it is the
        # frequencies of the file that relate F and F_nu
        wav = 3.0e8 / nu * 1e6
        nu_arg = nu
        rec.cls('frequency-column-not-exactly-c-over-wavelength')
    na = max(n_ap, 1)
    base = np.array([[(a + 1) * 10.0 + w for w in range(n_wav)] for a in range(na)]) * rng.uniform(0.5, 2.0)
    if case.get('scale', 1.0) != 1.0:
        base = base * case['scale']          # every stored number far below 1e-8 (as fluxes in erg/cm^2/s or W/m^2 are)
        rec.cls('all-stored-numbers-tiny')
    err = base * 0.125
    if case.get('zero'):
        base = base.copy()
        base[0, n_wav // 2] = 0.0          # one flux is exactly zero (its error is not)
        rec.cls('zero-flux-cell')
    if case.get('faint') or case.get('f32'):
        # a spectrum spanning many decades (the far-ultraviolet tail of a photosphere): entries 16 and (double-precision files) 24 decades below the rest
        base = base.copy()
        base[:, 0] *= (1e-20 if case.get('f32') else 1e-16)          # (single precision: F_nu in cgs would be 1e-45, below the type's range, if formed in that type)
        if not case.get('f32'):
            base[-1, 1] *= 1e-24          # (in a single-precision file the converted value would leave the range of the type)
        err = np.where(base > 0, base * 0.125, err)
        rec.cls('fluxes-spanning-many-decades')
    ap = None if n_ap == 0 else 100.0 * 10.0 ** np.arange(n_ap)
    if n_ap >= 2:
        rec.cls('multi-aperture')
    # the error column may carry another unit of the same family than the flux column (the format stores them separately)
    SIB = {'MJy': ('Jy', 1e6), 'mJy': ('Jy', 1e-3), 'Jy': ('mJy', 1e3), 'erg / (cm2 s)': ('W / m2', 1e-3), 'W / m2': ('erg / (cm2 s)', 1e3), 'erg / s': ('erg / s', 1.0)}
    eu, efac = SIB[A] if case.get('err_unit') == 'other' else (A, 1.0)
    if eu != A:
        rec.cls('error-column-in-other-unit')
    if case.get('f32'):
        # a file stored in single precision (format 'E', as the format description says): the reference works from the rounded values
        base = base.astype(np.float32).astype(float)
        err = (err * efac).astype(np.float32).astype(float) / efac
        rec.cls('float32-file')
    unit_str, eunit_str, extra = FITS_UNIT[A], FITS_UNIT[eu], {}
    if case.get('legacy') and A in ('mJy', 'erg / (cm2 s)'):
        # the unit spellings of the format description (MICRONS, HZ, MJY, ergs/cm^2/s)
        unit_str = {'mJy': 'MJY', 'erg / (cm2 s)': 'ergs/cm^2/s'}[A]
        eunit_str = unit_str if eu == A else eunit_str
        extra = {'wav_unit': 'MICRONS', 'freq_unit': 'HZ'}
        rec.cls('legacy-unit-strings')
    pkgwriter.write_sed_file(d, 'm', wav, base, err * efac, apertures_au=ap, unit=unit_str, err_unit=eunit_str, float32=bool(case.get('f32')),
                             distance_cm=None if case['dist'] == 'absent' else dist, filename='a.fits', nu_hz=nu_arg, **extra)
    fa = os.path.join(d, 'seds', 'a.fits')
    if case.get('f32'):
        nu = (pkgwriter.nu_of_wav_micron(wav) if nu_arg is None else np.asarray(nu_arg, float)).astype(np.float32).astype(float)      # the frequencies as the single-precision file stores them
    order = np.argsort(nu)               # SED.read(order='nu') returns increasing frequency
    nu_inc = nu[order]
    base_inc = base[:, order]
    err_inc = err[:, order]
    cfg = (n_ap, case['dist'], n_wav, case['order'], A, case.get('err_unit'), case.get('f32'))
    rec.state(cfg)
    T = 3e-6 if case.get('f32') else 1e-11        # single-precision files are converted in single precision
    readC_from_A = {}
    for C in UNITS:
        try:
            readC_from_A[C] = SED.read(fa, unit_flux=u.Unit(C)).flux.value
        except Exception as e:
            rec.violation('read|exception', {'A': A, 'B': C}, {'type': type(e).__name__, 'msg': str(e)[:200]})
            return
    if case['dist'] == 'absent':
        # the owner of an object read earlier from this file rescales ITS distance in place; objects read before and after are other objects
        try:
            kept_ = SED.read(fa)
            mine_ = SED.read(fa)
            mine_.distance *= 2.0
            rec.ev()
            rec.cls('distance-of-an-earlier-object-changed-in-place')
            if abs(kept_.distance.to(u.kpc).value - 1.0) > 1e-12:
                rec.violation('read|distance-shared-between-objects', {'A': A}, {'problem': 'after `other.distance *= 2` the distance of an object read before is %s (the file has no DISTANCE keyword: 1 kpc)' % kept_.distance})
        except Exception as e:
            rec.violation('read|exception', {'A': A, 'step': 'in-place distance change'}, {'type': type(e).__name__, 'msg': str(e)[:200]})
    for B in UNITS:
        sub = {'A': A, 'B': B}
        uB = u.Unit(B)
        # the spectral axis may be asked for in other units too; fluxes do not depend on that
        other_axis = ((UNITS.index(B) + n_wav + n_ap) % 2 == 1)
        by_wav = (not other_axis) and ((UNITS.index(B) + n_wav + n_ap) % 4 == 0)
        try:
            if other_axis:
                rb = SED.read(fa, unit_flux=uB, unit_freq=u.GHz, unit_wav=u.nm)
                rec.cls('spectral-axis-requested-in-GHz-and-nm')
            elif by_wav:
                rb = SED.read(fa, unit_flux=uB, order='wav')          # the object (and the file written from it below) in increasing wavelength
                rec.cls('intermediate-object-in-wavelength-order')
            else:
                rb = SED.read(fa, unit_flux=uB)
        except Exception as e:
            rec.violation('read|exception', sub, {'type': type(e).__name__, 'msg': str(e)[:200]})
            continue
        if other_axis and not (rb.nu.unit == u.GHz and rb.wav.unit == u.nm):
            rec.violation('read|spectral-axis-unit', sub, {'nu_unit': str(rb.nu.unit), 'wav_unit': str(rb.wav.unit)})
            continue
        rec.ev()
        rec.trans()
        expB = unitref.convert(nu_inc, base_inc, A, B, dist)
        expBe = unitref.convert(nu_inc, err_inc, A, B, dist)
        fa_, fb_ = unitref.FAMILY[A][0], unitref.FAMILY[B][0]
        if A != B:
            rec.nontriv(cfg + (B,))
        if fa_ != fb_:
            rec.cls('pair-different-family')
        if 'l' in (fa_, fb_) and fa_ != fb_ and case['dist'] != '1kpc':
            rec.cls('luminosity-with-distance!=1kpc')
        rec.outcome((A, B, round(float(np.log10(expB[0, 0] + 1e-300)), 6)))
        rv = slice(None, None, -1) if by_wav else slice(None)          # (an object read in wavelength order runs the other way)
        if not (rb.flux.unit == uB and _close(rb.flux.value[:, rv], expB, T) and _close(rb.error.value[:, rv], expBe, T) and _close(rb.nu.to(u.Hz).value[rv], nu_inc, max(T, 1e-12))):
            rec.violation('convert|%s->%s' % (fa_, fb_), sub, {'got': rb.flux.value[0][:4], 'expected': expB[0][:4], 'nu': nu_inc[:4], 'distance_cm': dist})
            continue
        # A -> B -> A through a real file written by the library
        fb = os.path.join(d, 'b_%d.fits' % UNITS.index(B))
        try:
            rb.write(fb)
            ra = SED.read(fb, unit_flux=u.Unit(A))
        except Exception as e:
            rec.violation('chain|exception', sub, {'type': type(e).__name__, 'msg': str(e)[:200]})
            continue
        rec.ev()
        rec.trans(2)
        rec.cls('chain-ABA')
        if not (_close(ra.flux.value, base_inc, T) and _close(ra.error.value, err_inc, T)):
            rec.violation('chain|A->B->A|%s->%s' % (fa_, fb_), sub, {'got': ra.flux.value[0][:4], 'original': base_inc[0][:4]})
            continue
        for C in UNITS:
            try:
                rc = SED.read(fb, unit_flux=u.Unit(C))
            except Exception as e:
                rec.violation('chain|exception', dict(sub, C=C), {'type': type(e).__name__, 'msg': str(e)[:200]})
                break
            rec.ev()
            rec.trans()
            rec.cls('chain-ABC')
            if not _close(rc.flux.value, readC_from_A[C], T):
                rec.violation('chain|A->B->C', dict(sub, C=C), {'via_B': rc.flux.value[0][:4], 'direct': readC_from_A[C][0][:4]})
                break
        rec.trace()
    # a file stored in a unit the library does not know how to convert is refused, whatever the requested unit
    if case.get('_deviations', 0) == 0 and A == 'mJy':
        for bad_unit in ('MJY/SR', 'ergs/cm^2/s/A', 'K', 'Jy/beam', 'mJy/um'):
            pkgwriter.write_sed_file(d, 'm', wav, base, err, apertures_au=ap, unit=bad_unit, filename='bad_unit.fits')
            for want in ('mJy', 'erg / (cm2 s)'):
                try:
                    SED.read(os.path.join(d, 'seds', 'bad_unit.fits'), unit_flux=u.Unit(want))
                    rec.violation('convert|unsupported-accepted', {'stored_unit': bad_unit, 'target': want}, {'problem': 'a file stored in %r was read as %s without complaint' % (bad_unit, want)})
                except Exception:
                    rec.cls('unsupported-stored-unit-refused')
                rec.ev()
    # a file whose flux column is fine but whose error column carries an unsupported unit is refused as well
    if case.get('_deviations', 0) == 0:
        for bad_err in ('K', 'erg s-1 cm-2 Angstrom-1'):
            pkgwriter.write_sed_file(d, 'm', wav, base, err, apertures_au=ap, unit=FITS_UNIT[A], err_unit=bad_err, filename='bad_err.fits')
            try:
                SED.read(os.path.join(d, 'seds', 'bad_err.fits'), unit_flux=u.Unit(A))
                rec.violation('convert|unsupported-accepted', {'A': A, 'error_column_unit': bad_err}, {'problem': 'a file whose error column is in an unsupported unit was read without complaint'})
            except Exception:
                rec.cls('unsupported-error-unit-refused')
            rec.ev()
    for badu in (u.K, u.m, u.Hz):
        try:
            SED.read(fa, unit_flux=badu)
            rec.violation('convert|unsupported-accepted', {'A': A, 'target': str(badu)}, {'problem': 'an unsupported flux unit was accepted'})
        except Exception:
            rec.cls('unsupported-refused')
        rec.ev()
    if A == 'mJy' and case.get('_deviations', 0) == 0 and case['dist'] == '140pc':
        rec.sample({'config': {k: v for k, v in case.items()}, 'nu': nu_inc, 'stored_mJy': base_inc[0], 'read_as_erg/cm2/s': readC_from_A['erg / (cm2 s)'][0], 'read_as_erg/s': readC_from_A['erg / s'][0]})
