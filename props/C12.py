"""C12 -- SED, cube and convolved-flux files read back exactly what was stored.

E1 (full product / deviation-bounded) over array shapes, spectral order as
supplied, read order, flux unit, optional parts, memmap.  Every cell value
encodes (model, aperture, wavelength), so any relabelling is visible.  Three
pairings separate writer from reader defects: library writer -> library
reader, ref.pkgwriter (astropy.io.fits only) -> library reader, library writer
-> astropy.io.fits.
"""
import itertools
import os

import numpy as np

from mc.enumerate import deviation_bounded, full_product
from ref import pkgwriter

ID = 'C12'
LEVEL = 'model_checking'
TECHNIQUE = 'exhaustive enumeration of array shapes x storage order x read order x units x optional parts through the real writers/readers, against the cell dictionary the harness put in'
LEVEL_TEXT = ('For SEDs, SED cubes and convolved-flux tables: every combination (quick: every combination within 2 deviations of a default; thorough: the full product) of number '
              'of models, apertures (absent/1/2/5), wavelengths (2,3,7,40), spectral axis supplied ascending or descending, read order nu/wav, four flux units, uncertainties '
              'present/absent and memmap on/off is written and read back; every (model, aperture, wavelength) cell must come back with the value put in, the other read '
              'order must reverse wavelengths, frequencies, values and uncertainties together, and get_sed must return each model as stored.')
LEVEL_NOTE = ('Cell values are exactly representable doubles chosen to be unique per cell; comparison to 1e-12 relative (unit conversion there-and-back). The library writer and reader are '
              'also checked separately against files written / read with astropy.io.fits alone. Trusts astropy.io.fits.')
RULE = ("cases: configurations (kind, shape, order supplied, unit, optional parts); executions: write + reads in both orders (+ memmap variants, + get_sed per model), one evaluation per "
        "cell-array comparison; non-trivial = distinct configurations with >= 2 wavelengths whose supplied order or read order requires a reversal, or with an optional part absent")
ASSUMPTIONS = ["values are finite and positive", "astropy.io.fits round-trips float64 arrays exactly"]
REQUIRED_CLASSES = ['other-family-values-checked', 'zero-flux-cell', 'names-differing-only-in-case', 'model-names-of-40-characters', 'read-arguments-by-position', 'single-precision-values-handed-over', 'sed', 'cube', 'convolved', 'supplied-wav-ascending', 'supplied-wav-descending', 'read-order-nu', 'read-order-wav', 'no-apertures', 'no-uncertainties',
                    'memmap-on', 'memmap-off', 'get_sed', 'unit-erg/cm2/s', 'unit-erg/s', 'unit-Jy', 'writer-vs-fits', 'fits-vs-reader', 'written-twice', 'other-family-unit-both-orders', 'cube-nu-consistent', 'earlier-extracted-seds-rechecked', 'file-overwritten-then-read']
TIMEOUT = {'quick': 300, 'thorough': 1800}

UNITS = ['mJy', 'Jy', 'erg / (cm2 s)', 'erg / s']
AXES_SED = {'n_ap': [2, 0, 1, 5], 'n_wav': [3, 2, 7, 40], 'sup': ['wav-desc', 'wav-asc'], 'unit': UNITS, 'path': ['lib-lib', 'fits-lib', 'lib-fits'], 'dtype': ['f8', 'f4']}
AXES_CUBE = {'n_models': [2, 1, 6], 'n_ap': [2, 0, 1, 5], 'n_wav': [3, 2, 7, 40], 'sup': ['wav-desc', 'wav-asc'], 'unit': UNITS, 'unc': [True, False],
             'path': ['lib-lib', 'fits-lib', 'lib-fits'], 'dtype': ['f8', 'f4'], 'names': ['short', 'long']}
AXES_CONV = {'n_models': [2, 1, 6], 'n_ap': [2, 0, 1, 5], 'unit': ['mJy', 'Jy'], 'path': ['lib-lib', 'fits-lib', 'lib-fits'], 'dtype': ['f8', 'f4']}


def setup(tier, seed):
    out = []
    if tier == 'quick':
        for kind, axes in (('sed', AXES_SED), ('cube', AXES_CUBE), ('conv', AXES_CONV)):
            for c in deviation_bounded(axes, 2):
                c = dict(c)
                c['kind'] = kind
                out.append(c)
    else:
        for kind, axes in (('sed', AXES_SED), ('cube', AXES_CUBE), ('conv', AXES_CONV)):
            for c in full_product(axes):
                c = dict(c)
                c['kind'] = kind
                out.append(c)
    return {'tier': tier, 'seed': seed, 'cases': out}


def cases(ctx):
    return iter(ctx['cases'])


def evidence_extra(ctx):
    return {'bounds': ('deviation bound 2 over' if ctx['tier'] == 'quick' else 'full product of') + ' SED axes %s, cube axes %s, convolved axes %s; both read orders and both memmap settings inside every case'
                      % ({k: len(v) for k, v in AXES_SED.items()}, {k: len(v) for k, v in AXES_CUBE.items()}, {k: len(v) for k, v in AXES_CONV.items()}),
            'alphabet_digest': 'cell value = 1000*(model+1) + 10*(aperture+1) + (wavelength index+1)/64'}


def _cells(n_models, n_ap, n_wav, seedshift=0):
    m = np.arange(n_models)[:, None, None]
    a = np.arange(max(n_ap, 1))[None, :, None]
    w = np.arange(n_wav)[None, None, :]
    return 1000.0 * (m + 1) + 10.0 * (a + 1) + (w + 1) / 64.0 + seedshift


def _wav(n_wav, sup):
    w = 0.5 * 1.7 ** np.arange(n_wav)          # increasing wavelengths, micron
    return w if sup == 'wav-asc' else w[::-1]


def _dt(rec, case, a):
    """values handed to the library in single precision (they are exactly representable): what was stored must still come back"""
    if case.get('dtype', 'f8') == 'f4' and case['path'] != 'fits-lib':
        rec.cls('single-precision-values-handed-over')
        a32 = np.asarray(a, dtype=np.float32)
        assert np.array_equal(a32.astype(float), np.asarray(a, float))
        return a32
    return a


def _close(a, b):
    a = np.asarray(a, float)
    b = np.asarray(b, float)
    return a.shape == b.shape and np.allclose(a, b, rtol=1e-12, atol=0)


def run_case(ctx, case, rec, d):
    kind = case['kind']
    key = tuple(sorted((k, str(v)) for k, v in case.items() if k != '_deviations'))
    rec.state(key)
    if kind == 'sed':
        _sed(ctx, case, rec, d, key)
    elif kind == 'cube':
        _cube(ctx, case, rec, d, key)
    else:
        _conv(ctx, case, rec, d, key)


def _unit_cls(rec, unit):
    if unit != 'mJy':
        rec.cls('unit-' + {'Jy': 'Jy', 'erg / (cm2 s)': 'erg/cm2/s', 'erg / s': 'erg/s'}[unit])


def _viol(rec, sig, case, detail):
    c = {k: v for k, v in case.items() if k != '_deviations'}
    rec.violation(sig, c, detail)


def _try(rec, sig, case, fn):
    try:
        return fn(), None
    except Exception as e:
        from mc.runner import exc_signature
        _viol(rec, sig + '|' + exc_signature(e), case, {'type': type(e).__name__, 'msg': str(e)[:300]})
        return None, e


def _sed(ctx, case, rec, d, key):
    from astropy import units as u
    from astropy.io import fits
    from sedfitter.sed import SED
    rec.cls('sed')
    n_ap, n_wav, sup, unit, path = case['n_ap'], case['n_wav'], case['sup'], case['unit'], case['path']
    wav = _wav(n_wav, sup)
    cells = _cells(1, n_ap, n_wav, ctx['seed'] % 7)[0]           # (max(n_ap,1), n_wav) aligned with wav
    err = cells / 8.0
    if n_wav >= 3:
        cells = cells.copy()
        cells[-1, 1] = 0.0          # one cell holds exactly zero flux (its uncertainty does not)
        rec.cls('zero-flux-cell')
    ap = None if n_ap == 0 else 100.0 * 3.0 ** np.arange(n_ap)
    uq = u.Unit(unit)
    rec.cls('supplied-' + ('wav-ascending' if sup == 'wav-asc' else 'wav-descending'))
    if n_ap == 0:
        rec.cls('no-apertures')
    _unit_cls(rec, unit)
    if sup == 'wav-asc' or n_ap == 0:
        rec.nontriv(key)
    fn = os.path.join(d, 'sed.fits')
    expected = {wav[j]: (cells[:, j], err[:, j]) for j in range(n_wav)}       # the cell dictionary, keyed by wavelength
    if path in ('lib-lib', 'lib-fits'):
        s = SED()
        s.name = 'model_x'
        s.distance = 2.5 * u.kpc          # (not 1 kpc: a factor d^2 that is 1 would hide there)
        s.wav = wav * u.micron
        s.nu = s.wav.to(u.Hz, equivalencies=u.spectral())
        if ap is not None:
            s.apertures = ap * u.au
        s.flux = _dt(rec, case, cells) * uq
        s.error = _dt(rec, case, err) * uq
        from mc.canon import canon
        _, e = _try(rec, 'sed-write', case, lambda: s.write(fn))
        rec.ev()
        rec.trans()
        if e:
            return
        # the object is written a second time (same content expected): a writer must not consume its object
        fn2 = os.path.join(d, 'sed_second.fits')
        _, e = _try(rec, 'sed-write', case, lambda: s.write(fn2))
        rec.trans()
        rec.cls('written-twice')
        if e:
            return
        # the object must still describe the same cells afterwards (a consistent re-ordering of the whole object would be fine)
        still = (s.name == 'model_x' and len(s.wav) == n_wav)
        if still:
            sw = s.wav.to(u.micron).value
            for j in range(n_wav):
                kk = int(np.argmin(np.abs(wav - sw[j])))
                still = still and abs(wav[kk] - sw[j]) <= 1e-12 * wav[kk] and _close(s.flux.to(uq).value[:, j], cells[:, kk]) and _close(s.error.to(uq).value[:, j], err[:, kk]) \
                    and abs(s.nu.to(u.Hz).value[j] - pkgwriter.C_M_S / (sw[j] * 1e-6)) <= 1e-6 * s.nu.to(u.Hz).value[j]
        if not still:
            _viol(rec, 'sed-write|object-modified', case, {'problem': 'after SED.write the object no longer holds the cells it was given'})
        fn = fn2 if (n_wav + n_ap) % 2 else fn        # half of the configurations go on with the second file
    else:
        pkgwriter.write_sed_file(d, 'model_x', wav, cells, err, apertures_au=ap, unit=uq.to_string(format='fits'), filename='sed.fits', distance_cm=2.5 * pkgwriter.KPC_CM)
        fn = os.path.join(d, 'seds', 'sed.fits')
        rec.cls('fits-vs-reader')
    if path == 'lib-fits':
        rec.cls('writer-vs-fits')
        with fits.open(fn) as h:
            w_file = np.asarray(h[1].data['WAVELENGTH'], float)
            f_file = np.asarray(h[3].data['TOTAL_FLUX'], float).reshape(max(n_ap, 1), n_wav)
            e_file = np.asarray(h[3].data['TOTAL_FLUX_ERR'], float).reshape(max(n_ap, 1), n_wav)
            a_file = np.asarray(h[2].data['APERTURE'], float)
        rec.ev()
        for j in range(n_wav):
            wj = w_file[j]
            k = int(np.argmin(np.abs(wav - wj)))
            if not (_close(f_file[:, j], cells[:, k]) and _close(e_file[:, j], err[:, k])):
                _viol(rec, 'sed-write|cells-relabelled', case, {'problem': 'file written by SED.write attaches other fluxes to wavelength %r' % wj,
                                                                'file_flux_at_that_wavelength': f_file[:, j], 'stored': cells[:, k], 'supplied_order': sup})
                return
        if ap is not None and not _close(a_file, ap):
            _viol(rec, 'sed-write|apertures', case, {'file': a_file, 'stored': ap})
        rec.outcome(('sed-file', tuple(np.round(w_file, 6))))
        return
    if n_wav % 2 == 1:
        # an older, different SED lies next to the file under the same name + '.gz' (what a user who re-ran a model and kept
        # the compressed old output has): the file that was asked for is the one that must be read
        import gzip
        old_dir = os.path.join(d, 'old')
        os.makedirs(old_dir, exist_ok=True)
        pkgwriter.write_sed_file(old_dir, 'model_old', wav, cells * 2.0 + 1.0, err * 3.0, apertures_au=ap, unit=uq.to_string(format='fits'), filename='o.fits',
                                 distance_cm=2.5 * pkgwriter.KPC_CM)
        with open(os.path.join(old_dir, 'seds', 'o.fits'), 'rb') as fi, gzip.open(fn + '.gz', 'wb') as fo:
            fo.write(fi.read())
        rec.cls('stale-gz-sibling')
    reads = {}
    for order in ('nu', 'wav'):
        rec.cls('read-order-' + order)
        if (n_ap + n_wav) % 2:
            # the same call with every argument given by position, in the documented order
            rec.cls('read-arguments-by-position')
            r, e = _try(rec, 'sed-read', case, lambda: SED.read(fn, u.micron, u.Hz, uq, order))
        else:
            r, e = _try(rec, 'sed-read', case, lambda: SED.read(fn, unit_flux=uq, order=order))
        rec.ev()
        rec.trans()
        if e:
            return
        reads[order] = r
        rw = r.wav.to(u.micron).value
        rnu = r.nu.to(u.Hz).value
        inc = (np.all(np.diff(rnu) > 0) if order == 'nu' else np.all(np.diff(rw) > 0)) or n_wav < 2
        bad = None
        if not inc:
            bad = 'spectral axis not increasing in %s' % order
        elif r.flux.shape != (max(n_ap, 1), n_wav) or r.error.shape != r.flux.shape:
            bad = 'shape %r' % (r.flux.shape,)
        elif not np.allclose(rnu, pkgwriter.C_M_S / (rw * 1e-6), rtol=1e-6):
            bad = 'wavelengths and frequencies no longer correspond'
        else:
            for j in range(n_wav):
                k = int(np.argmin(np.abs(wav - rw[j])))
                if abs(wav[k] - rw[j]) > 1e-6 * wav[k]:
                    bad = 'wavelength %r was never stored' % rw[j]
                    break
                if not (_close(r.flux.to(uq).value[:, j], cells[:, k]) and _close(r.error.to(uq).value[:, j], err[:, k])):
                    bad = 'cell values at wavelength %r differ from what was stored (got %r, stored %r)' % (rw[j], r.flux.value[:, j], cells[:, k])
                    break
        if bad is None and ap is not None and not _close(r.apertures.to(u.au).value, ap):
            bad = 'apertures %r' % r.apertures
        if bad is None and r.name != 'model_x':
            bad = 'name %r' % r.name
        rec.outcome(('sed', order, tuple(np.round(rw, 6))))
        if bad:
            _viol(rec, 'sed-roundtrip|%s|%s|%s' % (path, sup, order), dict(case, order=order), {'problem': bad})
            return
    # the same file NAME overwritten with other values by the library writer: a later read must see the new contents
    if path == 'lib-lib':
        s2 = SED()
        s2.name = 'model_y'
        s2.distance = 2.5 * u.kpc
        s2.wav = wav * u.micron
        s2.nu = s2.wav.to(u.Hz, equivalencies=u.spectral())
        if ap is not None:
            s2.apertures = ap * u.au
        s2.flux = (cells * 3.0 + 1.0) * uq
        s2.error = err * 2.0 * uq
        _, e0 = _try(rec, 'sed-write', case, lambda: s2.write(fn, overwrite=True))
        r2, e1 = _try(rec, 'sed-read', case, lambda: SED.read(fn, unit_flux=uq, order='nu'))
        rec.trans(2)
        rec.ev()
        rec.cls('file-overwritten-then-read')
        if e0 or e1:
            return
        rw2 = r2.wav.to(u.micron).value
        ok2 = r2.name == 'model_y'
        for j in range(n_wav):
            k2 = int(np.argmin(np.abs(wav - rw2[j])))
            ok2 = ok2 and _close(r2.flux.to(uq).value[:, j], cells[:, k2] * 3.0 + 1.0)
        if not ok2:
            _viol(rec, 'sed-read|stale-after-overwrite', case, {'problem': 'after the file was overwritten with other values, reading it returns something else than the new contents', 'name_read': r2.name})
            return
        # restore the first contents for the reads below
        _try(rec, 'sed-write', case, lambda: s.write(fn, overwrite=True))
    # the same pair of reads with a flux unit of another family (conversion uses the frequencies)
    other = u.erg / u.cm ** 2 / u.s if uq.is_equivalent(u.Jy) else u.mJy
    ra, e1 = _try(rec, 'sed-read', case, lambda: SED.read(fn, unit_flux=other, order='nu'))
    rb, e2 = _try(rec, 'sed-read', case, lambda: SED.read(fn, unit_flux=other, order='wav'))
    rec.ev(2)
    rec.cls('other-family-unit-both-orders')
    if e1 or e2:
        return
    if not (_close(ra.flux.value, rb.flux.value[:, ::-1]) and _close(ra.error.value, rb.error.value[:, ::-1]) and _close(ra.nu.value, rb.nu.value[::-1])):
        _viol(rec, 'sed-read|orders-not-mirror-images|converted-unit', case, {'nu_order_flux': ra.flux.value[0], 'wav_order_flux_reversed': rb.flux.value[0][::-1]})
    # ... and the converted values are those of the stored cells (F = nu F_nu, L = F d^2 with the SED's own distance of 2.5 kpc)
    from ref import unitref
    other_key = 'erg / (cm2 s)' if uq.is_equivalent(u.Jy) else 'mJy'
    raw = ra.wav.to(u.micron).value
    okc = True
    for j in range(n_wav):
        kk = int(np.argmin(np.abs(wav - raw[j])))
        want = unitref.convert(pkgwriter.C_M_S / (wav[kk] * 1e-6), cells[:, kk], unit, other_key, 2.5 * pkgwriter.KPC_CM)
        got_j = ra.flux.value[:, j]
        okc = okc and np.allclose(got_j, want, rtol=1e-9, atol=0)
    rec.cls('other-family-values-checked')
    if not okc:
        _viol(rec, 'sed-read|converted-values', case, {'problem': 'values read in %s are not the stored %s values converted with the SED\'s frequencies and distance' % (other_key, unit), 'got_first_aperture': ra.flux.value[0][:4]})
    a, b = reads['nu'], reads['wav']
    if not (_close(a.wav.value, b.wav.value[::-1]) and _close(a.nu.value, b.nu.value[::-1]) and _close(a.flux.value, b.flux.value[:, ::-1]) and _close(a.error.value, b.error.value[:, ::-1])):
        _viol(rec, 'sed-read|orders-not-mirror-images', case, {'nu_order_wav': a.wav.value, 'wav_order_wav': b.wav.value})
    rec.trace()
    if case.get('_deviations', 9) <= 1 and path == 'lib-lib':
        rec.sample({'kind': 'sed', 'config': {k: v for k, v in case.items()}, 'wav_supplied': wav[:5], 'cells_first_aperture': cells[0][:5], 'read_nu_wav': a.wav.value[:5], 'read_nu_flux': a.flux.value[0][:5]})


def _cube(ctx, case, rec, d, key):
    from astropy import units as u
    from astropy.io import fits
    from sedfitter.sed import SEDCube
    rec.cls('cube')
    n_models, n_ap, n_wav, sup, unit, has_unc, path = case['n_models'], case['n_ap'], case['n_wav'], case['sup'], case['unit'], case['unc'], case['path']
    wav = _wav(n_wav, sup)
    cells = _cells(n_models, n_ap, n_wav, ctx['seed'] % 7)
    err = cells / 8.0
    ap = None if n_ap == 0 else 100.0 * 3.0 ** np.arange(n_ap)
    names = ['cm_%02d' % ((i * 5 + 1) % n_models) for i in range(n_models)] if n_models > 1 else ['cm_00']
    if case.get('names') != 'long' and n_models >= 2:
        names[0], names[1] = 'Model_B1', 'model_b1'          # two names that differ only in case
        rec.cls('names-differing-only-in-case')
    if case.get('names') == 'long':
        # names that encode parameters: 40 characters, the first 38 shared (a cube's name column is as wide as its names)
        names = ['cube_model_with_parameters_in_the_name_' + nm_[-2:][::-1] for nm_ in names]
        rec.cls('model-names-of-40-characters')
    uq = u.Unit(unit)
    rec.cls('supplied-' + ('wav-ascending' if sup == 'wav-asc' else 'wav-descending'))
    if n_ap == 0:
        rec.cls('no-apertures')
    if not has_unc:
        rec.cls('no-uncertainties')
    _unit_cls(rec, unit)
    rec.nontriv(key)
    fn = os.path.join(d, 'flux.fits')
    if path in ('lib-lib', 'lib-fits'):
        c = SEDCube()
        c.names = np.array(names)
        c.distance = 2.5 * u.kpc
        c.wav = wav * u.micron
        if ap is not None:
            c.apertures = ap * u.au
        c.val = _dt(rec, case, cells) * uq
        if has_unc:
            c.unc = _dt(rec, case, err) * uq
        _, e = _try(rec, 'cube-write', case, lambda: c.write(fn))
        rec.ev()
        rec.trans()
        if e:
            return
        fn2 = os.path.join(d, 'flux_second.fits')
        _, e = _try(rec, 'cube-write', case, lambda: c.write(fn2))
        rec.trans()
        if e:
            return
        fn = fn2 if (n_wav + n_ap + n_models) % 2 else fn
    else:
        pkgwriter.write_cube(d, names, wav, cells, unc=err if has_unc else None, apertures_au=ap, unit=uq.to_string(), distance_cm=2.5 * pkgwriter.KPC_CM)
        rec.cls('fits-vs-reader')
    if path == 'lib-fits':
        rec.cls('writer-vs-fits')
        with fits.open(fn) as h:
            w_file = np.asarray(h['SPECTRAL_INFO'].data['WAVELENGTH'], float)
            v_file = np.asarray(h['VALUES'].data, float)
            n_file = [str(x).strip() for x in h['MODEL_NAMES'].data['MODEL_NAME']]
            u_file = np.asarray(h['UNCERTAINTIES'].data, float) if 'UNCERTAINTIES' in h else None
        rec.ev()
        ok = n_file == names and v_file.shape == cells.shape
        if ok:
            for j in range(n_wav):
                k = int(np.argmin(np.abs(wav - w_file[j])))
                ok = ok and _close(v_file[:, :, j], cells[:, :, k]) and (u_file is None or _close(u_file[:, :, j], err[:, :, k]))
        ok = ok and ((u_file is not None) == has_unc)
        rec.outcome(('cube-file', tuple(np.round(w_file, 6))))
        if not ok:
            _viol(rec, 'cube-write|cells-relabelled', case, {'wav_file': w_file, 'names_file': n_file})
        return
    reads = {}
    for memmap in (True, False):
        rec.cls('memmap-on' if memmap else 'memmap-off')
        for order in ('nu', 'wav'):
            rec.cls('read-order-' + order)
            if (case['n_models'] + case['n_wav'] + (1 if memmap else 0)) % 2:
                rec.cls('read-arguments-by-position')
                r, e = _try(rec, 'cube-read', case, lambda: SEDCube.read(fn, order, memmap))
            else:
                r, e = _try(rec, 'cube-read', case, lambda: SEDCube.read(fn, order=order, memmap=memmap))
            rec.ev()
            rec.trans()
            if e:
                return
            reads[(memmap, order)] = r
            rw = r.wav.to(u.micron).value
            rnu = r.nu.to(u.Hz).value
            bad = None
            inc = (np.all(np.diff(rnu) > 0) if order == 'nu' else np.all(np.diff(rw) > 0)) or n_wav < 2
            if not inc:
                bad = 'spectral axis not increasing in %s' % order
            elif not np.allclose(rnu, pkgwriter.C_M_S / (rw * 1e-6), rtol=1e-6):
                bad = 'wavelengths and frequencies of the cube no longer correspond'
            elif [str(x) for x in r.names] != names:
                bad = 'names %r' % list(r.names)
            elif r.val.shape != cells.shape:
                bad = 'shape %r' % (r.val.shape,)
            elif (r.unc is None) != (not has_unc):
                bad = 'uncertainties present=%r, stored=%r' % (r.unc is not None, has_unc)
            else:
                val = np.asarray(r.val.to(uq).value, float)
                unc = None if r.unc is None else np.asarray(r.unc.to(uq).value, float)
                for j in range(n_wav):
                    k = int(np.argmin(np.abs(wav - rw[j])))
                    if abs(wav[k] - rw[j]) > 1e-6 * wav[k]:
                        bad = 'wavelength %r was never stored' % rw[j]
                        break
                    if not _close(val[:, :, j], cells[:, :, k]) or (unc is not None and not _close(unc[:, :, j], err[:, :, k])):
                        bad = 'cells at wavelength %r differ from what was stored (model 0: got %r, stored %r)' % (rw[j], val[0, :, j], cells[0, :, k])
                        break
            if bad is None and ap is not None and not _close(r.apertures.to(u.au).value, ap):
                bad = 'apertures'
            if bad is None and (ap is None) != (r.apertures is None):
                bad = 'apertures present=%r' % (r.apertures is not None)
            rec.outcome(('cube', order, memmap, tuple(np.round(rw, 6))))
            if bad:
                _viol(rec, 'cube-roundtrip|%s|%s|%s' % (path, sup, order), dict(case, order=order, memmap=memmap), {'problem': bad})
                return
            # one model out of the cube
            extracted = []
            for mi, nm in enumerate(names):
                s, e = _try(rec, 'get_sed', dict(case, unc=has_unc), lambda: r.get_sed(nm))
                rec.ev()
                rec.cls('get_sed')
                if e:
                    return
                sf = np.asarray(s.flux.to(uq).value, float)
                rec.cls('cube-nu-consistent')
                okm = s.name == nm and sf.shape == cells[mi].shape and _close(s.wav.to(u.micron).value, rw) and np.allclose(s.nu.to(u.Hz).value, pkgwriter.C_M_S / (rw * 1e-6), rtol=1e-6)
                if okm:
                    for j in range(n_wav):
                        k = int(np.argmin(np.abs(wav - rw[j])))
                        okm = okm and _close(sf[:, j], cells[mi, :, k])
                        if has_unc:
                            okm = okm and s.error is not None and _close(np.asarray(s.error.to(uq).value, float)[:, j], err[mi, :, k])
                if not okm:
                    _viol(rec, 'get_sed|cells', dict(case, order=order, memmap=memmap, model=nm), {'problem': 'SED extracted from the cube is not the one put in'})
                    return
                extracted.append((s, nm, np.array(sf, copy=True)))
            # the SEDs extracted first must still be themselves after the others were extracted
            for s_old, nm_old, sf_old in extracted:
                if s_old.name != nm_old or not _close(np.asarray(s_old.flux.to(uq).value, float), sf_old):
                    _viol(rec, 'get_sed|earlier-sed-changed', dict(case, order=order, memmap=memmap, model=nm_old), {'problem': 'an SED extracted earlier changed when another model was extracted', 'name_now': s_old.name})
                    return
            if len(extracted) > 1:
                rec.cls('earlier-extracted-seds-rechecked')
    a, b = reads[(False, 'nu')], reads[(False, 'wav')]
    if not (_close(a.wav.value, b.wav.value[::-1]) and _close(np.asarray(a.val.value), np.asarray(b.val.value)[:, :, ::-1])
            and (a.unc is None or _close(np.asarray(a.unc.value), np.asarray(b.unc.value)[:, :, ::-1]))):
        _viol(rec, 'cube-read|orders-not-mirror-images', case, {'nu_order_wav': a.wav.value, 'wav_order_wav': b.wav.value})
    rec.trace()


def _conv(ctx, case, rec, d, key):
    from astropy import units as u
    from astropy.io import fits
    from sedfitter.convolved_fluxes import ConvolvedFluxes
    rec.cls('convolved')
    n_models, n_ap, unit, path = case['n_models'], case['n_ap'], case['unit'], case['path']
    cells = _cells(n_models, n_ap, 1, ctx['seed'] % 7)[:, :, 0]
    err = cells / 8.0
    ap = None if n_ap == 0 else 100.0 * 3.0 ** np.arange(n_ap)
    names = ['cv_%02d' % ((i * 5 + 2) % n_models) for i in range(n_models)] if n_models > 1 else ['cv_00']
    uq = u.Unit(unit)
    if n_ap == 0:
        rec.cls('no-apertures')
        rec.nontriv(key)
    if n_models > 1:
        rec.nontriv(key)
    fn = os.path.join(d, 'conv.fits')
    if path in ('lib-lib', 'lib-fits'):
        c = ConvolvedFluxes(wavelength=3.6 * u.micron, model_names=np.array(names), apertures=None if ap is None else ap * u.au, flux=_dt(rec, case, cells) * uq, error=_dt(rec, case, err) * uq)
        _, e = _try(rec, 'conv-write', case, lambda: c.write(fn))
        rec.ev()
        rec.trans()
        if e:
            return
    else:
        pkgwriter.write_convolved(d, 'conv', names, cells, err, apertures_au=ap, filtwav_micron=3.6, unit=unit)
        fn = os.path.join(d, 'convolved', 'conv.fits')
        rec.cls('fits-vs-reader')
    if path == 'lib-fits':
        rec.cls('writer-vs-fits')
        with fits.open(fn) as h:
            t = h['CONVOLVED FLUXES'].data
            nf = [str(x).strip() for x in t['MODEL_NAME']]
            ff = np.asarray(t['TOTAL_FLUX'], float).reshape(n_models, max(n_ap, 1))
            ef = np.asarray(t['TOTAL_FLUX_ERR'], float).reshape(n_models, max(n_ap, 1))
            fw = h[0].header.get('FILTWAV')
            af = np.asarray(h['APERTURES'].data['APERTURE'], float) if 'APERTURES' in h else None
        rec.ev()
        rec.outcome(('conv-file', tuple(nf)))
        if not (nf == names and _close(ff, cells) and _close(ef, err) and abs(fw - 3.6) < 1e-12 and ((af is None) == (ap is None)) and (ap is None or _close(af, ap))):
            _viol(rec, 'conv-write|cells', case, {'names': nf, 'flux': ff[:2]})
        return
    r, e = _try(rec, 'conv-read', case, lambda: ConvolvedFluxes.read(fn))
    rec.ev()
    rec.trans()
    rec.trace()
    if e:
        return
    got_names = [str(x).strip() for x in r.model_names]
    bad = None
    if got_names != names:
        bad = 'names %r' % got_names
    elif not (_close(r.flux.to(uq).value, cells) and _close(r.error.to(uq).value, err)):
        bad = 'flux/error cells differ'
    elif abs(r.central_wavelength.to(u.micron).value - 3.6) > 1e-12:
        bad = 'central wavelength'
    elif (r.apertures is None) != (ap is None) or (ap is not None and not _close(r.apertures.to(u.au).value, ap)):
        bad = 'apertures'
    rec.outcome(('conv', tuple(got_names)))
    if bad:
        _viol(rec, 'conv-roundtrip|%s' % path, case, {'problem': bad})
