"""C14 -- the extinction law is normalised at V, unit-free, zero outside its table.

Engine E1: full product of (table size, position of V relative to the nodes,
opacity family, constant scaling, wavelength unit, opacity unit, query unit,
object form) with a query set that hits below / every node / segment thirds /
above / exactly V.
"""
import itertools
import os
import pickle

import numpy as np

from ref import extref

ID = 'C14'
LEVEL = 'model_checking'
TECHNIQUE = 'bounded-exhaustive enumeration of table shapes x units x scalings x object forms, real get_av against a two-point interpolation reference'
LEVEL_TEXT = ('Every combination of table size {2,3,5,20,200}, placement of 0.55 micron (between nodes, on an inner node, on the '
              'first / last node), opacity family, constant factor, wavelength unit, opacity unit, query unit and object form '
              '(fresh, pickled, table round trip, text file reader with every column pair) is evaluated on a query set that '
              'covers below/on every node/inside every segment/above/V, and compared with an explicit two-point reference.')
LEVEL_NOTE = ('Opacities and node positions come from a finite alphabet (fixed + seed-derived); a query that coincides with the first or '
              'last node may, after unit conversion, fall one ulp outside the table: there both the interpolated value and 0 are '
              'accepted. Trusts astropy unit conversion factors.')
RULE = ("cases: (rows, V placement, family, scaling); executions: units x units x units x forms evaluations of get_av on the "
        "query vector; non-trivial = distinct (table, units, form) combinations whose query vector contains points inside, "
        "outside and on nodes")
ASSUMPTIONS = ["tables are increasing in wavelength and cover 0.55 micron (the property's precondition)",
               "opacities from finite families (constant, power law, non-monotonic, seed-derived positive)"]
OPS = ['scale-chi', 'chi-unit', 'wav-unit', 'new-chi', 'pickle', 'new-table', 'table-roundtrip-discarded', 'new-wav']
REQUIRED_CLASSES = ['query-with-the-numbers-of-the-table-in-another-unit', 'law-file-with-three-digit-exponents', 'columns-counted-from-the-end', 'two-laws-on-the-same-arrays', 'table-through-a-fits-file', 'queries-not-bracketing-V', 'law-file-replaced-and-read-again', 'query-unsorted-and-2d', 'table-native-in-other-unit', 'history-depth-3', 'history-new-chi-after-query', 'V-between', 'V-on-node', 'V-first', 'V-last', 'outside-zero', 'exact-at-V', 'pickle', 'table', 'file',
                    'unit-change', 'scaled', 'non-monotonic']


def setup(tier, seed):
    rows = [2, 3, 5, 20] + ([200] if True else [])
    cases_ = []
    for r, vpos, fam, sc in itertools.product(rows, ['between', 'node', 'first', 'last'], range(4), [1.0, 1e-3, 7.3e5]):
        if r == 2 and vpos == 'node':
            continue
        cases_.append({'rows': r, 'vpos': vpos, 'fam': fam, 'sc': sc})
    # histories on ONE Extinction object (E2): every sequence of up to 3 (quick) / 4 (thorough) state-changing
    # operations, get_av compared with the reference after every step
    depth = 3 if tier == 'quick' else 4          # (thorough: depth 5 for the three-row tables, see below)
    for r, vpos, fam in itertools.product([3, 5], ['between', 'node', 'first'], [1, 2]):
        for first_op in OPS:
            cases_.append({'hist': True, 'rows': r, 'vpos': vpos, 'fam': fam, 'sc': 1.0, 'first_op': first_op, 'depth': depth + (1 if (tier == 'thorough' and r == 3 and fam == 1) else 0)})
    return {'tier': tier, 'seed': seed, 'cases': cases_}


def cases(ctx):
    return iter(ctx['cases'])


def evidence_extra(ctx):
    return {'bounds': 'histories: all sequences of <=3 (quick) / <=4 (thorough) operations over 6 state-changing operations on one object; rows {2,3,5,20,200} x V placement 4 x opacity family 4 x scaling 3 x wavelength unit 4 x opacity unit 2 x query unit 3(4) x form 3 + file reader column pairs',
            'alphabet_digest': 'seed=%d' % ctx['seed']}


def _table(case, seed):
    r, vpos = case['rows'], case['vpos']
    rng = np.random.default_rng(seed * 1000 + r * 7 + case['fam'])
    if vpos == 'between':
        wt = np.logspace(-1, 1.5, r)
        if np.any(np.isclose(wt, 0.55)):
            wt = wt * 1.01
    elif vpos == 'node':
        wt = np.logspace(-1, 1.5, r)
        wt[np.argmin(np.abs(np.log(wt / 0.55)))] = 0.55
        wt = np.sort(wt)
    elif vpos == 'first':
        wt = np.r_[0.55, np.logspace(0, 1.5, r - 1)]
    else:
        wt = np.r_[np.logspace(-2, -0.5, r - 1), 0.55]
    fam = case['fam']
    if fam == 0:
        ct = np.ones(r) * 3.3
    elif fam == 1:
        ct = wt ** -1.5 * 7
    elif fam == 2:
        ct = 2 + np.sin(np.arange(r) * 1.7)
    else:
        ct = 10 ** rng.uniform(-2, 3, r)
    return wt, ct


def _history(ctx, case, rec):
    """All operation sequences starting with case['first_op'] up to the depth bound on one live object."""
    import copy
    from astropy import units as u
    from sedfitter.extinction import Extinction
    from mc.canon import canon
    wt0, ct0 = _table(case, ctx['seed'])
    wt1, ct1 = _table(dict(case, rows=case['rows'] + 1, fam=3), ctx['seed'] + 1)

    def apply(e, model, op):
        wt, ct = model
        if op == 'scale-chi':
            e.chi = e.chi * 7.5
            return e, (wt, ct * 7.5)
        if op == 'chi-unit':
            e.chi = e.chi.to(u.m ** 2 / u.kg if e.chi.unit == u.cm ** 2 / u.g else u.cm ** 2 / u.g)
            return e, model
        if op == 'wav-unit':
            e.wav = e.wav.to(u.nm if e.wav.unit == u.micron else u.micron)
            return e, model
        if op == 'new-chi':
            new = ct[::-1].copy() + 0.5
            e.chi = new * e.chi.unit
            return e, (wt, (new * e.chi.unit).to(u.cm ** 2 / u.g).value)
        if op == 'new-wav':
            # only the wavelength column is replaced (same length, still covering V): the opacities now sit at other wavelengths
            lo_, hi_ = wt[0], wt[-1]
            f_lo, f_hi = min(1.0, 0.5 / lo_) if lo_ > 0.5 else 1.0, 1.0
            new_w = wt * np.linspace(0.93 if wt[0] * 0.93 <= 0.55 else 1.0, 1.07 if wt[-1] * 1.07 >= 0.55 else 1.0, len(wt))
            if not (new_w[0] <= 0.55 <= new_w[-1]) or np.any(np.diff(new_w) <= 0):
                return e, model
            e.wav = (new_w * u.micron).to(e.wav.unit)
            return e, (new_w, ct)
        if op == 'pickle':
            return pickle.loads(pickle.dumps(e, 2)), model
        if op == 'table-roundtrip-discarded':
            Extinction.from_table(e.to_table())        # the copy is thrown away: the original must be untouched
            return e, model
        if op == 'new-table':
            e.chi = None
            e.wav = wt1 * u.micron
            e.chi = ct1 * u.cm ** 2 / u.g
            return e, (wt1, ct1)
        raise ValueError(op)

    seqs = [[case['first_op']] + list(t) for L in range(0, case['depth']) for t in itertools.product(OPS, repeat=L)]
    seen = set()
    for seq in seqs:
        e = Extinction()
        e.wav = wt0 * u.micron
        e.chi = ct0 * u.cm ** 2 / u.g
        model = (wt0, ct0)
        # a query before any change, so that anything a changed implementation remembers is populated
        e.get_av(np.array([0.55, 1.0]) * u.micron)
        for step, op in enumerate(seq):
            try:
                e, model = apply(e, model, op)
                wt, ct = model
                q = np.r_[wt[0] * 0.5, wt[1:-1], (wt[:-1] + wt[1:]) / 2, wt[-1] * 2, 0.55]
                r = np.asarray(e.get_av(q * u.micron), float)
            except Exception as ex:
                rec.violation('history|exception', {'seq': seq[:step + 1]}, {'type': type(ex).__name__, 'msg': str(ex)[:200]})
                break
            exp = np.array(extref.pattern(list(wt), list(ct), list(q)))
            rec.ev()
            rec.trans()
            c = canon([e.wav, e.chi])
            if c not in seen:
                seen.add(c)
                rec.state(('hist', case['rows'], case['vpos'], case['fam'], c))
            rec.outcome(tuple(np.round(r, 6)))
            if op == 'new-chi':
                rec.cls('history-new-chi-after-query')
            if not np.allclose(r, exp, rtol=1e-9, atol=1e-12):
                i = int(np.argmax(np.abs(r - exp)))
                rec.violation('history|get_av-after-%s' % op, {'seq': seq[:step + 1]}, {'query_micron': q[i], 'got': r[i], 'expected': exp[i], 'note': 'same object queried before the change'})
                break
        rec.trace()
        rec.nontriv(('hist', case['rows'], case['vpos'], case['fam'], tuple(seq)))
        if len(seq) >= 3:
            rec.cls('history-depth-3')
    rec.sample({'family': 'history', 'first_op': case['first_op'], 'n_sequences': len(seqs), 'ops': OPS, 'example': seqs[-1]})


def run_case(ctx, case, rec, d):
    from astropy import units as u
    from sedfitter.extinction import Extinction
    tier = ctx['tier']
    if case.get('hist'):
        return _history(ctx, case, rec)
    wt, ct = _table(case, ctx['seed'])
    nodes = wt if len(wt) <= 20 else wt[::10]
    q = np.r_[wt[0] * 0.5, nodes, wt[:-1] + (wt[1:] - wt[:-1]) / 3, wt[:-1] + 2 * (wt[1:] - wt[:-1]) / 3, wt[-1] * 2, 0.55]
    exp = np.array(extref.pattern(list(wt), list(ct), list(q)))
    rec.cls('V-' + {'between': 'between', 'node': 'on-node', 'first': 'first', 'last': 'last'}[case['vpos']])
    if case['fam'] == 2:
        rec.cls('non-monotonic')
    if case['sc'] != 1.0:
        rec.cls('scaled')
    qunits = [u.micron, u.nm, u.m] + ([u.AA] if tier == 'thorough' else [])
    first = True
    import decimal
    FACT = {u.micron: '1', u.nm: '1e3', u.cm: '1e-4', u.AA: '1e4', u.m: '1e-6'}
    for wu, cu, qu in itertools.product([u.micron, u.nm, u.cm, u.AA, u.m], [u.cm ** 2 / u.g, u.m ** 2 / u.kg], qunits):
        if wu == u.m and qu != u.micron:
            continue          # tables in metres (node spacings of 1e-9 .. 1e-5 as bare numbers): queried in micron only
        e = Extinction()
        e.wav = (wt * u.micron).to(wu)
        if case['vpos'] != 'between' and wu != u.micron and case['fam'] % 2 == 1:
            # the table typed in directly in its own unit (5500 Angstrom, 550 nm ...): V sits exactly on the node there,
            # whatever 0.55 micron converts to in floating point
            e.wav = np.array([float(decimal.Decimal(repr(float(w))) * decimal.Decimal(FACT[wu])) for w in wt]) * wu
            rec.cls('table-native-in-other-unit')
        e.chi = (ct * case['sc'] * u.cm ** 2 / u.g).to(cu)
        def via_fits():
            # the table form written to a FITS file and read back (columns come back in the file's byte order)
            from astropy.table import Table
            pth = os.path.join(d, 'law_table.fits')
            e.to_table().write(pth, format='fits', overwrite=True)
            rec.cls('table-through-a-fits-file')
            return Extinction.from_table(Table.read(pth, format='fits'))

        def big_endian():
            t_ = e.to_table()
            from astropy.table import Table, Column
            t2 = Table()
            for cn in ('wav', 'chi'):
                t2[cn] = Column(np.asarray(t_[cn].data).astype('>f8'), unit=t_[cn].unit)
            return Extinction.from_table(t2)
        forms = [('fresh', lambda: e), ('pickle', lambda: pickle.loads(pickle.dumps(e, 2))),
                 ('table', lambda: Extinction.from_table(e.to_table()))]
        if qu == u.micron:
            forms += [('table-fits', via_fits), ('table-big-endian', big_endian)]
        if wu != u.micron or qu != u.micron or cu != u.cm ** 2 / u.g:
            rec.cls('unit-change')
        for fname, mk in forms:
            sub = {'wav_unit': str(wu), 'chi_unit': str(cu), 'query_unit': str(qu), 'form': fname}
            try:
                obj = mk()
                r = np.asarray(obj.get_av((q * u.micron).to(qu)), dtype=float)
                outc = 'ok'
            except Exception as ex:
                rec.violation('get_av|exception|%s' % fname, sub, {'type': type(ex).__name__, 'msg': str(ex)[:200]})
                continue
            rec.ev()
            rec.trans()
            rec.state((case['rows'], case['vpos'], case['fam'], case['sc'], str(wu), str(cu), str(qu), fname))
            rec.nontriv((case['rows'], case['vpos'], case['fam'], case['sc'], str(wu), str(cu), str(qu), fname))
            if fname != 'fresh':
                rec.cls(fname)
            same_unit = (wu == u.micron and qu == u.micron)
            for i in range(len(q)):
                tol = 1e-9 * max(1.0, abs(exp[i]))
                ok = abs(r[i] - exp[i]) <= tol
                on_edge = abs(q[i] - wt[0]) < 1e-12 * wt[0] or abs(q[i] - wt[-1]) < 1e-12 * wt[-1]
                if not ok and on_edge and not same_unit and r[i] == 0:
                    ok = True          # one ulp outside after unit conversion: 0 is the documented answer there
                if q[i] == 0.55 and same_unit and r[i] != -0.4 and case['vpos'] != 'between':
                    ok = ok and abs(r[i] + 0.4) <= 1e-15
                if q[i] == 0.55 and abs(r[i] + 0.4) <= 1e-12:
                    rec.cls('exact-at-V')
                if exp[i] == 0.0 and r[i] == 0.0:
                    rec.cls('outside-zero')
                rec.outcome(round(float(r[i]), 6))
                if not ok:
                    rec.violation('get_av|value|%s' % ('outside' if exp[i] == 0 else 'V' if q[i] == 0.55 else 'inside'), dict(sub, i=i),
                                  {'query_micron': q[i], 'got': r[i], 'expected': exp[i], 'table_wav': wt[:6], 'table_chi': (ct * case['sc'])[:6]})
                    break
            # queries that do not bracket V: infrared only, ultraviolet only, one wavelength at a time
            if fname == 'fresh' and qu in (u.micron, u.nm):
                inner_q = np.array([not (abs(x - wt[0]) < 1e-12 * wt[0] or abs(x - wt[-1]) < 1e-12 * wt[-1]) for x in q])
                subsets = [('infrared-only', (q > 0.6) & inner_q), ('ultraviolet-only', (q < 0.5) & inner_q)] + [('single', np.arange(len(q)) == i_) for i_ in (1, len(q) // 2, len(q) - 3) if inner_q[i_]]
                for sname_, mask_ in subsets:
                    if not np.any(mask_):
                        continue
                    try:
                        rs = np.asarray(obj.get_av((q[mask_] * u.micron).to(qu)), dtype=float)
                    except Exception as ex:
                        rec.violation('get_av|exception|query-shape', dict(sub, queries=sname_), {'type': type(ex).__name__, 'msg': str(ex)[:200]})
                        continue
                    rec.ev()
                    rec.cls('queries-not-bracketing-V')
                    if rs.shape != exp[mask_].shape or not np.all(np.abs(rs - exp[mask_]) <= 1e-9 * np.maximum(1, np.abs(exp[mask_]))):
                        rec.violation('get_av|value|queries-%s' % sname_, dict(sub, queries=sname_), {'query_micron': q[mask_][:6], 'got': rs[:6], 'expected': exp[mask_][:6], 'rows': len(wt)})
                        break
            # the same law queried with the wavelengths in another order (first and last inside the table, outside points in
            # between) and as a 2-d array: point-wise the same answers
            if fname == 'fresh':
                perm_q = np.r_[len(q) - 1, np.arange(0, len(q) - 1)]            # 0.55 first ... ; last element is 'above the table'
                q2 = np.r_[q[perm_q], wt[len(wt) // 2]]
                e2 = np.r_[exp[perm_q], extref.pattern(list(wt), list(ct), [wt[len(wt) // 2]])[0]]
                try:
                    r2 = np.asarray(obj.get_av((q2 * u.micron).to(qu)), dtype=float)
                    r3 = np.asarray(obj.get_av((q2[:2 * (len(q2) // 2)].reshape(2, -1) * u.micron).to(qu)), dtype=float).ravel()
                except Exception as ex:
                    rec.violation('get_av|exception|query-shape', sub, {'type': type(ex).__name__, 'msg': str(ex)[:200]})
                    continue
                rec.ev(2)
                rec.cls('query-unsorted-and-2d')
                edge = np.array([abs(x - wt[0]) < 1e-12 * wt[0] or abs(x - wt[-1]) < 1e-12 * wt[-1] for x in q2])
                okq = np.all((np.abs(r2 - e2) <= 1e-9 * np.maximum(1, np.abs(e2))) | (edge & (r2 == 0) & (not same_unit)))
                n3 = len(r3)
                okq = okq and np.all((np.abs(r3 - e2[:n3]) <= 1e-9 * np.maximum(1, np.abs(e2[:n3]))) | (edge[:n3] & (r3 == 0) & (not same_unit)))
                if not okq:
                    rec.violation('get_av|value|query-order-or-shape', sub, {'query_micron': q2[:6], 'got': r2[:6], 'expected': e2[:6]})
            # a query made of the table's own numbers but in another unit of length: they are other wavelengths
            if fname == 'fresh':
                native = (wt * u.micron).to(wu).value
                other = u.nm if wu != u.nm else u.micron
                q4 = (native * other).to(u.micron).value
                try:
                    r4 = np.asarray(obj.get_av(native * other), dtype=float)
                    e4 = np.asarray(extref.pattern(list(wt), list(ct), list(q4)), float)
                except Exception as ex:
                    rec.violation('get_av|exception|query-shape', dict(sub, queries='table-numbers-in-another-unit'), {'type': type(ex).__name__, 'msg': str(ex)[:200]})
                    continue
                rec.ev()
                rec.cls('query-with-the-numbers-of-the-table-in-another-unit')
                edge4 = np.array([abs(x - wt[0]) < 1e-9 * wt[0] or abs(x - wt[-1]) < 1e-9 * wt[-1] for x in q4])
                if r4.shape != e4.shape or not np.all((np.abs(r4 - e4) <= 1e-9 * np.maximum(1, np.abs(e4))) | (edge4 & (r4 == 0))):
                    rec.violation('get_av|value|table-numbers-in-another-unit', dict(sub, queries='table-numbers-in-another-unit'),
                                  {'table_numbers': native[:6], 'table_unit': str(wu), 'query_unit': str(other), 'got': r4[:6], 'expected': e4[:6]})
            if first:
                rec.sample({'table_wav_micron': wt[:5], 'table_chi': ct[:5], 'queries_micron': q[:8], 'expected': exp[:8], 'units': sub})
                first = False
    # two laws built on the SAME Quantity objects; one of them is then given other columns: the other one is untouched
    wq, cq = wt * u.micron, ct * case['sc'] * u.cm ** 2 / u.g
    ea, eb = Extinction(), Extinction()
    for e_ in (ea, eb):
        e_.wav = wq
        e_.chi = cq
    try:
        eb.get_av(np.array([0.55, 1.0]) * u.micron)
        eb.chi = (ct[::-1] * 3.0 + 0.25) * u.cm ** 2 / u.g
        eb.wav = (wt * np.linspace(0.97 if wt[0] * 0.97 <= 0.55 else 1.0, 1.03 if wt[-1] * 1.03 >= 0.55 else 1.0, len(wt))) * u.micron
        ra_ = np.asarray(ea.get_av(q * u.micron), float)
        rec.ev()
        rec.trans(3)
        rec.cls('two-laws-on-the-same-arrays')
        if not np.allclose(ra_, exp, rtol=1e-9, atol=1e-12) or not np.array_equal(wq.value, wt) or not np.array_equal(cq.value, ct * case['sc']):
            rec.violation('history|get_av-after-other-law-changed', {'shared_arrays': True}, {'problem': 'a law built on the same arrays as another one changed when the other was given new columns', 'got': ra_[:5], 'expected': exp[:5]})
    except Exception as ex:
        rec.violation('history|exception', {'shared_arrays': True}, {'type': type(ex).__name__, 'msg': str(ex)[:200]})
    # the text-file reader on a file that is replaced by another law under the same name between two reads
    pth = os.path.join(d, 'law_again.txt')
    for rep_, (w_, c_) in enumerate(((wt, ct), (wt * 1.5, ct[::-1] * 2.0 + 1.0))):
        np.savetxt(pth, np.column_stack([w_, c_]))
        try:
            e_ = Extinction.from_file(pth)
            ok_ = np.allclose(e_.wav.to(u.micron).value, w_, rtol=1e-15) and np.allclose(e_.chi.to(u.cm ** 2 / u.g).value, c_, rtol=1e-15)
        except Exception as ex:
            rec.violation('from_file|exception', {'read': rep_}, {'type': type(ex).__name__, 'msg': str(ex)[:200]})
            break
        rec.ev()
        rec.trans()
        if rep_:
            rec.cls('law-file-replaced-and-read-again')
        if not ok_:
            rec.violation('from_file|columns', {'same_path_read': rep_ + 1}, {'wav_read': e_.wav.value[:4], 'wav_in_file': w_[:4], 'chi_read': e_.chi.value[:4], 'chi_in_file': c_[:4]})
            break
    # the text-file reader on opacities multiplied by a huge and by a tiny constant, so that SOME rows need three-digit exponents
    for big_sc in (3e98, 2e-96):
        pth2 = os.path.join(d, 'law_scaled.txt')
        np.savetxt(pth2, np.column_stack([wt, ct * big_sc]))
        try:
            e_ = Extinction.from_file(pth2)
            r_ = np.asarray(e_.get_av(q * u.micron), float)
        except Exception as ex:
            rec.violation('from_file|exception', {'scaled_by': big_sc}, {'type': type(ex).__name__, 'msg': str(ex)[:200]})
            continue
        rec.ev()
        rec.trans()
        rec.cls('law-file-with-three-digit-exponents')
        if len(e_.wav) != len(wt) or not np.allclose(r_, exp, rtol=1e-9, atol=1e-12):
            rec.violation('from_file|columns', {'scaled_by': big_sc}, {'rows_read': len(e_.wav), 'rows_in_file': len(wt), 'got': r_[:5], 'expected': exp[:5]})
    # the text-file reader: every ordered column pair of a 2..4 column file, both unit arguments
    for ncol in (2, 3, 4):
        cols = [wt, ct * case['sc'], ct * 2 * case['sc'], wt * 3][:ncol]
        path = os.path.join(d, 'law%d.txt' % ncol)
        np.savetxt(path, np.column_stack(cols), header='comment line')
        kinds = ['w', 'c', 'c', 'w'][:ncol]
        for i, j in itertools.permutations(range(ncol), 2):
            if kinds[i] != 'w' or kinds[j] != 'c':
                continue
            for wun, cun in ((u.micron, u.cm ** 2 / u.g), (u.nm, u.m ** 2 / u.kg)):
                sub = {'file_cols': ncol, 'columns': [i, j], 'wav_unit': str(wun), 'chi_unit': str(cun)}
                try:
                    kw = {} if (i, j) == (0, 1) and ncol == 2 and wun == u.micron else {'columns': (i, j)}
                    if wun == u.nm and ncol >= 3:
                        # columns may be counted from the end, as anywhere in python
                        kw = {'columns': (i - ncol if i % 2 == 0 else i, j - ncol if j % 2 == 1 else j)}
                        sub['columns'] = list(kw['columns'])
                        rec.cls('columns-counted-from-the-end')
                    e = Extinction.from_file(path, wav_unit=wun, chi_unit=cun, **kw)
                    w_read = e.wav.to(wun).value
                    c_read = e.chi.to(cun).value
                    qf = (q if i == 0 else q * 3) * wun
                    wtab = np.asarray(cols[i]) * (1.0 if wun == u.micron else 1e-3)    # table as read, in micron
                    r = np.asarray(e.get_av(qf), dtype=float)
                except Exception as ex:
                    rec.violation('from_file|exception', sub, {'type': type(ex).__name__, 'msg': str(ex)[:200]})
                    continue
                rec.ev()
                rec.trans()
                rec.cls('file')
                ok = np.allclose(w_read, cols[i], rtol=1e-15, atol=0) and np.allclose(c_read, cols[j], rtol=1e-15, atol=0)
                # get_av on the table as read (in wun): only meaningful if it covers V
                if ok and wtab[0] <= 0.55 <= wtab[-1]:
                    qm = (qf.to(u.micron).value)
                    expf = np.array(extref.pattern(list(wtab), list(cols[j]), list(qm)))
                    inner = np.array([not (abs(x - wtab[0]) < 1e-9 * wtab[0] or abs(x - wtab[-1]) < 1e-9 * wtab[-1] or abs(x - 0.55) < 1e-9) for x in qm])
                    ok = np.allclose(r[inner], expf[inner], rtol=1e-9, atol=1e-12)
                if not ok:
                    rec.violation('from_file|columns', sub, {'wav_read': w_read[:4], 'chi_read': c_read[:4], 'wav_col': cols[i][:4], 'chi_col': cols[j][:4]})
