"""C18 -- filter_output splits sources into two complete, disjoint, faithful files.

E1 over record sequences: four source kinds (good by both criteria / by chi^2
only / by chi^2 per point only / bad by both), EVERY sequence of length 1..5
(quick) / 1..7 (thorough) plus all 2-kind sequences of length 8..10, both
criteria, explicit / automatic output names, input as file or list.
"""
import itertools
import os

import numpy as np

from mc.canon import canon

ID = 'C18'
LEVEL = 'model_checking'
TECHNIQUE = 'exhaustive enumeration of source-kind sequences through the real filter_output; outputs read back and compared as ordered partitions of the input'
LEVEL_TEXT = ('Every sequence of the four source kinds up to length 5 (quick) / 7 (thorough) and every two-kind sequence of length 8..10, for both criteria, with explicit and '
              'automatic output names and the input given as a file or as a list: the two outputs read back must partition the input (every source in exactly one), preserve '
              'the input order within each, place a source in the good file iff its best chi^2 (or best chi^2 per fitted point) is below the threshold, and hold records '
              'canon-equal to the input records.')
LEVEL_NOTE = ('chi^2 values are chosen off the thresholds (equality is outside the quantifier); every record holds at least one fit; a zero-byte output file counts as no records. '
              'Inputs are written with the real FitInfoFile writer.')
RULE = ("cases: chunks of kind sequences; executions: filter_output per (sequence, criterion, input form, naming); one evaluation per source placed; non-trivial = distinct "
        "(sequence, criterion) that contain both good and bad sources")
ASSUMPTIONS = ["best chi^2 never equals the threshold", "n_data >= 1"]
REQUIRED_CLASSES = ['automatic-names-for-an-input-with-dots-in-its-name', 'statistic-a-hair-below-the-threshold', 'best-chi2-exactly-zero', 'outputs-named-AUTO', 'ranking-with-tied-rows', 'output-names-derived-from-the-input-name', 'bare-output-names', 'ranking-ends-in-nan-rows', 'record-over-64KiB-among-small-ones', 'arguments-by-position', 'criterion-chi', 'criterion-cpd', 'auto-names', 'explicit-names', 'input-file', 'input-list', 'all-good', 'all-bad', 'mixed', 'good-by-chi-only', 'good-by-cpd-only',
                    'length-10', 'one-name-explicit', 'best-chi2-nan-or-inf', 'flags-edited-in-place-between-calls']
TIMEOUT = {'quick': 600, 'thorough': 3000}

CHI_T, CPD_T = 10.0, 3.0
#        best chi2, flags (n_data = count of 1/4)
KINDS = {'G': (4.0, (1, 4, 0, 9)), 'C': (8.0, (1, 1, 2, 3)), 'P': (12.0, (1, 1, 4, 1, 1, 0)), 'B': (40.0, (4, 1, 3)),
         'N': (float('nan'), (1, 1, 4)), 'I': (float('inf'), (1, 4)),        # a best chi^2 that is NaN or infinite is not below any threshold
         'T': (4.0, (1, 4, 0, 9)),        # like G, but the ranking ends in NaN rows (invalid models ranked last): the best chi^2 is still 4
         'H': (4.0, (1, 4, 0, 9)),        # like G, with 400 fits and their fluxes: a record of more than 64 KiB among small ones
         'J': (40.0, (4, 1, 3)),         # like B, 400 fits
         'K': (9.99995, (1, 4, 0, 9)),   # best chi^2 a hair below the chi threshold (good by chi: 9.99995 < 10; bad by cpd: 5 >= 3)
         'L': (8.99997, (1, 1, 4, 0)),   # chi^2 per point a hair below the cpd threshold (2.99999 < 3): good by both
         'Z': (0.0, (1, 4, 0, 9)),       # a perfect best fit: chi^2 exactly 0
         'Q': (4.0, (1, 4, 0, 9))}       # like G, four fits of which the last two are tied at 1e30 (and the model indices are not in rank order)
GOOD = {'chi': {'G', 'C', 'T', 'H', 'Q', 'K', 'L', 'Z'}, 'cpd': {'G', 'P', 'T', 'H', 'Q', 'L', 'Z'}}


def setup(tier, seed):
    lmax = 5 if tier == 'quick' else 7
    seqs = [''.join(t) for L in range(1, lmax + 1) for t in itertools.product('GCPB', repeat=L)]
    for a, b in itertools.combinations('GCPB', 2):
        for L in (8, 9, 10):
            for t in itertools.product(a + b, repeat=L):
                if tier == 'thorough' or (sum(1 for x in t if x == a) in (1, L - 1, L // 2) and t[0] != t[-1]):
                    seqs.append(''.join(t))
    # sources whose best chi^2 is NaN / infinite (every fit failed): all sequences of length <= 3 that contain one
    for L in (1, 2, 3):
        for t in itertools.product('GBNI', repeat=L):
            if 'N' in t or 'I' in t:
                seqs.append(''.join(t))
    # rankings ending in NaN rows; records of more than 64 KiB between small ones (every order of up to 3, and two longer runs)
    for L in (1, 2, 3):
        for t in itertools.product('GBT', repeat=L):
            if 'T' in t:
                seqs.append(''.join(t))
    for L in (1, 2, 3):
        for t in itertools.product('GBHJ', repeat=L):
            if ('H' in t or 'J' in t) and (tier == 'thorough' or sum(1 for x in t if x in 'HJ') == 1):
                seqs.append(''.join(t))
    seqs += ['GBGHGBJB', 'BGJGHG']
    for L in (1, 2, 3):
        for t in itertools.product('GBKLZ', repeat=L):
            if set(t) & set('KLZ'):
                seqs.append(''.join(t))
    for L in (1, 2, 3):
        for t in itertools.product('GBQ', repeat=L):
            if 'Q' in t:
                seqs.append(''.join(t))
    chunk = 60
    return {'tier': tier, 'seed': seed, 'cases': [{'seqs': seqs[i:i + chunk], 'first': i} for i in range(0, len(seqs), chunk)]}


def cases(ctx):
    return iter(ctx['cases'])


def evidence_extra(ctx):
    return {'bounds': 'all sequences of length 1..%d over 4 kinds + two-kind sequences of length 8..10; x 2 criteria x {file, list} x {explicit, automatic names}' % (5 if ctx['tier'] == 'quick' else 7),
            'alphabet_digest': 'kinds=%s thresholds chi=%g cpd=%g' % ({k: v[0] for k, v in KINDS.items()}, CHI_T, CPD_T)}


def _meta():
    from astropy import units as u
    from sedfitter.extinction import Extinction
    e = Extinction()
    e.wav = np.array([0.1, 0.55, 2.0]) * u.micron
    e.chi = np.array([9.0, 2.0, 0.3]) * u.cm ** 2 / u.g
    return '/nonexistent/pkg', [{'aperture_arcsec': 1.0, 'name': 'F1', 'wav': 1.2 * u.micron}], e


def _record(kind, idx, meta):
    from sedfitter.fit_info import FitInfo
    from sedfitter.source import Source
    best, flags = KINDS[kind]
    s = Source()
    s.name = 'src%03d_%s' % (idx // 2 * 2, 'x')        # names repeat in pairs: two sources may carry the same name
    s.x = float(idx)
    s.y = -float(idx)
    s.valid = np.array(flags)
    s.flux = np.arange(len(flags)) + 1.5
    s.error = np.ones(len(flags)) * 0.25
    i = FitInfo(s)
    n = 1 + idx % 3
    if kind in 'HJ':
        n = 400
    if kind in 'TQ':
        n = 4
    i.chi2 = best + np.arange(n) * 1.75 + (0.0 if kind in 'KLZ' else 0.01 * idx) if best == best else np.array([best] * n)
    if kind == 'T':
        i.chi2[2:] = np.nan
    if kind == 'Q':
        i.chi2[2:] = 1e30
    i.av = np.arange(n) * 0.5
    i.sc = np.arange(n) * -0.25
    i.model_id = np.arange(n)[::-1].copy()
    i.model_name = np.array(['m%d' % q if idx % 2 else ('m%d' % q).ljust(12) for q in range(n)], dtype='U30')        # every other record: names padded to a fixed width
    i.model_fluxes = None if (idx % 2 and kind not in 'HJ') else np.arange(n * len(flags), dtype=float).reshape(n, len(flags))
    i.meta.model_dir, i.meta.filters, i.meta.extinction_law = meta
    return i


def _strip(i):
    return [i.source, np.asarray(i.av), np.asarray(i.sc), np.asarray(i.chi2), np.asarray(i.model_id), np.asarray(i.model_name), None if i.model_fluxes is None else np.asarray(i.model_fluxes),
            i.meta.model_dir, i.meta.filters, i.meta.extinction_law]


def _read(path):
    from sedfitter.fit_info import FitInfoFile
    if not os.path.exists(path):
        return None
    if os.path.getsize(path) == 0:
        return []
    f = FitInfoFile(path, 'r')
    out = list(f)
    f.close()
    return out


def run_case(ctx, case, rec, d):
    from sedfitter import filter_output
    from sedfitter.fit_info import FitInfoFile
    meta = _meta()
    n = 0
    for si, seq in enumerate(case['seqs']):
        idx = case['first'] + si
        for crit in ('chi', 'cpd'):
            form = ['file', 'list'][(idx + (crit == 'cpd')) % 2] if len(seq) > 3 else None
            for frm in (['file', 'list'] if form is None else [form]):
                naming = ['auto', 'explicit', 'good-explicit', 'bad-explicit', 'derived', 'bare'][(idx + len(seq)) % 6] if frm == 'file' else ['explicit', 'bare'][(idx + len(seq)) % 2]
                n += 1
                recs = [_record(k, j, meta) for j, k in enumerate(seq)]
                want_c = [canon(_strip(r)) for r in recs]
                # an input that is itself a '_good' file of an earlier pass; inputs whose names hold dots (the automatic names append to the whole name)
                sfx = ['_good', '', '.run2', '', '.v1.2.fits', '.'][n % 6]
                inp = os.path.join(d, 'in_%d%s' % (n, sfx))
                if '.' in sfx and frm == 'file' and naming in ('auto', 'good-explicit', 'bad-explicit'):
                    rec.cls('automatic-names-for-an-input-with-dots-in-its-name')
                if frm == 'file':
                    fo = FitInfoFile(inp, 'w')
                    for r in recs:
                        fo.write(r)
                    fo.close()
                    arg = inp
                else:
                    arg = recs
                kw = {'chi': CHI_T} if crit == 'chi' else {'cpd': CPD_T}
                good_p, bad_p = inp + '_good', inp + '_bad'
                if naming in ('explicit', 'good-explicit'):
                    good_p = os.path.join(d, 'g_%d' % n)
                    kw['output_good'] = good_p
                if naming in ('explicit', 'bad-explicit'):
                    bad_p = os.path.join(d, 'b_%d' % n)
                    kw['output_bad'] = bad_p
                if naming == 'derived':
                    # explicit names derived from the input's own name
                    good_p, bad_p = inp + '.good', inp + '.bad'
                    kw['output_good'], kw['output_bad'] = good_p, bad_p
                    rec.cls('output-names-derived-from-the-input-name')
                cwd0 = os.getcwd()
                if naming == 'bare':
                    # bare file names, relative to the working directory
                    os.chdir(d)
                    kw['output_good'], kw['output_bad'] = 'bg_%d' % n, 'bb_%d' % n
                    good_p, bad_p = os.path.join(d, 'bg_%d' % n), os.path.join(d, 'bb_%d' % n)
                    rec.cls('bare-output-names')
                    if n % 2 == 0:
                        # a file may be called AUTO or Auto: only the exact keyword 'auto' asks for automatic names
                        kw['output_good'], kw['output_bad'] = 'AUTO', 'Auto'
                        good_p, bad_p = os.path.join(d, 'AUTO'), os.path.join(d, 'Auto')
                        for old_ in (good_p, bad_p):
                            if os.path.exists(old_):
                                os.remove(old_)
                        rec.cls('outputs-named-AUTO')
                sub = {'seq': seq, 'criterion': crit, 'form': frm, 'naming': naming}
                try:
                    if naming == 'explicit' and n % 3 == 0:
                        # the documented argument order, by position
                        rec.cls('arguments-by-position')
                        filter_output(*([arg, good_p, bad_p, CHI_T] if crit == 'chi' else [arg, good_p, bad_p, None, CPD_T]))
                    else:
                        filter_output(arg, **kw)
                    good, bad = _read(good_p), _read(bad_p)
                except Exception as e:
                    from mc.runner import exc_signature
                    rec.violation('filter_output|' + exc_signature(e), sub, {'type': type(e).__name__, 'msg': str(e)[:300]})
                    continue
                finally:
                    os.chdir(cwd0)
                rec.trans()
                rec.trace()
                rec.ev(len(seq))
                rec.state((seq, crit, frm, naming))
                rec.cls('criterion-' + crit)
                rec.cls({'auto': 'auto-names', 'explicit': 'explicit-names', 'derived': 'explicit-names', 'bare': 'explicit-names'}.get(naming, 'one-name-explicit'))
                if 'N' in seq or 'I' in seq:
                    rec.cls('best-chi2-nan-or-inf')
                if 'T' in seq:
                    rec.cls('ranking-ends-in-nan-rows')
                if 'Q' in seq:
                    rec.cls('ranking-with-tied-rows')
                if set(seq) & set('KL'):
                    rec.cls('statistic-a-hair-below-the-threshold')
                if 'Z' in seq:
                    rec.cls('best-chi2-exactly-zero')
                if ('H' in seq or 'J' in seq) and len(seq) > 1:
                    rec.cls('record-over-64KiB-among-small-ones')
                rec.cls('input-' + frm)
                if len(seq) == 10:
                    rec.cls('length-10')
                exp_good = [j for j, k in enumerate(seq) if k in GOOD[crit]]
                exp_bad = [j for j, k in enumerate(seq) if k not in GOOD[crit]]
                rec.cls('all-good' if not exp_bad else 'all-bad' if not exp_good else 'mixed')
                if exp_good and exp_bad:
                    rec.nontriv((seq, crit))
                if 'C' in seq:
                    rec.cls('good-by-chi-only')
                if 'P' in seq:
                    rec.cls('good-by-cpd-only')
                bad_msg = None
                if good is None or bad is None:
                    bad_msg = 'an output file is missing'
                else:
                    gc = [canon(_strip(r)) for r in good]
                    bc = [canon(_strip(r)) for r in bad]
                    rec.outcome((len(gc), len(bc)))
                    if gc != [want_c[j] for j in exp_good] or bc != [want_c[j] for j in exp_bad]:
                        gn = ['%s#%d' % (r.source.name, int(r.source.x)) for r in good]
                        bn = ['%s#%d' % (r.source.name, int(r.source.x)) for r in bad]
                        allnames = ['%s#%d' % (r.source.name, int(r.source.x)) for r in recs]
                        if sorted(gn + bn) != sorted(allnames):
                            bad_msg = 'the two outputs do not partition the input: good=%r bad=%r' % (gn, bn)
                        elif gn != [allnames[j] for j in exp_good] or bn != [allnames[j] for j in exp_bad]:
                            bad_msg = 'wrong side or wrong order: good=%r (expected %r), bad=%r' % (gn, [allnames[j] for j in exp_good], bn)
                        else:
                            bad_msg = 'a record was altered on its way to the output'
                    if frm == 'list' and [canon(_strip(r)) for r in recs] != want_c:
                        bad_msg = 'the list of results passed in was modified'
                if bad_msg:
                    kind = 'partition' if 'partition' in bad_msg else 'side-or-order' if 'wrong side' in bad_msg else 'record' if 'altered' in bad_msg else 'other'
                    rec.violation('filter_output|%s|%s' % (kind, crit), sub, {'problem': bad_msg, 'best_chi2': [float(r.chi2[0]) for r in recs], 'n_data': [int(r.source.n_data) for r in recs]})
        # ---- the same list filtered twice with a flag changed in place in between (n_data of that source changes sides for cpd)
        if si % 10 == 3 and 'P' in seq:
            recs = [_record(k, j, meta) for j, k in enumerate(seq)]
            n += 1
            g1, b1 = os.path.join(d, 'lg1_%d' % n), os.path.join(d, 'lb1_%d' % n)
            g2, b2 = os.path.join(d, 'lg2_%d' % n), os.path.join(d, 'lb2_%d' % n)
            try:
                filter_output(recs, output_good=g1, output_bad=b1, cpd=CPD_T)
                jp = seq.index('P')
                # 'P' has 5 fitted points (12/5 = 2.4 < 3): switch three of them off in place -> 12/2 = 6 >= 3: now bad
                for q in (0, 1, 3):
                    recs[jp].source.valid[q] = 0
                filter_output(recs, output_good=g2, output_bad=b2, cpd=CPD_T)
                good2 = _read(g2)
                rec.trans(2)
                rec.ev()
                rec.cls('flags-edited-in-place-between-calls')
                want_c = canon(_strip(recs[jp]))
                if any(canon(_strip(r_)) == want_c for r_ in good2):
                    rec.violation('filter_output|stale-n_data|cpd', {'seq': seq, 'live': True}, {'problem': 'after three fitted points were switched off in place the source has chi2/n = 6 >= 3 but still went to the good file'})
            except Exception as e:
                from mc.runner import exc_signature
                rec.violation('filter_output|live|' + exc_signature(e), {'seq': seq, 'live': True}, {'type': type(e).__name__, 'msg': str(e)[:300]})
        if si == 7:
            rec.sample({'sequence': seq, 'kinds': {k: {'best_chi2': v[0], 'n_data': sum(1 for q in v[1] if q in (1, 4))} for k, v in KINDS.items()}, 'thresholds': {'chi': CHI_T, 'cpd': CPD_T}})
