import sys, os; sys.path.insert(0, os.getcwd())
# Demonstration for change p2 (V-band opacity remembered on the object, keyed
# on the content of the table).  Checks property C14 against a pure-Python
# reference that never touches numpy.interp or astropy unit conversion.
import pickle
import warnings

warnings.simplefilter('ignore')

import numpy as np
from astropy import units as u

import sedfitter
from sedfitter.extinction import Extinction

assert os.path.dirname(os.path.dirname(os.path.abspath(sedfitter.__file__))) == os.getcwd(), sedfitter.__file__

# conversion factors to micron / to cm^2/g, written down by hand
LEN = {'micron': 1.0, 'nm': 1e-3, 'Angstrom': 1e-4, 'mm': 1e3, 'cm': 1e4, 'm': 1e6}
OPA = {'cm2/g': 1.0, 'm2/kg': 10.0}
LEN_U = {'micron': u.micron, 'nm': u.nm, 'Angstrom': u.AA, 'mm': u.mm, 'cm': u.cm, 'm': u.m}
OPA_U = {'cm2/g': u.cm ** 2 / u.g, 'm2/kg': u.m ** 2 / u.kg}

RTOL = 1e-9
ATOL = 1e-12
failures = []


def check(cond, msg):
    if not cond:
        failures.append(msg)
        print('FAIL:', msg)


def lin(tw, tc, x):
    """Piecewise-linear interpolation, pure python; x must be inside."""
    n = len(tw)
    for j in range(n - 1):
        if tw[j] <= x <= tw[j + 1]:
            if x == tw[j]:
                return tc[j]
            if x == tw[j + 1]:
                return tc[j + 1]
            t = (x - tw[j]) / (tw[j + 1] - tw[j])
            return tc[j] + t * (tc[j + 1] - tc[j])
    raise ValueError(x)


def reference(tw_um, tc, q_um):
    """-0.4 chi(lambda)/chi(0.55) with zero outside, everything in micron."""
    tw_um = [float(v) for v in tw_um]
    tc = [float(v) for v in tc]
    cv = lin(tw_um, tc, 0.55)
    out = []
    for x in q_um:
        x = float(x)
        if x < tw_um[0] or x > tw_um[-1]:
            out.append(0.0)
        else:
            out.append(-0.4 * lin(tw_um, tc, x) / cv)
    return out


def close(a, b):
    a = np.asarray(a, float).ravel()
    b = np.asarray(b, float).ravel()
    return a.shape == b.shape and bool(np.all(np.abs(a - b) <= ATOL + RTOL * np.abs(b)))


def make_law(tw_um, tc_cgs, lu, ou):
    e = Extinction()
    e.wav = (np.asarray(tw_um, float) / LEN[lu]) * LEN_U[lu]
    e.chi = (np.asarray(tc_cgs, float) / OPA[ou]) * OPA_U[ou]
    return e


def random_table(rng, n):
    """Increasing wavelengths (micron) covering 0.55 with a margin."""
    lo = 10 ** rng.uniform(-2.5, -0.5)       # < 0.32
    hi = 10 ** rng.uniform(0.0, 3.0)         # > 1
    if n == 2:
        tw = np.array([lo, hi])
    else:
        inner = np.sort(10 ** rng.uniform(np.log10(lo), np.log10(hi), n - 2))
        tw = np.concatenate([[lo], inner, [hi]])
        # keep the nodes well separated so that unit round-off is not amplified
        keep = np.concatenate([[True], np.diff(tw) > 1e-4 * tw[1:]])
        tw = tw[keep]
        tw[-1] = hi
    tc = 10 ** rng.uniform(-2, 4, tw.size)
    return tw, tc


def queries(rng, tw, margin=1e-7):
    """Query wavelengths (micron): inside, outside, on nodes, near V."""
    lo, hi = tw[0], tw[-1]
    inside = 10 ** rng.uniform(np.log10(lo * (1 + margin)), np.log10(hi * (1 - margin)), 25)
    outside = np.array([lo * 0.5, lo * (1 - 1e-6), hi * (1 + 1e-6), hi * 7.0, 1e-4, 1e5])
    mid = 0.5 * (tw[:-1] + tw[1:])
    return np.concatenate([inside, outside, mid[:10], [0.55]])


rng = np.random.default_rng(20141)


def law_state(e):
    """(table in micron, chi in cm2/g) read back from the object by hand."""
    lu = [k for k in LEN if LEN_U[k] == e.wav.unit][0]
    ou = [k for k in OPA if OPA_U[k] == e.chi.unit][0]
    return np.asarray(e.wav.value, float) * LEN[lu], np.asarray(e.chi.value, float) * OPA[ou]


def verify(e, q_um, label, qu='micron'):
    """get_av of the object against the reference for its *current* table,
    asked twice (the second call must agree with the first)."""
    tw, tc = law_state(e)
    ref = reference(tw, tc, q_um)
    q = (np.asarray(q_um, float) / LEN[qu]) * LEN_U[qu]
    first = e.get_av(q)
    second = e.get_av(q)
    check(first.unit.is_equivalent(u.dimensionless_unscaled), label + ': unit-free')
    check(close(first.to_value(u.dimensionless_unscaled), ref), label + ': first call')
    check(np.array_equal(np.asarray(first), np.asarray(second)), label + ': second call')
    v = np.asarray(e.get_av([0.55] * u.micron), float)
    check(abs(v[0] + 0.4) <= 1e-12, label + ': V band %r' % v)
    return np.asarray(first, float)


# ---------------------------------------------------------------------------
# 1. many random tables in all units; each is queried repeatedly
# ---------------------------------------------------------------------------
for n in (2, 3, 5, 20, 77, 200):
    tw, tc = random_table(rng, n)
    q = queries(rng, tw)
    for lu in LEN:
        for ou in OPA:
            e = make_law(tw, tc, lu, ou)
            for qu in ('micron', 'nm', 'm'):
                verify(e, q, 'n=%d %s %s %s' % (n, lu, ou, qu), qu)

# ---------------------------------------------------------------------------
# 2. one object whose table is changed in every possible way between calls
# ---------------------------------------------------------------------------
tw, tc = random_table(rng, 30)
q = queries(rng, tw)
e = make_law(tw, tc, 'micron', 'cm2/g')
base = verify(e, q, 'fresh')

# (a) chi multiplied by constants through the setter: pattern unchanged
for k in (7.0, 1e-20, 1e20, 0.3):
    e.chi = e.chi * k
    got = verify(e, q, 'chi * %g (setter)' % k)
    check(close(got, base), 'pattern changed when chi was scaled by %g' % k)
    e.chi = e.chi / k

# (b) chi replaced by a different law through the setter (same length)
tc2 = tc[::-1].copy()
e.chi = tc2 * u.cm ** 2 / u.g
got = verify(e, q, 'new chi (setter)')
check(not close(got, base), 'a different law must give a different pattern')

# (c) chi modified in place, element-wise and as a whole (no setter involved)
e.chi[:] = tc * (u.cm ** 2 / u.g)
check(close(verify(e, q, 'chi[:] = ... in place'), base), 'in-place restore')
k = int(np.searchsorted(tw, 0.55))           # the two nodes around V
e.chi[k - 1] = e.chi[k - 1] * 5
e.chi[k] = e.chi[k] * 0.01
verify(e, q, 'chi nodes around V modified in place')
chi_q = e.chi
chi_q *= 3.0                                  # in place on the stored array
verify(e, q, 'chi *= 3 in place')
e.chi.value[...] = tc
check(close(verify(e, q, 'chi.value[...] = ...'), base), 'in-place restore 2')

# (d) augmented assignment on the attribute (getter, in-place, setter)
e.chi *= 11.0
check(close(verify(e, q, 'e.chi *= 11'), base), 'e.chi *= 11')

# (e) wavelengths: new values through the setter, in place, other units
tw2 = tw * np.linspace(1.0, 1.2, tw.size)     # still increasing, still covers V
e.wav = tw2 * u.micron
got = verify(e, q, 'new wav (setter)')
e.wav[:] = tw * u.micron
check(close(verify(e, q, 'wav[:] = ... in place'), base), 'wav restored in place')
e.wav = e.wav.to(u.nm)
check(close(verify(e, q, 'wav in nm (setter)', 'cm'), base), 'wav in nm')
e.wav = (tw * 1e-6) * u.m
e.chi = (e.chi.to(u.m ** 2 / u.kg))
check(close(verify(e, q, 'wav in m, chi in m2/kg', 'Angstrom'), base), 'wav in m, chi in m2/kg')
# same numbers in memory, only the unit differs (both readings cover V)
nums = np.array([1e-5, 2e-4, 3e-4, 0.02, 0.4, 0.7, 5.0, 1e3])
cvals = 10 ** rng.uniform(-2, 4, nums.size)
qh = np.concatenate([nums, nums * 1e3, [1e-6, 0.55, 0.5, 0.6, 30.0, 999.0, 1e5, 2e6]])
h = Extinction()
h.wav = nums * u.micron
h.chi = cvals * u.cm ** 2 / u.g
r_um = verify(h, qh, 'numbers read as micron')
h.wav = nums * u.mm
r_mm = verify(h, qh, 'same numbers read as mm')
check(not close(r_um, r_mm), 'micron and mm tables must differ')
h.chi = cvals * u.m ** 2 / u.kg
check(close(verify(h, qh, 'same opacities read as m2/kg'), r_mm), 'opacity unit must not matter')
h.wav = nums * u.micron
check(close(verify(h, qh, 'back to micron'), r_um), 'back to micron')

# (f) table of a different length: both attributes reset, then set again
tw3, tc3 = random_table(rng, 2)
e.wav = None
e.chi = None
e.chi = (tc3 / 10.) * u.m ** 2 / u.kg
e.wav = (tw3 * 10.) * u.mm / 1e4
q3 = queries(rng, tw3)
verify(e, q3, 'two-row table after reset')
e.__init__()
e.wav = tw * u.micron
e.chi = tc * u.cm ** 2 / u.g
check(close(verify(e, q, 're-initialised'), base), 're-initialised')

# ---------------------------------------------------------------------------
# 3. two objects used alternately, copies, pickles of objects that have
#    already been used, and changes made after unpickling
# ---------------------------------------------------------------------------
import copy
twa, tca = random_table(rng, 12)
twb, tcb = random_table(rng, 150)
a = make_law(twa, tca, 'nm', 'cm2/g')
b = make_law(twb, tcb, 'cm', 'm2/kg')
qa, qb = queries(rng, twa), queries(rng, twb)
for i in range(3):
    verify(a, qa, 'alternating a %d' % i)
    verify(b, qb, 'alternating b %d' % i, 'nm')

for proto in range(0, pickle.HIGHEST_PROTOCOL + 1):
    c = pickle.loads(pickle.dumps(a, protocol=proto))
    check(np.array_equal(c.wav.value, a.wav.value) and c.wav.unit == a.wav.unit, 'pickle wav')
    check(np.array_equal(c.chi.value, a.chi.value) and c.chi.unit == a.chi.unit, 'pickle chi')
    check(close(verify(c, qa, 'unpickled %d' % proto), reference(twa, tca, qa)), 'unpickled')
    c.chi = c.chi[::-1]
    verify(c, qa, 'unpickled %d then modified' % proto)
    verify(a, qa, 'original after the copy was modified')

for cp in (copy.copy, copy.deepcopy):
    c = cp(a)
    verify(c, qa, cp.__name__)
    c.chi = c.chi * 2.0           # new array through the setter of the copy
    c.chi[0] = c.chi[0] * 50.0
    verify(c, qa, cp.__name__ + ' then modified')
    verify(a, qa, 'original after ' + cp.__name__)

# state handed over by hand, as old pickles contain it (only wav and chi)
d = Extinction.__new__(Extinction)
d.__setstate__({'wav': b.wav, 'chi': b.chi})
verify(d, qb, 'state restored by hand')
check(sorted(a.__getstate__()) == ['chi', 'wav'], 'pickled state has other keys')

# table round trip of a used object
t = b.to_table()
f = Extinction.from_table(t)
check(close(verify(f, qb, 'from_table'), reference(twb, tcb, qb)), 'from_table')
t['chi'][:] = t['chi'][::-1].copy()          # the table is independent of the law
verify(b, qb, 'law after its table was modified')

# boundary: V exactly on the first / last node of the table
for tw_, tc_ in (([0.55, 1.0, 3.0], [4.0, 2.0, 1.0]), ([0.1, 0.3, 0.55], [9.0, 6.0, 4.0])):
    g = make_law(tw_, tc_, 'micron', 'cm2/g')
    r = verify(g, [0.55, 0.3, 1.0, 0.54, 0.56, 5.0, 0.01], 'V on an end node')
    g.chi = g.chi * 4
    check(close(verify(g, [0.55, 0.3, 1.0, 0.54, 0.56, 5.0, 0.01], 'V on an end node, scaled'), r), 'end node scaled')

if failures:
    print('%d FAILURES' % len(failures))
    sys.exit(1)
print('demo p2: all checks passed')
