import sys, os; sys.path.insert(0, os.getcwd())

# Demonstration for property C09: parameter listings follow the fit ranking for
# any parameter-file row order.  Everything is checked against an independent
# computation (plain dicts keyed by model name + own selection / formatting).

import copy
import shutil
import tempfile
import warnings

import numpy as np
from astropy.table import Table

import sedfitter
assert os.path.dirname(os.path.abspath(sedfitter.__file__)) == os.path.join(os.getcwd(), 'sedfitter'), sedfitter.__file__

from sedfitter.fit_info import FitInfo, FitInfoFile
from sedfitter.source import Source
from sedfitter.models import load_parameter_table
from sedfitter.write_parameters import write_parameters
from sedfitter.write_parameter_ranges import write_parameter_ranges
from sedfitter.extract_parameters import extract_parameters

warnings.simplefilter('ignore')

ROOT = tempfile.mkdtemp(prefix='c09_demo_')
N_CHECKS = [0]


def check(cond, msg):
    N_CHECKS[0] += 1
    if not cond:
        print("FAILED:", msg)
        shutil.rmtree(ROOT, ignore_errors=True)
        sys.exit(1)


# ----------------------------------------------------------------------------
# Building inputs
# ----------------------------------------------------------------------------

DTYPES = [np.float64, np.float32, np.int32, np.float64]


def make_package(rng, tag, n_models, n_cols, name_first=True):
    """
    Writes <dir>/parameters.fits with rows in a random order and returns
    (dir, names, truth) where truth[name] is the list of python floats of the
    parameters of that model, in column order, and colnames.
    """
    d = os.path.join(ROOT, tag)
    os.mkdir(d)
    names = ['m%s_%05d' % ('x' * int(rng.integers(0, 4)), i) for i in rng.permutation(100000)[:n_models]]
    cols = []
    colnames = []
    for j in range(n_cols):
        dt = DTYPES[j]
        if dt is np.int32:
            v = rng.integers(-1000, 1000, n_models).astype(dt)
        else:
            v = (10. ** rng.uniform(-8, 8, n_models) * rng.choice([-1., 1.], n_models)).astype(dt)
        cols.append(v)
        colnames.append(['MASS', 'tstar', 'Incl_3', 'lastpar'][j])
    perm = rng.permutation(n_models)
    t = Table()
    if name_first:
        t['MODEL_NAME'] = np.array(names, dtype='S30')
    for cn, v in zip(colnames, cols):
        t[cn] = v
    if not name_first:
        t['MODEL_NAME'] = np.array(names, dtype='S30')
    t = t[perm]
    t.write(os.path.join(d, 'parameters.fits'))
    truth = dict((names[i], [float(c[i]) for c in cols]) for i in range(n_models))
    file_order = [names[i] for i in perm]
    return d, names, truth, colnames, file_order


def make_source(rng, name):
    s = Source()
    s.name = name
    s.x = float(rng.uniform(0, 360))
    s.y = float(rng.uniform(-90, 90))
    n_wav = int(rng.integers(3, 9))
    s.valid = rng.choice([0, 1, 2, 3, 4], n_wav)
    s.flux = rng.uniform(0.1, 10, n_wav)
    s.error = rng.uniform(0.01, 1, n_wav)
    return s


def make_info(rng, model_dir, names, source_name, n_fitted=None):
    info = FitInfo(source=make_source(rng, source_name))
    if n_fitted is None:
        n_fitted = len(names)
    order = rng.permutation(len(names))[:n_fitted]
    info.model_name = np.array([names[i] for i in order])
    info.model_id = order
    info.chi2 = np.sort(rng.uniform(0., 50., n_fitted))
    info.av = rng.uniform(0., 20., n_fitted)
    info.sc = rng.uniform(-2., 2., n_fitted)
    info.model_fluxes = None
    info.meta.model_dir = model_dir
    info.meta.filters = [{'name': 'f1'}, {'name': 'f2'}]
    info.meta.extinction_law = 'law'
    return info


def n_data_of(info):
    return int(sum(1 for v in info.source.valid if v in (1, 4)))


def n_selected(info, select_format):
    """Independent implementation of the selectors"""
    form, number = select_format
    chi2 = [float(c) for c in info.chi2]
    if len(chi2) == 0:
        return 0
    nd = n_data_of(info)
    if form == 'A':
        return len(chi2)
    if form == 'N':
        return min(int(number), len(chi2))
    if form == 'C':
        return sum(1 for c in chi2 if c <= number)
    if form == 'D':
        return sum(1 for c in chi2 if c - chi2[0] <= number)
    if form == 'E':
        return sum(1 for c in chi2 if c / nd <= number)
    if form == 'F':
        return sum(1 for c in chi2 if (c - chi2[0]) / nd <= number)
    raise ValueError(form)


def make_additional(rng, names, keys):
    return dict((k, dict((n, float(rng.normal() * 10. ** rng.integers(-3, 4))) for n in names)) for k in keys)


def e3(x):
    return '%.3e' % x


def f3(x):
    return '%.3f' % x


# ----------------------------------------------------------------------------
# Checking the three kinds of output
# ----------------------------------------------------------------------------

def expected_rows(info, sf, truth, additional):
    """List over the selected fits (in rank order) of (name, chi2, av, sc, [pars...])"""
    n = n_selected(info, sf)
    rows = []
    for i in range(n):
        name = str(info.model_name[i])
        pars = list(truth[name]) + [float(additional[k][name]) for k in additional]
        rows.append((name, float(info.chi2[i]), float(info.av[i]), float(info.sc[i]), pars))
    return rows


def check_write_parameters(path, infos, sf, truth, colnames, additional, label):
    lines = open(path).read().split('\n')
    check(lines[-1] == '', label + ': file ends with newline')
    lines = lines[:-1]
    check(lines[0].split() == ['source_name', 'n_data', 'n_fits'], label + ': header 1')
    check(lines[1].split() == ['fit_id', 'model_name', 'chi2', 'av', 'scale'] + [c.lower() for c in colnames] + [k.lower() for k in additional],
          label + ': header 2 %r' % lines[1])
    check(set(lines[2]) == set('-'), label + ': header 3')
    pos = 3
    for info in infos:
        rows = expected_rows(info, sf, truth, additional)
        tok = lines[pos].split()
        check(tok == [info.source.name, str(n_data_of(info)), str(len(rows))], label + ': source line %r' % lines[pos])
        pos += 1
        for i, (name, chi2, av, sc, pars) in enumerate(rows):
            tok = lines[pos].split()
            exp = [str(i + 1), name, f3(chi2), f3(av), f3(sc)] + [e3(p) for p in pars]
            check(tok == exp, label + ': fit line %i of %s: %r != %r' % (i + 1, info.source.name, tok, exp))
            pos += 1
    check(pos == len(lines), label + ': no extra lines')


def check_write_parameter_ranges(path, infos, sf, truth, colnames, additional, label):
    lines = open(path).read().split('\n')
    check(lines[-1] == '', label + ': file ends with newline')
    lines = lines[:-1]
    check(lines[0].split() == ['chi2', 'av', 'scale'] + [c.lower() for c in colnames] + [k.lower() for k in additional], label + ': header 1')
    check(lines[1].split() == ['source_name', 'n_data', 'n_fits'] + ['min', 'best', 'max'] * (3 + len(colnames) + len(additional)), label + ': header 2')
    check(set(lines[2]) == set('- '), label + ': header 3')
    check(len(lines) == 3 + len(infos), label + ': one line per source')
    for info, line in zip(infos, lines[3:]):
        rows = expected_rows(info, sf, truth, additional)
        exp = [info.source.name, str(n_data_of(info)), str(len(rows))]
        n_quant = 3 + len(colnames) + len(additional)
        if len(rows) == 0:
            exp += ['-'] * (3 * n_quant)
        else:
            quantities = [[r[1] for r in rows], [r[2] for r in rows], [r[3] for r in rows]]
            for j in range(len(colnames) + len(additional)):
                quantities.append([r[4][j] for r in rows])
            for q in quantities:
                exp += [e3(min(q)), e3(q[0]), e3(max(q))]
        check(line.split() == exp, label + ': ranges of %s: %r != %r' % (info.source.name, line.split(), exp))


def check_extract_parameters(prefix, suffix, infos, sf, truth, table_colnames, parameters, header, label):
    # table_colnames: the columns of the file in file order (including MODEL_NAME)
    if parameters == 'all':
        parameters = table_colnames
    numeric = [c for c in table_colnames if c != 'MODEL_NAME']
    for info in infos:
        path = (prefix or '') + info.source.name + (suffix or '')
        lines = open(path).read().split('\n')
        check(lines[-1] == '', label + ': ends with newline')
        lines = lines[:-1]
        if header:
            check(lines[0].split() == ['CHI2', 'AV', 'SC'] + list(parameters), label + ': header')
            lines = lines[1:]
        rows = expected_rows(info, sf, truth, {})
        check(len(lines) == len(rows), label + ': number of lines')
        for line, (name, chi2, av, sc, pars) in zip(lines, rows):
            exp = [e3(chi2), e3(av), e3(sc)]
            for p in parameters:
                exp.append(name if p == 'MODEL_NAME' else e3(pars[numeric.index(p)]))
            check(line.split() == exp, label + ': %r != %r' % (line.split(), exp))


def sorted_table(model_dir):
    t = load_parameter_table(model_dir)
    t['MODEL_NAME'] = np.char.strip(t['MODEL_NAME'])
    t.sort('MODEL_NAME')
    return t


def check_filter_table(info, sf, truth, colnames, additional, label):
    t = sorted_table(info.meta.model_dir)
    before = [list(t[c]) for c in t.colnames]
    info = copy.deepcopy(info)
    info.keep(sf)
    n = n_selected(info, sf)
    check(info.n_fits == n and len(info.chi2) == n, label + ': n_fits')
    for rep in range(2):   # second call on the same objects
        out = info.filter_table(t, additional=additional) if additional else info.filter_table(t)
        check(isinstance(out, Table), label + ': filter_table returns a Table')
        check(len(out) == n, label + ': filter_table length')
        check(list(out.colnames) == list(t.colnames) + list(additional.keys()), label + ': filter_table columns %r' % out.colnames)
        for i in range(n):
            name = str(info.model_name[i])
            check(str(out['MODEL_NAME'][i]) == name, label + ': filter_table name of fit %i' % i)
            for j, c in enumerate(colnames):
                check(float(out[c][i]) == truth[name][j], label + ': filter_table %s of fit %i' % (c, i))
            for k in additional:
                check(float(out[k][i]) == float(additional[k][name]), label + ': filter_table additional %s of fit %i' % (k, i))
                check(out[k].dtype == np.float64, label + ': additional column is float64')
        # the input table is left alone
        check(list(t.colnames) == [c for c in t.colnames if c not in additional], label + ': input table columns untouched')
        check([list(t[c]) for c in t.colnames] == before, label + ': input table values untouched')


def run_all(infos, sources_arg, sf, truth, colnames, table_colnames, additional, tag):
    """sources_arg is what is given to the library (file name, FitInfo, list...)"""
    out1 = os.path.join(ROOT, tag + '_wp.txt')
    out2 = os.path.join(ROOT, tag + '_wr.txt')
    kw = dict(additional=additional) if additional else {}
    write_parameters(sources_arg, out1, select_format=sf, **kw)
    check_write_parameters(out1, infos, sf, truth, colnames, additional, tag + ' write_parameters')
    write_parameter_ranges(sources_arg, out2, select_format=sf, **kw)
    check_write_parameter_ranges(out2, infos, sf, truth, colnames, additional, tag + ' write_parameter_ranges')
    prefix = os.path.join(ROOT, tag + '_ex_')
    extract_parameters(sources_arg, prefix, '.par', select_format=sf)
    check_extract_parameters(prefix, '.par', infos, sf, truth, table_colnames, 'all', True, tag + ' extract_parameters')
    for info in infos:
        check_filter_table(info, sf, truth, colnames, additional, tag + ' filter_table ' + info.source.name)


def snapshot(info):
    return (info.source.name, info.model_name.tolist(), info.chi2.tolist(), info.av.tolist(), info.sc.tolist(),
            np.asarray(info.model_id).tolist())


# ----------------------------------------------------------------------------
# Scenarios
# ----------------------------------------------------------------------------

rng = np.random.default_rng(20240909)

SELECTORS = [('A', None), ('N', 1), ('N', 3), ('N', 0), ('N', 10000), ('C', 20.), ('C', -1.), ('D', 8.), ('D', 0.),
             ('E', 4.), ('F', 2.), ('F', 1e9)]

case = 0
for n_models, n_cols, name_first in [(1, 1, True), (2, 2, False), (7, 3, True), (25, 4, False), (60, 2, True)]:
    case += 1
    d, names, truth, colnames, file_order = make_package(rng, 'pkg%i' % case, n_models, n_cols, name_first)
    table_colnames = (['MODEL_NAME'] + colnames) if name_first else (colnames + ['MODEL_NAME'])
    check(file_order != sorted(file_order) or n_models == 1, 'parameter file rows are not in sorted order')

    n_src = 3
    infos = []
    for s in range(n_src):
        # fits stored for all models, or only for a subset (as after fit(..., output_format=...))
        n_fitted = n_models if s != 1 else int(rng.integers(0, n_models + 1))
        infos.append(make_info(rng, d, names, 'src_%i_%i' % (case, s), n_fitted))
    # A source for which every point is an upper limit / invalid: n_data = 0 (boundary)
    infos[-1].source.valid = np.array([0, 3, 2][:infos[-1].source.n_wav] + [0] * max(0, infos[-1].source.n_wav - 3))

    fname = os.path.join(ROOT, 'fits%i.fitinfo' % case)
    fout = FitInfoFile(fname, 'w')
    for info in infos:
        fout.write(info)
    fout.close()

    snaps = [snapshot(i) for i in infos]

    for isf, sf in enumerate(SELECTORS):
        if sf[0] in 'EF' and any(n_data_of(i) == 0 for i in infos):
            use = [i for i in infos if n_data_of(i) > 0]   # chi2 per point undefined otherwise
            as_file = False
        else:
            use = infos
            as_file = True
        additional = {} if isf % 3 == 0 else make_additional(rng, names, ['extra', 'Zeta_2'][:1 + isf % 2])
        tag = 'c%i_s%i' % (case, isf)
        if as_file:
            run_all(use, fname, sf, truth, colnames, table_colnames, additional, tag + '_file')
            # second call on the same file gives the same thing
            run_all(use, fname, sf, truth, colnames, table_colnames, additional, tag + '_file2')
        # list of result objects
        run_all(use, list(use), sf, truth, colnames, table_colnames, additional, tag + '_list')
        # tuple (unusual but legal)
        run_all(use, tuple(use), sf, truth, colnames, table_colnames, additional, tag + '_tuple')
        # single result object
        run_all(use[:1], use[0], sf, truth, colnames, table_colnames, additional, tag + '_single')
        # the caller's objects have not been filtered in place
        check([snapshot(i) for i in infos] == snaps, tag + ': result objects passed in are not modified')

    # extract_parameters with a chosen list of parameters, without header, without suffix
    sf = ('N', 4)
    prefix = os.path.join(ROOT, 'sub%i_' % case)
    pars = list(reversed(colnames))
    extract_parameters(fname, prefix, None, parameters=pars, select_format=sf, header=False)
    check_extract_parameters(prefix, None, infos, sf, truth, table_colnames, pars, False, 'extract subset %i' % case)

    # An additional-parameter dictionary that has entries for more models than
    # the grid, given in another order, with numpy scalar values
    add = make_additional(rng, list(reversed(names)) + ['not_a_model'], ['w'])
    add['w'] = dict((k, np.float32(v)) for k, v in add['w'].items())
    run_all(infos, infos, ('A', None), truth, colnames, table_colnames, add, 'c%i_np' % case)

# A parameter file whose rows are already sorted, and one in exactly reversed
# order, give the same listing
for rev in (False, True):
    d = os.path.join(ROOT, 'sorted_%i' % rev)
    os.mkdir(d)
    names = ['a_%02i' % i for i in range(12)]
    vals = np.arange(12) * 1.5 + 0.25
    t = Table()
    t['MODEL_NAME'] = np.array(names, dtype='S30')
    t['p'] = vals
    if rev:
        t = t[::-1]
    t.write(os.path.join(d, 'parameters.fits'))
    truth = dict((n, [float(v)]) for n, v in zip(names, vals))
    infos = [make_info(rng, d, names, 'ss_%i' % rev)]
    run_all(infos, infos, ('N', 5), truth, ['p'], ['MODEL_NAME', 'p'], {}, 'sorted_%i' % rev)

# ----------------------------------------------------------------------------
# Extra scenarios aimed at the way the parameter file is found / read and at
# extreme values
# ----------------------------------------------------------------------------

import pathlib

# gzipped parameter file, model directory given with a trailing slash, or as a
# relative path, extreme and signed-zero values, an integer column
d = os.path.join(ROOT, 'gz')
os.mkdir(d)
names = ['zz_%03i' % i for i in range(15)] + ['A_upper', 'a_lower', '0digit', '_under']
vals = np.array([0., -0., 1e300, -1e300, 1e-300, 5e-324, 1., -1., 9.9995, 9.99949, 123456789., -42., 3., 2., 1.5,
                 7., 8., 9., 10.])
ints = np.arange(len(names), dtype=np.int64)[::-1] - 7
t = Table()
t['MASS'] = vals
t['MODEL_NAME'] = np.array(names, dtype='S30')
t['count'] = ints
t = t[rng.permutation(len(names))]
t.write(os.path.join(d, 'parameters.fits.gz'))
truth = dict((n, [float(v), float(k)]) for n, v, k in zip(names, vals, ints))
for mdir in (d, d + '/', d + '//', os.path.relpath(d)):
    loaded = load_parameter_table(mdir)
    check(sorted(str(n).strip() for n in loaded['MODEL_NAME']) == sorted(names), 'gz table found via %r' % mdir)
    infos = [make_info(rng, mdir, names, 'gz_a'), make_info(rng, mdir, names, 'gz_b', 6)]
    tag = 'gz%i' % len(mdir)
    for sf in [('A', None), ('N', 2), ('D', 15.)]:
        run_all(infos, infos, sf, truth, ['MASS', 'count'], ['MASS', 'MODEL_NAME', 'count'], make_additional(rng, names, ['q']), tag + sf[0])

# when both files are present the uncompressed one is used
t2 = t.copy()
t2['MASS'] = t2['MASS'] * 0 + 77.
t2.write(os.path.join(d, 'parameters.fits'))
loaded = load_parameter_table(d)
check(np.all(loaded['MASS'] == 77.), 'parameters.fits has precedence over parameters.fits.gz')
truth77 = dict((n, [77., truth[n][1]]) for n in names)
infos = [make_info(rng, d, names, 'both')]
run_all(infos, infos[0], ('A', None), truth77, ['MASS', 'count'], ['MASS', 'MODEL_NAME', 'count'], {}, 'both')

# a path object for the model directory: either refused with a TypeError (as
# string concatenation does) or understood as the same directory
try:
    loaded = load_parameter_table(pathlib.Path(d))
except TypeError:
    pass
else:
    check(np.all(loaded['MASS'] == 77.) and len(loaded) == len(names), 'Path model_dir gives the same table')

# a directory without parameter file is refused
os.mkdir(os.path.join(ROOT, 'empty'))
try:
    load_parameter_table(os.path.join(ROOT, 'empty'))
except Exception as exc:
    check('Parameter file not found' in str(exc), 'message for missing parameter file')
else:
    check(False, 'missing parameter file should be refused')

shutil.rmtree(ROOT, ignore_errors=True)
print("OK: %i checks passed" % N_CHECKS[0])
