"""
Demonstration for property C01 (best-fit A_V / scale are the constrained
weighted least-squares optimum, chi^2 = minimum + limit penalties).

Run as:  cd /tmp/wtQ_C01 && /venv/bin/python _out/q<i>/demo.py
Exits 0 when every check passes.
"""
import sys, os
sys.path.insert(0, os.getcwd())

import io
import shutil
import tempfile
import contextlib
import pickle

import numpy as np
from scipy.optimize import minimize_scalar
from astropy import units as u

import sedfitter
assert os.path.dirname(os.path.abspath(sedfitter.__file__)) == os.path.join(os.getcwd(), 'sedfitter'), sedfitter.__file__

from sedfitter.models import Models
from sedfitter.source import Source
from sedfitter.extinction import Extinction
from sedfitter.fit import Fitter
from sedfitter import fitting_routines as fr

LN10 = np.log(10.)
N_CHECKED = [0]


# ----------------------------------------------------------------------------
# Independent reference
# ----------------------------------------------------------------------------

def ref_k(ext_wav_um, ext_chi, wav_um):
    """extinction law normalised to -0.4 at V (0.55 micron), 0 outside table"""
    chi = np.interp(wav_um, ext_wav_um, ext_chi, left=0., right=0.)
    chi_v = np.interp(0.55, ext_wav_um, ext_chi)
    return -0.4 * chi / chi_v


def ref_data(valid, flux, error):
    """log-space data and weights of the fitted points, written from the docs"""
    n = len(valid)
    y = np.zeros(n)
    w = np.zeros(n)
    for j in range(n):
        if valid[j] == 1:
            y[j] = np.log10(flux[j]) - 0.5 * (error[j] / flux[j]) ** 2 / LN10
            w[j] = (flux[j] * LN10 / abs(error[j])) ** 2
        elif valid[j] == 4:
            y[j] = flux[j]
            w[j] = 1. / error[j] ** 2
        elif valid[j] in (2, 3):
            y[j] = np.log10(flux[j])
    return y, w


def ref_fit_one(valid, y, w, error, logm, k, lo, hi):
    """Constrained optimum for one model by an independent route (lstsq)"""
    fit = w > 0
    d = (y - logm)[fit]
    kk = k[fit]
    sw = np.sqrt(w[fit])

    def q(a, s):
        return np.sum(w[fit] * (d - a * kk + 2. * s) ** 2)

    # unconstrained: weighted least squares on design [k, -2]
    A = np.vstack([kk * sw, -2. * sw]).T
    sol = np.linalg.lstsq(A, d * sw, rcond=None)[0]
    a, s = sol
    if a < lo or a > hi:
        a = lo if a < lo else hi
        # one-parameter least squares for the scale
        s = np.linalg.lstsq((-2. * sw)[:, None], (d - a * kk) * sw, rcond=None)[0][0]

    # Cross-check the optimum with a bounded scalar minimiser on the profile
    def prof(aa):
        ss = -np.sum(w[fit] * (d - aa * kk)) / (2. * np.sum(w[fit]))
        return q(aa, ss)
    if hi > lo:
        r = minimize_scalar(prof, bounds=(lo, hi), method='bounded', options={'xatol': 1e-10})
        assert prof(a) <= r.fun + 1e-9 * max(1., abs(r.fun)), (prof(a), r.fun)

    chi2 = q(a, s)
    pred = logm + a * k - 2. * s
    for j in range(len(valid)):
        if valid[j] == 2 and pred[j] < y[j]:
            chi2 += -2. * np.log(1. - error[j])
        if valid[j] == 3 and pred[j] > y[j]:
            chi2 += -2. * np.log(1. - error[j])
    return a, s, chi2, q


def check_info(info, names, model_flux_mJy, valid, flux, error, k, lo, hi,
               rtol=1e-8, atol=1e-8, label=''):
    valid = np.asarray(valid)
    flux = np.asarray(flux, float)
    error = np.asarray(error, float)
    av = np.asarray(info.av, float)
    sc = np.asarray(info.sc, float)
    chi2 = np.asarray(info.chi2, float)
    got_names = [str(np.char.strip(np.asarray(x).astype(str))) for x in info.model_name]
    assert len(av) == len(sc) == len(chi2) == len(got_names) == len(names), label
    assert sorted(got_names) == sorted(str(n) for n in names), label
    assert np.all(np.diff(chi2) >= 0), label + ': not sorted'
    assert np.all(np.isfinite(av)) and np.all(np.isfinite(sc)) and np.all(np.isfinite(chi2)), label
    y, w = ref_data(valid, flux, error)
    logm_all = np.log10(np.asarray(model_flux_mJy, dtype=np.float64))
    index = {str(n): i for i, n in enumerate(names)}
    rng = np.random.RandomState(1)
    for pos, name in enumerate(got_names):
        i = index[name]
        a, s, c, q = ref_fit_one(valid, y, w, error, logm_all[i], k, lo, hi)
        assert lo - 1e-12 <= av[pos] <= hi + 1e-12, (label, name, av[pos])
        assert np.isclose(av[pos], a, rtol=rtol, atol=atol), (label, name, 'av', av[pos], a)
        assert np.isclose(sc[pos], s, rtol=rtol, atol=atol), (label, name, 'sc', sc[pos], s)
        assert np.isclose(chi2[pos], c, rtol=rtol, atol=atol), (label, name, 'chi2', chi2[pos], c)
        # direct optimality: no feasible perturbation does better
        q0 = q(av[pos], sc[pos])
        for _ in range(20):
            da, ds = rng.normal(size=2) * 10. ** rng.uniform(-6, 0)
            a2 = min(max(av[pos] + da, lo), hi)
            assert q(a2, sc[pos] + ds) >= q0 - 1e-9 * max(1., abs(q0)), (label, name, 'not optimal')
        if 'model_fluxes' in info.__dict__ and info.model_fluxes is not None:
            mf = np.asarray(info.model_fluxes, float)[pos]
            assert np.allclose(mf, logm_all[i] + av[pos] * k - 2. * sc[pos], rtol=max(rtol, 1e-7), atol=max(atol, 1e-7)), (label, 'model_fluxes')
        N_CHECKED[0] += 1


# ----------------------------------------------------------------------------
# Input generators
# ----------------------------------------------------------------------------

def make_extinction(rng, unit=u.micron, chi_unit=u.cm ** 2 / u.g, n=40):
    wav_um = np.sort(10. ** rng.uniform(-1.2, 2.8, n))
    chi = wav_um ** -rng.uniform(1.2, 2.) * (1. + 0.3 * rng.uniform(size=n))
    e = Extinction()
    e.wav = (wav_um * u.micron).to(unit)
    e.chi = (chi * u.cm ** 2 / u.g).to(chi_unit)
    return e, wav_um, chi


def make_models(rng, n_models, wav_um, dtype=float):
    m = Models()
    m.names = np.array(['m_%05d' % i for i in range(n_models)])
    m.wavelengths = wav_um * u.micron
    fl = 10. ** rng.uniform(-3, 3, (n_models, len(wav_um)))
    m.fluxes = fl.astype(dtype) * u.mJy
    return m, np.asarray(fl.astype(dtype), dtype=np.float64)


def make_source(rng, valid, container=np.array):
    valid = list(valid)
    n = len(valid)
    flux = 10. ** rng.uniform(-2, 2, n)
    error = flux * rng.uniform(0.02, 0.3, n)
    for j in range(n):
        if valid[j] in (2, 3):
            error[j] = rng.uniform(0.05, 0.95)   # confidence of the limit
        if valid[j] == 4:
            flux[j] = rng.uniform(-2, 2)        # already log10
            error[j] = rng.uniform(0.01, 0.2)
    s = Source()
    s.name = 'src'
    s.x = 1.
    s.y = 2.
    s.valid = container(valid)
    s.flux = container(list(flux))
    s.error = container(list(error))
    return s, np.array(valid), flux, error


def quiet():
    return contextlib.redirect_stdout(io.StringIO())


# ----------------------------------------------------------------------------
# Part 1: Models.fit driven directly, many random configurations
# ----------------------------------------------------------------------------

def part_direct():
    rng = np.random.RandomState(20240601)
    flag_sets = [
        [1, 1],
        [1, 1, 1],
        [1, 4, 1, 0],
        [1, 2, 3, 1, 4, 9, 0],
        [3, 1, 1, 2, 2, 3],
        [4, 4, 0, 9, 3],
        [1, 1, 1, 1, 1, 1, 1, 1, 1, 1],
        [9, 1, 0, 1, 2],
    ]
    ranges = [(0., 40.), (0., 0.), (2.5, 2.5), (-5., 5.), (30., 35.), (-1.e3, 1.e3), (0., 1.e-3)]
    units = [(u.micron, u.cm ** 2 / u.g), (u.angstrom, u.m ** 2 / u.kg), (u.m, u.cm ** 2 / u.g)]
    for it in range(60):
        valid = flag_sets[it % len(flag_sets)]
        lo, hi = ranges[it % len(ranges)]
        wunit, cunit = units[it % len(units)]
        ext, ewav, echi = make_extinction(rng, wunit, cunit)
        wav_um = np.sort(10. ** rng.uniform(-0.8, 2.3, len(valid)))
        if it % 5 == 0:
            rng.shuffle(wav_um)  # filters in arbitrary order
        if it % 11 == 0:
            wav_um[0] = 5.e-3  # a filter outside the tabulated law: k = 0 there
        k = ref_k(ewav, echi, wav_um)
        models, mflux = make_models(rng, int(rng.randint(1, 40)), wav_um)
        container = [np.array, list, tuple][it % 3]
        src, v, fl, er = make_source(rng, valid, container)
        fitted = (v == 1) | (v == 4)
        if np.ptp(k[fitted]) < 1e-3:
            continue
        av_law = ext.get_av(models.wavelengths)
        assert np.allclose(np.asarray(av_law, float), k, rtol=1e-10, atol=1e-13), 'k(lambda)'
        sc_law = -2. * np.ones(av_law.shape)
        lo_in, hi_in = lo, hi
        if it % 4 == 1:
            lo_in, hi_in = np.float64(lo), np.float32(hi)
            hi = float(hi_in)
        info = models.fit(src, av_law, sc_law, lo_in, hi_in)
        check_info(info, models.names, mflux, v, fl, er, k, lo, hi, label='direct %i' % it)
        # the log-space transform itself (twice: it must not depend on state)
        for _ in range(2):
            wgt, lf, le = src.get_log_fluxes()
            yy, ww = ref_data(v, fl, er)
            assert np.allclose(wgt, ww, rtol=1e-12, atol=0) and np.all(wgt[~fitted] == 0)
            assert np.allclose(lf[v != 9], yy[v != 9], rtol=1e-12, atol=1e-14)
            assert np.allclose(le[(v == 2) | (v == 3) | (v == 4)], er[(v == 2) | (v == 3) | (v == 4)])
        # second call on the same objects gives the same answer
        info2 = models.fit(src, av_law, sc_law, lo_in, hi_in)
        for attr in ('av', 'sc', 'chi2'):
            assert np.array_equal(np.asarray(getattr(info, attr), float), np.asarray(getattr(info2, attr), float))
        assert np.array_equal(info.model_name, info2.model_name)
        # source untouched by the fit
        assert np.array_equal(np.asarray(src.valid), v)
        assert np.allclose(np.asarray(src.flux, float), fl) and np.allclose(np.asarray(src.error, float), er)

    # flag 9 point carrying a -999 placeholder (NaN in log space) must not matter
    ext, ewav, echi = make_extinction(rng)
    wav_um = np.array([0.6, 1.2, 2.2, 4.5, 8.0])
    k = ref_k(ewav, echi, wav_um)
    models, mflux = make_models(rng, 12, wav_um)
    src, v, fl, er = make_source(rng, [1, 9, 1, 3, 1])
    src.flux[1] = -999.
    src.error[1] = -999.
    fl[1] = -999.
    er[1] = -999.
    with np.errstate(all='ignore'):
        info = models.fit(src, ext.get_av(models.wavelengths), -2. * np.ones(5), 0., 10.)
    check_info(info, models.names, mflux, v, fl, er, k, 0., 10., label='flag9 nan')

    # boundary: unconstrained optimum exactly equal to a bound, and a single model
    wav_um = np.array([0.55, 2.2, 8.0])
    k = ref_k(ewav, echi, wav_um)
    true_av, true_sc = 3.0, 0.5
    logm = np.array([[0.3, -0.2, 1.1]])
    m = Models()
    m.names = np.array(['only'])
    m.wavelengths = wav_um * u.micron
    m.fluxes = 10. ** logm * u.mJy
    s = Source()
    s.name = 'exact'
    s.valid = [4, 4, 4]
    s.flux = list(logm[0] + true_av * k - 2 * true_sc)
    s.error = [0.1, 0.05, 0.2]
    for lo, hi in [(3.0, 8.0), (0., 3.0), (3.0, 3.0), (0., 10.)]:
        info = m.fit(s, ext.get_av(m.wavelengths), -2. * np.ones(3), lo, hi)
        check_info(info, m.names, 10. ** logm, [4, 4, 4], s.flux, s.error, k, lo, hi, atol=1e-7, label='exact')
        assert abs(float(np.asarray(info.av, float)[0]) - true_av) < 1e-7
        assert abs(float(np.asarray(info.sc, float)[0]) - true_sc) < 1e-7
        assert abs(float(np.asarray(info.chi2, float)[0])) < 1e-10

    # float32 model fluxes handed to Models directly
    wav_um = np.array([0.7, 1.6, 3.6, 24.])
    k = ref_k(ewav, echi, wav_um)
    models, mflux = make_models(rng, 25, wav_um, dtype=np.float32)
    src, v, fl, er = make_source(rng, [1, 1, 2, 1])
    info = models.fit(src, ext.get_av(models.wavelengths), -2. * np.ones(4), 0., 20.)
    check_info(info, models.names, mflux, v, fl, er, k, 0., 20., rtol=1e-4, atol=1e-4, label='float32')


# ----------------------------------------------------------------------------
# Part 2: fitting_routines called directly against brute force
# ----------------------------------------------------------------------------

def part_routines():
    rng = np.random.RandomState(7)
    for it in range(30):
        n_wav = int(rng.randint(2, 9))
        n_mod = int(rng.randint(1, 30))
        data = rng.normal(size=(n_mod, n_wav))
        w = rng.uniform(0.5, 50., n_wav)
        w[rng.uniform(size=n_wav) < 0.2] = 0.
        if np.sum(w > 0) < 2:
            w[:2] = 1.
        p1 = -rng.uniform(0.01, 3., n_wav)
        p2 = -2. * np.ones(n_wav)
        if np.ptp(p1[w > 0]) < 1e-2:
            continue
        a, s = fr.linear_regression(data, w, p1, p2)
        A = np.vstack([p1 * np.sqrt(w), p2 * np.sqrt(w)]).T
        for i in range(n_mod):
            ref = np.linalg.lstsq(A, data[i] * np.sqrt(w), rcond=None)[0]
            assert np.allclose([a[i], s[i]], ref, rtol=1e-8, atol=1e-9), (a[i], s[i], ref)
        s1 = fr.optimal_scaling(data, w, p2)
        assert np.allclose(s1, np.sum(data * w, axis=1) / (-2. * np.sum(w)), rtol=1e-11, atol=1e-12)
        # chi^2 with limits: brute force loops
        valid = rng.choice([0, 1, 2, 3, 4, 9], n_wav)
        wv = np.where((valid == 1) | (valid == 4), rng.uniform(0.5, 50., n_wav), 0.)
        err = rng.uniform(0.05, 0.95, n_wav)
        model = rng.normal(size=(n_mod, n_wav))
        d0, m0 = data.copy(), model.copy()
        c = fr.chi_squared(valid, data, err, wv, model)
        assert np.array_equal(d0, data) and np.array_equal(m0, model)
        assert c.shape == (n_mod,)
        for i in range(n_mod):
            tot = 0.
            for j in range(n_wav):
                if valid[j] in (1, 4):
                    tot += wv[j] * (data[i, j] - model[i, j]) ** 2
                elif valid[j] == 2 and model[i, j] < data[i, j]:
                    tot += -2. * np.log(1. - err[j])
                elif valid[j] == 3 and model[i, j] > data[i, j]:
                    tot += -2. * np.log(1. - err[j])
            assert np.isclose(c[i], tot, rtol=1e-11, atol=1e-12), (c[i], tot)
        # 3-d form (as used for aperture-dependent grids) agrees with the 2-d form
        c3 = fr.chi_squared(valid, data[:, None, :].repeat(2, axis=1), err, wv, model[:, None, :].repeat(2, axis=1))
        assert c3.shape == (n_mod, 2) and np.allclose(c3[:, 0], c, rtol=1e-12) and np.allclose(c3[:, 1], c, rtol=1e-12)
    # a limit with 100% confidence gives the documented 1e30 stand-in for infinity
    with np.errstate(all='ignore'):
        c = fr.chi_squared(np.array([1, 3]), np.array([[0., 0.]]), np.array([0.1, 1.0]), np.array([1., 0.]), np.array([[0.5, 1.]]))
    assert np.isclose(c[0], 0.25 + 1.e30)
    try:
        fr.chi_squared(np.array([1]), np.zeros(1), np.ones(1), np.ones(1), np.zeros(1))
    except Exception:
        pass
    else:
        raise AssertionError('1-d chi^2 input should be refused')


# ----------------------------------------------------------------------------
# Part 3: through Fitter, with a model package on disk
# ----------------------------------------------------------------------------

def part_fitter():
    from sedfitter.sed import SEDCube
    rng = np.random.RandomState(99)
    tmp = tempfile.mkdtemp()
    try:
        n_models = 17
        cube = SEDCube()
        cube.names = np.array(['model_%04d' % i for i in range(n_models)])
        cube.distance = 1 * u.kpc
        cube.wav = np.logspace(-2., 3., 100) * u.micron
        cube.apertures = None
        cube.val = 10. ** rng.uniform(-2, 2, (n_models, 1, 100)) * u.mJy
        cube.unc = cube.val * 0.01
        with quiet():
            cube.write(os.path.join(tmp, 'flux.fits'))
        with open(os.path.join(tmp, 'models.conf'), 'w') as f:
            f.write("name = test\nlength_subdir = 0\naperture_dependent = no\nlogd_step = 0.02\nversion = 2\n")

        ext, ewav, echi = make_extinction(rng)
        filt = [3.4 * u.micron, 0.8 * u.micron, 15. * u.micron, 70. * u.micron, 1.25 * u.micron]
        wav_sorted = cube.wav.to(u.micron).value
        for use_memmap, tol in [(False, 1e-7), (True, 2e-4)]:
            for av_range in [(0., 15.), [1.5, 1.5], (np.float64(-3.), np.int64(0))]:
                with quiet():
                    fitter = Fitter(filt, [3.] * len(filt) * u.arcsec, tmp, extinction_law=ext,
                                    av_range=av_range, distance_range=[1., 2.] * u.kpc,
                                    use_memmap=use_memmap)
                assert np.array_equal(np.asarray(fitter.sc_law, float), -2. * np.ones(len(filt)))
                mwav = fitter.models.wavelengths.to(u.micron).value
                k = ref_k(ewav, echi, mwav)
                assert np.allclose(np.asarray(fitter.av_law, float), k, rtol=1e-10, atol=1e-13)
                idx = [int(np.argmin(np.abs(wav_sorted - w.value))) for w in filt]
                mflux = np.asarray(fitter.models.fluxes.to(u.mJy).value, dtype=np.float64)
                cube_flux = cube.val.value[:, 0, :][:, idx]
                assert np.allclose(mflux, cube_flux, rtol=1e-6)
                if not use_memmap:
                    mflux = cube_flux
                for valid in ([1, 1, 1, 1, 1], [1, 3, 4, 2, 1], [0, 1, 9, 1, 4]):
                    src, v, fl, er = make_source(rng, valid)
                    info = fitter.fit(src)
                    lo, hi = float(av_range[0]), float(av_range[1])
                    check_info(info, cube.names, mflux, v, fl, er, k, lo, hi, rtol=tol, atol=tol,
                               label='fitter memmap=%s' % use_memmap)
                    info_b = fitter.fit(src)
                    assert np.array_equal(np.asarray(info.chi2, float), np.asarray(info_b.chi2, float))
                    assert np.array_equal(np.asarray(info.av, float), np.asarray(info_b.av, float))
                    assert info.meta.model_dir == tmp and info.meta.extinction_law is ext
                    # FitInfo survives pickling with the same numbers
                    info_c = pickle.loads(pickle.dumps(info, 2))
                    assert np.array_equal(np.asarray(info.sc, float), np.asarray(info_c.sc, float))
                    assert np.array_equal(np.asarray(info.chi2, float), np.asarray(info_c.chi2, float))
    finally:
        shutil.rmtree(tmp, ignore_errors=True)


EXTRA = []

if __name__ == '__main__':
    part_direct()
    part_routines()
    part_fitter()
    for fn in EXTRA:
        fn()
    assert N_CHECKED[0] > 1000, N_CHECKED[0]
    print('OK: C01 holds on %i (source, model) pairs' % N_CHECKED[0])
