import sys, os; sys.path.insert(0, os.getcwd())
# Demonstration for property C01 (best-fit A_V and scale are the constrained
# weighted least-squares optimum; chi^2 = minimum + limit penalties).
# Emphasis of this copy: Source objects that are fitted repeatedly and are
# modified (in place and through the setters) between the fits.
import io, contextlib, shutil, tempfile
import numpy as np
from astropy import units as u

import sedfitter
assert os.path.dirname(os.path.abspath(sedfitter.__file__)) == os.path.join(os.getcwd(), 'sedfitter'), sedfitter.__file__

from sedfitter import Fitter
from sedfitter.source import Source
from sedfitter.extinction import Extinction
from sedfitter.convolved_fluxes import ConvolvedFluxes

LN10 = np.log(10.)
N_CHECKED = [0]


def quiet(func, *args, **kwargs):
    with contextlib.redirect_stdout(io.StringIO()):
        return func(*args, **kwargs)


def make_package(directory, wavs_micron, fluxes_mJy):
    """Old-style (version 1) package that is not aperture dependent"""
    os.makedirs(os.path.join(directory, 'convolved'))
    with open(os.path.join(directory, 'models.conf'), 'w') as f:
        f.write("name = demo\nlength_subdir = 0\naperture_dependent = no\nlogd_step = 0.02\n")
    n_models = fluxes_mJy.shape[0]
    names = np.array(['model_%04i' % i for i in range(n_models)])
    filters = []
    for j, w in enumerate(wavs_micron):
        c = ConvolvedFluxes(wavelength=w * u.micron, model_names=names,
                            flux=fluxes_mJy[:, j:j + 1] * u.mJy,
                            error=np.zeros((n_models, 1)) * u.mJy)
        c.write(os.path.join(directory, 'convolved', 'F%i.fits' % j))
        filters.append('F%i' % j)
    return names, filters


def k_lambda(law_wav_micron, law_chi, wavs_micron):
    """Independent extinction coefficients: -0.4 at V, 0 outside the table"""
    def lin(x):
        x = float(x)
        if x < law_wav_micron[0] or x > law_wav_micron[-1]:
            return None
        i = int(np.searchsorted(law_wav_micron, x, side='right')) - 1
        if i >= len(law_wav_micron) - 1:
            return float(law_chi[-1])
        t = (x - law_wav_micron[i]) / (law_wav_micron[i + 1] - law_wav_micron[i])
        return float(law_chi[i] + t * (law_chi[i + 1] - law_chi[i]))
    chi_v = lin(0.55)
    out = []
    for w in wavs_micron:
        c = lin(w)
        out.append(0. if c is None else -0.4 * c / chi_v)
    return np.array(out)


def transform(valid, flux, error):
    """Independent log-space transform: returns y (log10 observed), w, conf"""
    n = len(valid)
    y = np.zeros(n)
    w = np.zeros(n)
    conf = np.zeros(n)
    for j in range(n):
        if valid[j] == 1:
            s = error[j] / flux[j] / LN10
            y[j] = np.log10(flux[j]) - 0.5 * (error[j] / flux[j]) ** 2 / LN10
            w[j] = 1. / s ** 2
        elif valid[j] == 4:
            y[j] = flux[j]
            w[j] = 1. / error[j] ** 2
        elif valid[j] in (2, 3):
            y[j] = np.log10(flux[j])
            conf[j] = error[j]
    return y, w, conf


def objective(valid, y, w, conf, logm, k, a, s):
    pred = logm + a * k - 2. * s
    total = 0.
    for j in range(len(valid)):
        if valid[j] in (1, 4):
            total += w[j] * (y[j] - pred[j]) ** 2
        elif valid[j] == 2 and pred[j] < y[j]:
            total += -2. * np.log(1. - conf[j])
        elif valid[j] == 3 and pred[j] > y[j]:
            total += -2. * np.log(1. - conf[j])
    return total


def reference(valid, y, w, logm, k, lo, hi):
    """Constrained optimum via an orthogonal (QR/SVD) least-squares solve"""
    fit = np.isin(valid, (1, 4))
    sw = np.sqrt(w[fit])
    A = np.column_stack([k[fit], -2. * np.ones(fit.sum())]) * sw[:, None]
    b = (y[fit] - logm[fit]) * sw
    (a, s), _, rank, _ = np.linalg.lstsq(A, b, rcond=None)
    assert rank == 2
    a_c = min(max(a, lo), hi)
    if a_c != a:
        r = y[fit] - logm[fit] - a_c * k[fit]
        s = -0.5 * np.sum(w[fit] * r) / np.sum(w[fit])
    return a_c, s


def check_fit(info, names, logm_all, valid, flux, error, k, lo, hi, label):
    av = np.asarray(info.av, float)
    sc = np.asarray(info.sc, float)
    chi2 = np.asarray(info.chi2, float)
    assert len(av) == len(names) == len(sc) == len(chi2), label
    assert np.all(np.diff(chi2) >= 0), label + ': chi2 not sorted'
    assert sorted(str(x) for x in info.model_name) == sorted(str(x) for x in names), label
    y, w, conf = transform(valid, flux, error)
    rng = np.random.RandomState(1)
    for i, name in enumerate(info.model_name):
        m = int(str(name).split('_')[1])
        logm = logm_all[m]
        a_ref, s_ref = reference(valid, y, w, logm, k, lo, hi)
        assert lo <= av[i] <= hi, (label, name, av[i])
        assert abs(av[i] - a_ref) <= 1e-8 * (1 + abs(a_ref)), (label, name, av[i], a_ref)
        assert abs(sc[i] - s_ref) <= 1e-8 * (1 + abs(s_ref)), (label, name, sc[i], s_ref)
        c_ref = objective(valid, y, w, conf, logm, k, av[i], sc[i])
        assert abs(chi2[i] - c_ref) <= 1e-7 * (1 + abs(c_ref)), (label, name, chi2[i], c_ref)
        # brute force: no feasible neighbour does better on the fitted points
        z = np.zeros(len(valid))
        base = objective(np.where(np.isin(valid, (1, 4)), valid, 0), y, w, z, logm, k, av[i], sc[i])
        for _ in range(6):
            a2 = min(max(av[i] + rng.normal() * 0.3, lo), hi)
            s2 = sc[i] + rng.normal() * 0.05
            other = objective(np.where(np.isin(valid, (1, 4)), valid, 0), y, w, z, logm, k, a2, s2)
            assert other >= base - 1e-9 * (1 + abs(base)), (label, name)
        N_CHECKED[0] += 1


def make_source(valid, flux, error, name='src'):
    s = Source()
    s.name = name
    s.x = 1.
    s.y = 2.
    s.valid = valid
    s.flux = flux
    s.error = error
    return s


def random_source(rng, n_wav, flags=None):
    while True:
        valid = rng.choice([0, 1, 2, 3, 4, 9], size=n_wav) if flags is None else np.array(flags)
        if np.sum(np.isin(valid, (1, 4))) >= 2:
            break
    flux = 10. ** rng.uniform(-1, 2, n_wav)
    error = flux * rng.uniform(0.02, 0.3, n_wav)
    for j in range(n_wav):
        if valid[j] == 4:
            flux[j] = rng.uniform(0.1, 2.)    # already log10; kept positive
            error[j] = rng.uniform(0.02, 0.2)
        elif valid[j] in (2, 3):
            error[j] = rng.uniform(0.5, 0.99)  # confidence
    return valid, flux, error


def main():
    rng = np.random.RandomState(20240917)
    tmp = tempfile.mkdtemp()
    try:
        # filters: one below the table, one exactly on a tabulated node, one
        # beyond the table (k = 0 there)
        law_wav = np.array([0.1, 0.3, 0.5, 0.6, 1.0, 2.2, 3.6, 8.0, 24., 70.])
        law_chi = np.array([900., 500., 260., 200., 90., 30., 14., 9., 5., 0.7])
        wavs = np.array([0.44, 1.25, 2.2, 4.5, 8.0, 24., 160.])
        n_models = 23
        fluxes = 10. ** rng.uniform(-3, 3, (n_models, len(wavs)))
        logm_all = np.log10(fluxes)
        names, filters = make_package(os.path.join(tmp, 'pkg'), wavs, fluxes)
        k = k_lambda(law_wav, law_chi, wavs)

        law_a = Extinction()
        law_a.wav = law_wav * u.micron
        law_a.chi = law_chi * u.cm ** 2 / u.g
        # unusual but legal: wavelengths in Angstrom, opacity in m^2/kg, read from a file
        lawfile = os.path.join(tmp, 'law.txt')
        np.savetxt(lawfile, np.column_stack([law_wav * 1e4, law_chi * 0.1]))
        law_b = Extinction.from_file(lawfile, wav_unit=u.AA, chi_unit=u.m ** 2 / u.kg)

        apertures = np.ones(len(wavs)) * 3. * u.arcsec
        sources = [random_source(rng, len(wavs)) for _ in range(6)]
        sources.append(random_source(rng, len(wavs), flags=[1, 0, 0, 4, 0, 9, 0]))   # exactly 2 fitted points
        sources.append(random_source(rng, len(wavs), flags=[1, 1, 1, 1, 1, 1, 1]))
        sources.append(random_source(rng, len(wavs), flags=[2, 3, 1, 4, 3, 2, 1]))
        sources.append(random_source(rng, len(wavs), flags=(4, 4, 4, 2, 2, 3, 3)))

        for law, lawname in ((law_a, 'micron'), (law_b, 'angstrom-file')):
            for lo, hi in ((0., 10.), (2., 2.), (-3., 40.), (0., 0.01), (25., 30.), (-1000., 1000.)):
                fitter = quiet(Fitter, filters, apertures, os.path.join(tmp, 'pkg'),
                               extinction_law=law, av_range=(lo, hi),
                               distance_range=[1., 2.] * u.kpc, use_memmap=False)
                assert np.allclose(np.asarray(fitter.av_law, float), k, rtol=1e-12, atol=1e-14)
                for isrc, (valid, flux, error) in enumerate(sources):
                    label = '%s [%g,%g] src%i' % (lawname, lo, hi, isrc)
                    src = make_source(valid.copy(), flux.copy(), error.copy())
                    info = fitter.fit(src)
                    check_fit(info, names, logm_all, valid, flux, error, k, lo, hi, label)
                    # second call on the same objects: same answer, inputs untouched
                    info2 = fitter.fit(src)
                    for attr in ('av', 'sc', 'chi2'):
                        assert np.array_equal(np.asarray(getattr(info, attr), float),
                                              np.asarray(getattr(info2, attr), float)), label
                    assert np.array_equal(info.model_name, info2.model_name)
                    assert np.array_equal(src.valid, valid) and np.array_equal(src.flux, flux) and np.array_equal(src.error, error)

        # ---- one Source object that is re-used and modified between fits ---
        fitter = quiet(Fitter, filters, apertures, os.path.join(tmp, 'pkg'),
                       extinction_law=law_b, av_range=(0.5, 6.),
                       distance_range=[1., 2.] * u.kpc, use_memmap=False)
        fitter2 = quiet(Fitter, filters, apertures, os.path.join(tmp, 'pkg'),
                        extinction_law=law_a, av_range=(3., 3.),
                        distance_range=[1., 2.] * u.kpc, use_memmap=False)

        def both(src, label):
            valid, flux, error = (np.array(src.valid), np.array(src.flux, dtype=float), np.array(src.error, dtype=float))
            for ft, (lo, hi) in ((fitter, (0.5, 6.)), (fitter2, (3., 3.)), (fitter, (0.5, 6.))):
                check_fit(ft.fit(src), names, logm_all, valid, flux, error, k, lo, hi, label)
            # the arrays handed out are the caller's to modify
            w1, f1, e1 = src.get_log_fluxes()
            y, w, conf = transform(valid, flux, error)
            fitted = np.isin(valid, (1, 4))
            assert np.allclose(w1, w, rtol=1e-13) and np.all(w1[~fitted] == 0)
            assert np.allclose(f1[valid != 9], y[valid != 9], rtol=1e-13, atol=1e-15)
            assert w1.dtype == f1.dtype == e1.dtype == np.float64
            w1 += 1.; f1 *= 0.; e1 -= 5.
            w2, f2, e2 = src.get_log_fluxes()
            assert np.allclose(w2, w, rtol=1e-13) and np.allclose(f2[valid != 9], y[valid != 9], rtol=1e-13, atol=1e-15)
            assert not np.shares_memory(w1, w2) and not np.shares_memory(f1, f2) and not np.shares_memory(e1, e2)

        valid, flux, error = random_source(rng, len(wavs), flags=[1, 1, 4, 3, 2, 9, 1])
        src = make_source(valid, flux, error)
        both(src, 'reuse/initial')
        str(src)
        src.flux[0] *= 3.                       # in place, no setter involved
        both(src, 'reuse/flux in place')
        src.error[1] = src.flux[1] * 0.011      # in place
        both(src, 'reuse/error in place')
        src.valid[3] = 1                        # upper limit becomes a detection ...
        src.error[3] = 0.2 * src.flux[3]        # ... with a proper error
        both(src, 'reuse/flag in place')
        src.valid[6] = 0
        both(src, 'reuse/flag dropped')
        src.valid[6] = 1
        both(src, 'reuse/flag restored')
        src.flux = tuple(float(x) * 1.5 for x in src.flux)   # through the setter, as a tuple
        both(src, 'reuse/setter tuple')
        # integer-valued fluxes in an integer array (same numbers as floats give the same fit)
        src.valid = [1, 1, 1, 1, 0, 0, 1]
        src.flux = np.array([3, 20, 7, 150, 1, 1, 42])
        src.error = np.array([1, 2, 1, 10, 1, 1, 5])
        both(src, 'reuse/int arrays')
        i_int = fitter.fit(src)
        src.flux = src.flux.astype(float)
        src.error = src.error.astype(float)
        both(src, 'reuse/float arrays')
        i_flt = fitter.fit(src)
        assert np.allclose(np.asarray(i_int.chi2, float), np.asarray(i_flt.chi2, float), rtol=1e-12)
        # strided views, as produced by Source.from_ascii
        line = make_source(*random_source(rng, len(wavs), flags=[4, 1, 2, 1, 3, 1, 0])).to_ascii()
        src_a = Source.from_ascii(line)
        assert not src_a.flux.flags['C_CONTIGUOUS'] or len(src_a.flux) == 1
        both(src_a, 'from_ascii')
        src_a.flux[1] *= 0.5
        both(src_a, 'from_ascii/in place')
        # copies share the caller's arrays; pickles do not
        import copy, pickle
        twin = copy.copy(src_a)
        clone = pickle.loads(pickle.dumps(src_a, 2))
        deep = copy.deepcopy(src_a)
        assert clone == src_a and deep == src_a
        src_a.flux[3] *= 7.
        assert twin == src_a and not (clone == src_a)
        both(twin, 'shallow copy after in-place change of the shared array')
        both(clone, 'pickled clone')
        both(deep, 'deep copy')
        both(src_a, 'original')
        assert set(src_a.__getstate__()) == set(['name', 'x', 'y', 'valid', 'flux', 'error'])
        # boundary: A_V range that collapses onto the unconstrained optimum of one model
        src_b = make_source(*random_source(rng, len(wavs), flags=[1, 1, 1, 1, 1, 1, 1]))
        free = quiet(Fitter, filters, apertures, os.path.join(tmp, 'pkg'), extinction_law=law_a,
                     av_range=(-1e3, 1e3), distance_range=[1., 2.] * u.kpc, use_memmap=False).fit(src_b)
        a0 = float(np.asarray(free.av, float)[0])
        pinned = quiet(Fitter, filters, apertures, os.path.join(tmp, 'pkg'), extinction_law=law_a,
                       av_range=(a0, a0), distance_range=[1., 2.] * u.kpc, use_memmap=False)
        check_fit(pinned.fit(src_b), names, logm_all, src_b.valid, src_b.flux, src_b.error, k, a0, a0, 'pinned')
        check_fit(pinned.fit(src_b), names, logm_all, src_b.valid, src_b.flux, src_b.error, k, a0, a0, 'pinned again')
    finally:
        shutil.rmtree(tmp, ignore_errors=True)
    assert N_CHECKED[0] == (2 * 6 * 10 + 15 * 3 + 2) * 23, N_CHECKED[0]
    print("C01 demo p2 OK: %i (source, model) fits verified" % N_CHECKED[0])


if __name__ == '__main__':
    main()
