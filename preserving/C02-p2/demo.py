import sys, os
sys.path.insert(0, os.getcwd())

import io
import math
import shutil
import tempfile
import contextlib

import numpy as np
from astropy import units as u
from astropy.table import Table

import sedfitter
assert os.path.dirname(os.path.abspath(sedfitter.__file__)) == os.path.join(os.getcwd(), 'sedfitter'), sedfitter.__file__

from sedfitter.fit import Fitter
from sedfitter.source import Source
from sedfitter.extinction import Extinction
from sedfitter.convolved_fluxes import ConvolvedFluxes
from sedfitter.sed import SEDCube

N_CHECKS = [0]


def check(cond, msg):
    N_CHECKS[0] += 1
    if not cond:
        print("DEMO FAILURE: " + msg)
        sys.exit(1)


@contextlib.contextmanager
def quiet():
    with contextlib.redirect_stdout(io.StringIO()):
        yield


def make_extinction():
    e = Extinction()
    e.wav = np.logspace(-2., 3., 60) * u.micron
    e.chi = (e.wav.value ** -1.7 * 200.) * u.cm ** 2 / u.g
    return e


def write_conf(directory, step, version, apdep='yes'):
    with open(os.path.join(directory, 'models.conf'), 'w') as f:
        f.write("name = demo\n")
        f.write("length_subdir = 0\n")
        f.write("aperture_dependent = %s\n" % apdep)
        f.write("logd_step = %s\n" % repr(step))
        if version == 2:
            f.write("version = 2\n")


def write_filter(directory, name, wav_um, names, ap, ap_unit, table, dtype=float, overwrite=False):
    c = ConvolvedFluxes()
    c.central_wavelength = wav_um * u.micron
    c.model_names = np.array(names)
    c.apertures = np.asarray(ap, float) * ap_unit
    c.flux = np.asarray(table, dtype) * u.mJy
    c.error = np.asarray(table, dtype) * 0.01 * u.mJy
    os.makedirs(os.path.join(directory, 'convolved'), exist_ok=True)
    c.write(os.path.join(directory, 'convolved', name + '.fits'), overwrite=overwrite)


def write_cube(directory, names, ap_au, cube_wav_um, val):
    cube = SEDCube()
    cube.names = np.array(names)
    cube.distance = 1 * u.kpc
    cube.wav = np.asarray(cube_wav_um, float) * u.micron
    cube.nu = cube.wav.to(u.Hz, equivalencies=u.spectral())
    cube.apertures = np.asarray(ap_au, float) * u.au
    cube.val = np.asarray(val, float) * u.mJy
    cube.unc = cube.val * 0.01
    cube.write(os.path.join(directory, 'flux.fits'))


def make_source(valid, flux, error, name='src'):
    s = Source()
    s.name = name
    s.x = 1.
    s.y = 2.
    s.valid = np.array(valid, dtype=int)
    s.flux = np.array(flux, dtype=float)
    s.error = np.array(error, dtype=float)
    return s


# ---------------------------------------------------------------------------
# Independent computation of what property C02 promises
# ---------------------------------------------------------------------------

def expected_grid(dmin_kpc, dmax_kpc, step):
    """Fewest log-uniform points including both ends with spacing <= step"""
    if dmin_kpc == dmax_kpc:
        return np.array([dmin_kpc])
    span = math.log10(dmax_kpc) - math.log10(dmin_kpc)
    n = 2
    while span / (n - 1) > step:
        n += 1
    lo = math.log10(dmin_kpc)
    return np.array([10. ** (lo + span * i / (n - 1)) for i in range(n)])


def lin_interp_clamped(x, xp, fp):
    """Plain python linear interpolation; x beyond the last node -> last node"""
    order = sorted(range(len(xp)), key=lambda i: xp[i])
    xp = [float(xp[i]) for i in order]
    fp = [float(fp[i]) for i in order]
    if x >= xp[-1]:
        return fp[-1]
    assert x >= xp[0], "demo input outside the quantifier (theta*d below smallest aperture)"
    for i in range(len(xp) - 1):
        if xp[i] <= x <= xp[i + 1]:
            t = (x - xp[i]) / (xp[i + 1] - xp[i])
            return fp[i] * (1. - t) + fp[i + 1] * t
    raise AssertionError


def source_logs(source):
    w = np.zeros(len(source.valid))
    lf = np.zeros(len(source.valid))
    for j, v in enumerate(source.valid):
        if v == 1:
            lf[j] = math.log10(source.flux[j]) - 0.5 * (source.error[j] / source.flux[j]) ** 2 / math.log(10.)
            w[j] = (source.flux[j] * math.log(10.) / source.error[j]) ** 2
        elif v == 4:
            lf[j] = source.flux[j]
            w[j] = 1. / source.error[j] ** 2
        else:
            assert v == 0, "the demo only uses valid in (0, 1, 4)"
    return w, lf


def oracle(tables, ap_au, theta_arcsec, grid_kpc, source, k, av_min, av_max, single=False):
    """
    tables[f] is the (n_models, n_ap) table of filter f (mJy at 1 kpc), ap_au[f]
    the tabulated apertures (AU).  Returns chi2[m, d], av[m, d].
    """
    w, lf = source_logs(source)
    n_models = len(tables[0])
    chi2 = np.zeros((n_models, len(grid_kpc)))
    av = np.zeros((n_models, len(grid_kpc)))
    for m in range(n_models):
        for i, d in enumerate(grid_kpc):
            r = np.zeros(len(tables))
            for f in range(len(tables)):
                flux = lin_interp_clamped(theta_arcsec[f] * d * 1000., ap_au[f], tables[f][m]) * (1. / d) ** 2
                if single:
                    flux = float(np.float32(flux))
                    r[f] = lf[f] - float(np.log10(np.float32(flux)))
                else:
                    r[f] = lf[f] - math.log10(flux)
            a = float(np.sum(w * r * k) / np.sum(w * k * k))
            a = min(max(a, av_min), av_max)
            av[m, i] = a
            chi2[m, i] = float(np.sum(w * (r - a * k) ** 2))
    return chi2, av


def verify(info, names, tables, ap_au, theta_arcsec, dmin_kpc, dmax_kpc, step, source, k,
           av_min, av_max, label, single=False):
    grid = expected_grid(dmin_kpc, dmax_kpc, step)
    chi2, av = oracle(tables, ap_au, theta_arcsec, grid, source, k, av_min, av_max, single=single)
    rtol = 2e-4 if single else 1e-9
    atol = 2e-4 if single else 1e-9
    got_av = np.asarray(info.av, float)
    got_sc = np.asarray(info.sc, float)
    got_chi2 = np.asarray(info.chi2, float)
    got_names = [str(x).strip() for x in info.model_name]
    check(sorted(got_names) == sorted(names), label + ": every model reported exactly once")
    check(np.all(np.diff(got_chi2) >= 0), label + ": results sorted by chi2")
    logd = np.log10(grid)
    for j, nm in enumerate(got_names):
        m = names.index(nm)
        # the reported scale is log10(d/kpc) of a grid distance
        i = int(np.argmin(np.abs(logd - got_sc[j])))
        check(abs(logd[i] - got_sc[j]) <= 1e-11, "%s: model %s: scale %r is not a grid distance" % (label, nm, got_sc[j]))
        # the reported chi2 is the minimum over the grid (and the chi2 at the reported distance)
        check(abs(got_chi2[j] - chi2[m].min()) <= atol + rtol * abs(chi2[m].min()),
              "%s: model %s: chi2 %r is not the grid minimum %r" % (label, nm, got_chi2[j], chi2[m].min()))
        check(abs(got_chi2[j] - chi2[m, i]) <= atol + rtol * abs(chi2[m, i]),
              "%s: model %s: chi2 %r is not the chi2 at the reported distance %r" % (label, nm, got_chi2[j], chi2[m, i]))
        # the reported A_V is the clipped optimum at the reported distance
        check(abs(got_av[j] - av[m, i]) <= (2e-3 if single else 1e-9) * max(1., abs(av[m, i])),
              "%s: model %s: av %r is not the clipped optimum %r" % (label, nm, got_av[j], av[m, i]))
        check(av_min <= got_av[j] <= av_max, label + ": av inside the range")
    return grid


def same_info(a, b):
    return (np.array_equal(np.asarray(a.av, float), np.asarray(b.av, float)) and
            np.array_equal(np.asarray(a.sc, float), np.asarray(b.sc, float)) and
            np.array_equal(np.asarray(a.chi2, float), np.asarray(b.chi2, float)) and
            [str(x) for x in a.model_name] == [str(x) for x in b.model_name])


def random_tables(rng, n_models, n_ap, n_filt, monotone):
    tables = []
    for f in range(n_filt):
        t = rng.uniform(0.05, 3., size=(n_models, n_ap)) * 10. ** rng.uniform(-1, 2, size=(n_models, 1))
        if monotone:
            t = np.cumsum(t, axis=1)
        tables.append(t)
    return tables


def random_source(rng, tables, n_filt, with_special=False):
    base = np.array([t[rng.integers(len(t)), rng.integers(t.shape[1])] for t in tables])
    flux = base * 10. ** rng.uniform(-1.3, 0.3, size=n_filt)
    error = flux * rng.uniform(0.03, 0.2, size=n_filt)
    valid = np.ones(n_filt, dtype=int)
    if with_special and n_filt >= 3:
        valid[1] = 0
        valid[2] = 4
        flux[2] = np.log10(flux[2])
        error[2] = 0.05
    return make_source(valid, flux, error)


# ---------------------------------------------------------------------------
# Scenarios shared by all demonstrations
# ---------------------------------------------------------------------------

def names_for(n):
    return ['model_%04d' % i for i in range(n)]


def build_v1(directory, tables, ap, ap_unit, wavs, step, overwrite=False, dtype=float):
    names = names_for(len(tables[0]))
    write_conf(directory, step, 1)
    fnames = []
    for f, t in enumerate(tables):
        fn = 'F%d' % f
        write_filter(directory, fn, wavs[f], names, ap, ap_unit, t, dtype=dtype, overwrite=overwrite)
        fnames.append(fn)
    return names, fnames


def run_case(label, directory, fnames, names, tables, ap_au, thetas, drange, step, av_range,
             sources, ext, use_memmap=False, single=False, wavs=None, n_fitters=2):
    """Build the fitter (twice), fit every source (twice) and verify against the oracle"""
    dr_kpc = drange.to(u.kpc).value
    infos = []
    for rep in range(n_fitters):
        with quiet():
            fitter = Fitter(fnames, thetas, directory, extinction_law=ext, av_range=av_range,
                            distance_range=drange, use_memmap=use_memmap)
        k = np.asarray(ext.get_av(np.asarray(wavs, float) * u.micron), float)
        theta_arcsec = [float(t.to(u.arcsec).value) for t in thetas]
        these = []
        for s in sources:
            with quiet():
                info1 = fitter.fit(s)
                info2 = fitter.fit(s)
            check(same_info(info1, info2), label + ": second fit with the same fitter and source gives the same result")
            grid = verify(info1, names, tables, ap_au, theta_arcsec, dr_kpc[0], dr_kpc[1], step, s, k,
                          av_range[0], av_range[1], label, single=single)
            check(fitter.models.n_distances == len(grid), label + ": number of trial distances")
            check(np.allclose(fitter.models.distances.to(u.kpc).value, grid, rtol=1e-12, atol=0), label + ": trial distances")
            these.append(info1)
        infos.append(these)
    for a, b in zip(infos[0], infos[-1]):
        check(same_info(a, b), label + ": a second fitter built from the same files gives the same result")
    return infos[0]


def common_scenarios(tmp, ext):

    rng = np.random.default_rng(20240607)

    # A: version 1, 6 apertures, non-decreasing fluxes, theta*d partly beyond the largest aperture
    dA = os.path.join(tmp, 'A'); os.mkdir(dA)
    apA = np.logspace(2., 5., 6)
    wavA = [1.2, 4.5, 24.]
    tabA = random_tables(rng, 5, 6, 3, monotone=True)
    names, fn = build_v1(dA, tabA, apA, u.au, wavA, 0.02)
    srcs = [random_source(rng, tabA, 3), random_source(rng, tabA, 3, with_special=True)]
    run_case('A', dA, fn, names, tabA, [apA] * 3, [3., 5., 40.] * u.arcsec, [0.5, 4.] * u.kpc, 0.02,
             (0., 40.), srcs, ext, wavs=wavA)

    # B: 2 tabulated apertures, arbitrary (non monotonic) fluxes, narrow A_V range (clipping on both sides)
    dB = os.path.join(tmp, 'B'); os.mkdir(dB)
    apB = np.array([500., 20000.])
    wavB = [0.8, 3.6]
    tabB = random_tables(rng, 7, 2, 2, monotone=False)
    names, fn = build_v1(dB, tabB, apB, u.au, wavB, 0.05)
    srcs = [random_source(rng, tabB, 2) for i in range(3)]
    run_case('B', dB, fn, names, tabB, [apB] * 2, [2., 10.] * u.arcsec, [0.3, 8.] * u.kpc, 0.05,
             (0.5, 2.0), srcs, ext, wavs=wavB)

    # C: 8 apertures tabulated in pc, distance range given in pc, apertures in arcmin, dmin == dmax
    dC = os.path.join(tmp, 'C'); os.mkdir(dC)
    apC_au = np.logspace(2.5, 5.5, 8)
    apC_pc = (apC_au * u.au).to(u.pc).value
    wavC = [2.2, 8., 70.]
    tabC = random_tables(rng, 4, 8, 3, monotone=False)
    names, fn = build_v1(dC, tabC, apC_pc, u.pc, wavC, 0.025)
    srcs = [random_source(rng, tabC, 3, with_special=True)]
    apC_back = (apC_pc * u.pc).to(u.au).value
    run_case('C1', dC, fn, names, tabC, [apC_back] * 3, [0.05, 0.1, 0.5] * u.arcmin, [1500., 1500.] * u.pc, 0.025,
             (0., 10.), srcs, ext, wavs=wavC)
    run_case('C2', dC, fn, names, tabC, [apC_back] * 3, [0.05, 0.1, 0.5] * u.arcmin, [700., 9000.] * u.pc, 0.025,
             (-2., 10.), srcs, ext, wavs=wavC)

    # D: boundaries: range of exactly one dex with a step of 0.1 (11 distances); theta*dmin exactly on the
    #    smallest tabulated aperture; theta*dmax exactly on the largest; a range shorter than one step
    dD = os.path.join(tmp, 'D'); os.mkdir(dD)
    apD = np.array([1000., 3000., 10000., 50000.])
    wavD = [1.6, 5.8]
    tabD = random_tables(rng, 6, 4, 2, monotone=True)
    names, fn = build_v1(dD, tabD, apD, u.au, wavD, 0.1)
    srcs = [random_source(rng, tabD, 2)]
    run_case('D1', dD, fn, names, tabD, [apD] * 2, [1., 5.] * u.arcsec, [1., 10.] * u.kpc, 0.1,
             (0., 25.), srcs, ext, wavs=wavD)
    run_case('D2', dD, fn, names, tabD, [apD] * 2, [1., 5.] * u.arcsec, [2., 2.1] * u.kpc, 0.1,
             (0., 25.), srcs, ext, wavs=wavD)

    # E: version 2 package: one broadband and one monochromatic filter, with and without memory mapping
    dE = os.path.join(tmp, 'E'); os.mkdir(dE)
    apE = np.logspace(2., 5., 5)
    namesE = names_for(5)
    cube_wav = [1., 3., 10., 30.]
    val = np.cumsum(rng.uniform(0.1, 2., size=(5, 5, 4)), axis=1)
    write_cube(dE, namesE, apE, cube_wav, val)
    write_conf(dE, 0.03, 2)
    tabE0 = random_tables(rng, 5, 5, 1, monotone=True)[0]
    write_filter(dE, 'F0', 2.2, namesE, apE, u.au, tabE0)
    tabE = [tabE0, val[:, :, 2]]
    srcs = [random_source(rng, tabE, 2)]
    run_case('E-nomemmap', dE, ['F0', 10. * u.micron], namesE, tabE, [apE] * 2, [4., 12.] * u.arcsec,
             [0.2, 6.] * u.kpc, 0.03, (0., 30.), srcs, ext, use_memmap=False, wavs=[2.2, 10.])
    run_case('E-memmap', dE, ['F0', 10. * u.micron], namesE, tabE, [apE] * 2, [4., 12.] * u.arcsec,
             [0.2, 6.] * u.kpc, 0.03, (0., 30.), srcs, ext, use_memmap=True, single=True, wavs=[2.2, 10.])

    return rng


# ---------------------------------------------------------------------------
# Demonstration specific to this change: reading the same / re-generated
# convolved flux files several times
# ---------------------------------------------------------------------------

import gzip
import pathlib


def tables_of(conv):
    return np.asarray(conv.flux.to(u.mJy).value, float)


def reread_checks(tmp, rng, ext):

    # (1) the same file read several times: equal, independent objects
    d = os.path.join(tmp, 'R'); os.mkdir(d)
    ap = np.logspace(2., 5., 6)
    wavs = [1.2, 4.5]
    tab = random_tables(rng, 5, 6, 2, monotone=True)
    names, fn = build_v1(d, tab, ap, u.au, wavs, 0.03)
    path = os.path.join(d, 'convolved', 'F0.fits')
    c1 = ConvolvedFluxes.read(path)
    c2 = ConvolvedFluxes.read(path)
    c3 = ConvolvedFluxes.read(pathlib.Path(path))   # unusual but legal: a Path object
    with open(path, 'rb') as fobj:                  # unusual but legal: an open binary file
        c0 = ConvolvedFluxes.read(fobj)
    for c in (c0, c1, c2, c3):
        check(np.array_equal(tables_of(c), tab[0]), "re-read: fluxes")
        check(np.array_equal(c.apertures.to(u.au).value, ap), "re-read: apertures")
        check([str(x).strip() for x in c.model_names] == names, "re-read: names")
        check(c.central_wavelength.to(u.micron).value == 1.2, "re-read: wavelength")
    check(c1 == c2 and c2 == c3, "re-read: equal objects")
    check(not np.shares_memory(c1.flux.value, c2.flux.value) and not np.shares_memory(c2.flux.value, c3.flux.value),
          "re-read: independent arrays")
    # the caller modifies what was returned: later reads are not affected
    c2.flux[:] = 0. * u.mJy
    c2.apertures[:] = 1. * u.au
    c3.sort_to_match(np.array(names[::-1]))
    c3.flux = c3.flux * 3.
    c4 = ConvolvedFluxes.read(path)
    check(np.array_equal(tables_of(c4), tab[0]) and np.array_equal(c4.apertures.to(u.au).value, ap) and
          [str(x).strip() for x in c4.model_names] == names, "re-read: not affected by modifications of earlier results")
    check(np.array_equal(tables_of(c1), tab[0]), "re-read: earlier results not affected either")

    # (2) the package is re-generated IN PLACE (same paths, same file sizes, immediately) several times:
    #     every fitter must see the current content
    srcs = [random_source(rng, tab, 2)]
    thetas = [3., 30.] * u.arcsec
    previous = None
    for it in range(5):
        tab_it = random_tables(rng, 5, 6, 2, monotone=(it % 2 == 0))
        size_before = os.path.getsize(path)
        names, fn = build_v1(d, tab_it, ap, u.au, wavs, 0.03, overwrite=True)
        check(os.path.getsize(path) == size_before, "re-generated file has the same size")
        check(np.array_equal(tables_of(ConvolvedFluxes.read(path)), tab_it[0]), "re-generated file is read, not remembered")
        infos = run_case('R%d' % it, d, fn, names, tab_it, [ap] * 2, thetas, [0.4, 5.] * u.kpc, 0.03,
                         (0., 20.), srcs, ext, wavs=wavs)
        if previous is not None:
            check(not same_info(previous, infos[0]), "results follow the content of the files")
        previous = infos[0]
    # ... and back to an earlier content (identical bytes as a file seen before)
    names, fn = build_v1(d, tab, ap, u.au, wavs, 0.03, overwrite=True)
    run_case('R-back', d, fn, names, tab, [ap] * 2, thetas, [0.4, 5.] * u.kpc, 0.03, (0., 20.), srcs, ext, wavs=wavs)

    # (3) only a few bytes patched inside the file (one flux value), size and (restored) time stamps unchanged
    st = os.stat(path)
    c_before = ConvolvedFluxes.read(path)
    with open(path, 'rb') as f:
        raw = bytearray(f.read())
    needle = np.array([tab[0][2, 3]], dtype='>f8').tobytes()
    pos = raw.find(needle)
    check(pos > 0, "located a flux value in the file")
    raw[pos:pos + 8] = np.array([tab[0][2, 3] * 2.], dtype='>f8').tobytes()
    with open(path, 'wb') as f:
        f.write(bytes(raw))
    os.utime(path, ns=(st.st_atime_ns, st.st_mtime_ns))
    tab_mod = [t.copy() for t in tab]
    tab_mod[0][2, 3] *= 2.
    check(np.array_equal(tables_of(ConvolvedFluxes.read(path)), tab_mod[0]), "patched file (same size and mtime) is read again")
    check(np.array_equal(tables_of(c_before), tab[0]), "object read before the patch unchanged")
    run_case('R-patched', d, fn, names, tab_mod, [ap] * 2, thetas, [0.4, 5.] * u.kpc, 0.03, (0., 20.), srcs, ext, wavs=wavs)

    # (4) the same content under another name / in another package, and a compressed package
    d2 = os.path.join(tmp, 'R2'); os.mkdir(d2); os.mkdir(os.path.join(d2, 'convolved'))
    write_conf(d2, 0.03, 1)
    shutil.copy(os.path.join(d, 'convolved', 'F0.fits'), os.path.join(d2, 'convolved', 'F1.fits'))   # swapped names
    shutil.copy(os.path.join(d, 'convolved', 'F1.fits'), os.path.join(d2, 'convolved', 'F0.fits'))
    run_case('R-swapped', d2, fn, names, [tab_mod[1], tab_mod[0]], [ap] * 2, thetas, [0.4, 5.] * u.kpc, 0.03,
             (0., 20.), srcs, ext, wavs=[wavs[1], wavs[0]])
    d3 = os.path.join(tmp, 'R3'); os.mkdir(d3); os.mkdir(os.path.join(d3, 'convolved'))
    write_conf(d3, 0.03, 1)
    for f in fn:
        with open(os.path.join(d, 'convolved', f + '.fits'), 'rb') as fi, \
                gzip.open(os.path.join(d3, 'convolved', f + '.fits.gz'), 'wb') as fo:
            fo.write(fi.read())
    run_case('R-gz', d3, fn, names, tab_mod, [ap] * 2, thetas, [0.4, 5.] * u.kpc, 0.03, (0., 20.), srcs, ext, wavs=wavs)

    # (5) many different files in a row (more than any reasonable cache would hold), then the first ones again
    d4 = os.path.join(tmp, 'R4'); os.mkdir(d4)
    many = random_tables(rng, 3, 4, 12, monotone=False)
    ap4 = np.array([100., 1000., 5000., 30000.])
    nm4 = names_for(3)
    for f, t in enumerate(many):
        write_filter(d4, 'G%d' % f, 1. + f, nm4, ap4, u.au, t)
    for rep in range(2):
        for f, t in enumerate(many):
            c = ConvolvedFluxes.read(os.path.join(d4, 'convolved', 'G%d.fits' % f))
            check(np.array_equal(tables_of(c), t) and c.central_wavelength.to(u.micron).value == 1. + f, "many files: content")

    # (6) a missing file is still refused with an exception
    try:
        ConvolvedFluxes.read(os.path.join(d4, 'convolved', 'nothing.fits'))
    except Exception:
        pass
    else:
        check(False, "missing file must be refused")


def main():
    tmp = tempfile.mkdtemp()
    try:
        ext = make_extinction()
        rng = common_scenarios(tmp, ext)
        reread_checks(tmp, rng, ext)
    finally:
        shutil.rmtree(tmp, ignore_errors=True)
    print("demo OK (%d checks)" % N_CHECKS[0])


if __name__ == '__main__':
    main()
