"""Demonstration for property C19 (truncated fit output never yields a wrong record).

Run as:  cd /tmp/wtQ_C19 && /venv/bin/python _out/q<i>/demo.py
"""
import sys, os
sys.path.insert(0, os.getcwd())

import copy
import pathlib
import pickletools
import shutil
import tempfile

import numpy as np
from astropy import units as u

import sedfitter
assert os.path.realpath(sedfitter.__file__).startswith(os.path.realpath(os.getcwd()) + os.sep), sedfitter.__file__

from sedfitter.fit_info import FitInfoFile, FitInfo, FitInfoMeta
from sedfitter.source import Source
from sedfitter.extinction import Extinction

rng = np.random.RandomState(19)

# ---------------------------------------------------------------- inputs

LAW = Extinction()
LAW.wav = np.array([0.5, 1.0, 5.0]) * u.micron
LAW.chi = np.array([300., 120., 10.]) * u.cm ** 2 / u.g
FILTERS = [{'name': 'F%d' % i, 'wav': w * u.micron, 'aperture_arcsec': 3.0}
           for i, w in enumerate([1.2, 8.0])]
MODEL_DIR = u'/some/where/models_é'


def make_record(k, n_fits, fluxes, form):
    s = Source()
    s.name = ('src_%03d' % k) if form != 'odd' else u'α-Ori #%d' % k
    s.x = np.float64(10.5 + k) if form != 'odd' else 3      # plain int is a legal scalar
    s.y = -3.25 * k
    n_wav = 4
    s.valid = np.array([1, 2, 4, 9][:n_wav]) if form == 'odd' else np.array([1, 1, 3, 0])
    s.flux = rng.uniform(1, 10, n_wav) if form != 'odd' else [1., 2., 3., 4.]   # list -> array
    s.error = rng.uniform(0.1, 1, n_wav).astype(np.float32 if form == 'odd' else float)
    info = FitInfo(s)
    info.av = rng.uniform(0, 10, n_fits)
    info.sc = rng.uniform(-1, 1, n_fits)
    info.chi2 = np.sort(rng.uniform(0, 100, n_fits))
    if form == 'odd':
        info.av = info.av * u.mag                      # Quantity, as Fitter.fit returns
        info.sc = np.asarray(rng.uniform(-1, 1, 2 * n_fits))[::2]   # non-contiguous
        info.chi2 = info.chi2.astype(np.float32)
    info.model_id = np.arange(n_fits)[::-1].copy()
    info.model_name = np.array(['m%07d_%02d' % (rng.randint(10 ** 6), k) for _ in range(n_fits)],
                               dtype='S30' if form == 'odd' else 'U30')
    if fluxes:
        mf = rng.normal(size=(n_fits, 4))
        info.model_fluxes = mf.astype(np.float32) if form == 'odd' else mf
    else:
        info.model_fluxes = None
    info.meta.model_dir = MODEL_DIR
    info.meta.filters = FILTERS
    info.meta.extinction_law = LAW
    return info


# ---------------------------------------------------------------- independent comparison

def canon(x):
    """Canonical, exactly comparable description of a value (independent of the library)."""
    if isinstance(x, u.Quantity):
        return ('Q', str(x.unit), canon(np.asarray(x.value)))
    if isinstance(x, np.ndarray):
        return ('A', x.dtype.str, x.shape, np.ascontiguousarray(x).tobytes())
    if isinstance(x, np.generic):
        return ('G', x.dtype.str, x.tobytes())
    if isinstance(x, Source):
        return ('S',) + tuple((k, canon(getattr(x, k))) for k in ('name', 'x', 'y', 'valid', 'flux', 'error'))
    if isinstance(x, Extinction):
        return ('E', canon(x.wav), canon(x.chi))
    if isinstance(x, dict):
        return ('D',) + tuple((k, canon(x[k])) for k in sorted(x))
    if isinstance(x, (list, tuple)):
        return (type(x).__name__,) + tuple(canon(v) for v in x)
    if x is None or isinstance(x, (str, bytes, int, float, bool)):
        return (type(x).__name__, x)
    raise TypeError(type(x))


FIELDS = ('source', 'av', 'sc', 'chi2', 'model_id', 'model_name', 'model_fluxes')


def canon_info(info):
    return tuple((k, canon(getattr(info, k))) for k in FIELDS) + (
        ('meta', canon(info.meta.model_dir), canon(info.meta.filters), canon(info.meta.extinction_law)),)


def pickle_ends(data):
    """End offsets of the successive pickles in a byte string (pickletools only)."""
    ends, pos = [], 0
    while pos < len(data):
        for op, arg, p in pickletools.genops(data[pos:]):
            last = p
        assert op.name == 'STOP'
        pos += last + 1
        ends.append(pos)
    return ends


# ---------------------------------------------------------------- reading

def read_all(path):
    """Returns (records yielded, error or None, records yielded by a second iteration)."""
    got, err, f = [], None, None
    try:
        f = FitInfoFile(path, 'r')
        for info in f:
            got.append(info)
    except Exception as exc:       # noqa
        err = exc
    again = []
    if f is not None:
        try:
            for info in f:
                again.append(info)
        except Exception:
            pass
        f.close()
    return got, err, again


def main():
    shm = '/dev/shm'
    tmp = tempfile.mkdtemp(prefix='c19_demo_', dir=shm if os.path.isdir(shm) and os.access(shm, os.W_OK) else None)
    n_files = n_cuts = n_err = n_short = 0
    try:
        schemes = {
            'small': [(1, 'plain'), (3, 'plain'), (2, 'plain'), (5, 'plain')],
            'mixed': [(7, 'odd'), (0, 'plain'), (12, 'plain'), (1, 'odd')],   # includes a record with zero fits
        }
        for scheme, sizes in sorted(schemes.items()):
            for n_rec in ((1, 2, 3, 4) if scheme == 'small' else (4,)):
                for fluxes in (False, True):
                    records = [make_record(k, sizes[k][0], fluxes, sizes[k][1]) for k in range(n_rec)]
                    expected = [canon_info(r) for r in records]      # snapshot (bytes are copied)
                    path = os.path.join(tmp, 'full_%s_%d_%d.fitinfo' % (scheme, n_rec, fluxes))
                    fout = FitInfoFile(path, 'w')
                    for r in records:
                        fout.write(r)
                    fout.close()
                    # writing must not have modified the records
                    assert [canon_info(r) for r in records] == expected
                    with open(path, 'rb') as fh:
                        data = fh.read()
                    ends = pickle_ends(data)
                    assert len(ends) == 3 + n_rec, (len(ends), n_rec)
                    rec_ends = ends[3:]
                    assert rec_ends[-1] == len(data)

                    # the complete file: all records, twice (second call on the same file)
                    for rep in range(2):
                        got, err, again = read_all(path)
                        assert err is None, err
                        assert [canon_info(g) for g in got] == expected
                        assert again == []
                    # unusual-but-legal input form: a pathlib.Path (refused with TypeError by
                    # older versions, which is fine; if accepted it must behave identically)
                    try:
                        fp = FitInfoFile(pathlib.Path(path), 'r')
                    except TypeError:
                        fp = None
                    if fp is not None:
                        assert [canon_info(g) for g in fp] == expected
                        fp.close()

                    n_files += 1
                    tpath = os.path.join(tmp, 'cut.fitinfo')
                    for cut in range(len(data)):          # every offset 0..len-1
                        with open(tpath, 'wb') as fh:
                            fh.write(data[:cut])
                        n_complete = sum(1 for e in rec_ends if e <= cut)
                        for rep in range(2 if cut % 8 == 0 else 1):   # second call on the same file
                            got, err, again = read_all(tpath)
                            cg = [canon_info(g) for g in got]
                            # PROPERTY: exact prefix of what was written, nothing invented
                            assert len(cg) <= n_rec
                            assert cg == expected[:len(cg)], (scheme, n_rec, fluxes, cut)
                            assert len(cg) <= n_complete, (scheme, n_rec, fluxes, cut, len(cg), n_complete)
                            assert again == [] or [canon_info(g) for g in again] == expected[len(cg):len(cg) + len(again)]
                            assert len(cg) + len(again) <= n_complete
                            if cut < ends[2]:
                                # header incomplete -> nothing can be delivered
                                assert err is not None and cg == []
                            if rep == 0:
                                n_cuts += 1
                                n_err += err is not None
                                n_short += (err is None and len(cg) < n_complete)
                    # boundary values explicitly: empty file, end of header, each record boundary
                    for cut, want in [(ends[2], 0)] + [(e, i + 1) for i, e in enumerate(rec_ends[:-1])]:
                        with open(tpath, 'wb') as fh:
                            fh.write(data[:cut])
                        got, err, again = read_all(tpath)
                        assert err is None and len(got) == want, (cut, err, len(got), want)
                        assert [canon_info(g) for g in got] == expected[:want]
                    with open(tpath, 'wb') as fh:
                        pass
                    got, err, again = read_all(tpath)
                    assert got == [] and err is not None
    finally:
        shutil.rmtree(tmp, ignore_errors=True)
    print('files: %d  truncations: %d  refused with an error: %d  silently short of the complete records: %d'
          % (n_files, n_cuts, n_err, n_short))
    assert n_short == 0
    print('C19 demo OK')


if __name__ == '__main__':
    main()
