import sys, os; sys.path.insert(0, os.getcwd())
"""
Demonstration for property C16 (monochromatic 'convolution' emits every
in-range wavelength at any memory limit; nearest-wavelength cube slice).

Run as:  cd /tmp/wtQ_C16 && /venv/bin/python _out/q<i>/demo.py
Exits 0 if every check passes.
"""
import io
import glob
import gzip
import shutil
import tempfile
import itertools
import contextlib
from pathlib import Path

import numpy as np
from astropy import units as u
from astropy.io import fits
from astropy.table import Table
from astropy.logger import log

import sedfitter
assert os.path.dirname(os.path.abspath(sedfitter.__file__)) == os.path.join(os.getcwd(), 'sedfitter'), sedfitter.__file__

from sedfitter.sed import SED, SEDCube
from sedfitter.convolve import convolve_model_dir_monochromatic
from sedfitter.convolve.monochromatic import convolve_model_dir_monochromatic as cmono2
from sedfitter.convolved_fluxes import ConvolvedFluxes, MonochromaticFluxes
from sedfitter.models import Models

assert cmono2 is convolve_model_dir_monochromatic

log.setLevel('ERROR')

N_CHECKS = [0]


def ok(cond, msg):
    N_CHECKS[0] += 1
    if not cond:
        raise AssertionError(msg)


@contextlib.contextmanager
def quiet():
    with contextlib.redirect_stdout(io.StringIO()):
        yield


# ---------------------------------------------------------------------------
# Package builders (raw numpy arrays are kept as the independent reference)
# ---------------------------------------------------------------------------

def build_package(root, rng, n_wav, n_ap, n_models, layout='flat', compress=False,
                  no_apertures=False):
    """
    Write a per-file package.  Returns a dict with the raw reference data:
    wav (ascending, micron), flux/err [model, ap, wav] in mJy, names (SED
    order) and par_names (parameter table order).
    """
    os.makedirs(os.path.join(root, 'seds'))
    lw = np.sort(rng.uniform(-1., 3., n_wav))
    # make sure wavelengths are well separated
    lw = lw + np.arange(n_wav) * 0.05
    wav = 10. ** lw
    names = ['mod_{0:03d}_{1}'.format(i, 'x' * int(rng.integers(0, 6))) for i in range(n_models)]
    flux = np.cumsum(rng.uniform(0.1, 5., (n_models, n_ap, n_wav)), axis=1)
    err = flux * rng.uniform(0.001, 0.05, flux.shape)
    aps = np.sort(rng.uniform(10., 1e5, n_ap)) + np.arange(n_ap)
    for i in range(n_models):
        s = SED()
        s.name = names[i]
        s.distance = 1. * u.kpc
        s.wav = wav * u.micron
        s.nu = s.wav.to(u.Hz, equivalencies=u.spectral())
        if no_apertures:
            assert n_ap == 1
            s.apertures = None
        else:
            s.apertures = aps * u.au
        s.flux = flux[i] * u.mJy
        s.error = err[i] * u.mJy
        if layout == 'flat':
            d = os.path.join(root, 'seds')
        else:
            d = os.path.join(root, 'seds', names[i][:5])
            os.makedirs(d, exist_ok=True)
        fn = os.path.join(d, names[i] + '_sed.fits')
        s.write(fn)
        if compress and i % 2 == 0:
            with open(fn, 'rb') as fi, gzip.open(fn + '.gz', 'wb') as fo:
                fo.write(fi.read())
            os.remove(fn)
    with open(os.path.join(root, 'models.conf'), 'w') as f:
        f.write("name = demo\nlength_subdir = 0\naperture_dependent = no\nlogd_step = 0.02\n")
    perm = rng.permutation(n_models)
    par_names = [names[k] for k in perm]
    t = Table()
    t['MODEL_NAME'] = np.array(par_names, dtype='S30')
    t['par1'] = rng.uniform(size=n_models)
    t.write(os.path.join(root, 'parameters.fits'))
    return dict(root=root, wav=wav, flux=flux, err=err, names=names, par_names=par_names,
                perm=perm, aps=aps, n_wav=n_wav, n_ap=n_ap, n_models=n_models,
                no_apertures=no_apertures)


def max_ram_for_chunk(c, n_models, n_ap, frac=0.5):
    # chunk = floor(max_ram * 1024^3 / (4 * 2 * n_models * n_ap))
    return (c + frac) * 8. * n_models * n_ap / 1024. ** 3


def clean_convolved(root):
    d = os.path.join(root, 'convolved')
    if os.path.exists(d):
        shutil.rmtree(d)


def read_outputs(root):
    """
    Independent reader (plain astropy.io.fits) of the convolved directory
    """
    out = {}
    for fn in sorted(os.listdir(os.path.join(root, 'convolved'))):
        with fits.open(os.path.join(root, 'convolved', fn), memmap=False) as h:
            rec = {}
            rec['filtwav'] = h[0].header['FILTWAV']
            rec['nmodels'] = h[0].header['NMODELS']
            rec['nap'] = h[0].header['NAP']
            d = h['CONVOLVED FLUXES'].data
            rec['names'] = [str(x).strip() for x in d['MODEL_NAME']]
            rec['flux'] = np.array(d['TOTAL_FLUX'], dtype=float)
            rec['err'] = np.array(d['TOTAL_FLUX_ERR'], dtype=float)
            rec['flux_unit'] = h['CONVOLVED FLUXES'].columns['TOTAL_FLUX'].unit
            rec['err_unit'] = h['CONVOLVED FLUXES'].columns['TOTAL_FLUX_ERR'].unit
            rec['colnames'] = list(h['CONVOLVED FLUXES'].columns.names)
            rec['aps'] = np.array(h['APERTURES'].data['APERTURE'], dtype=float)
            rec['aps_unit'] = h['APERTURES'].columns['APERTURE'].unit
            rec['extnames'] = [x.name for x in h]
        out[fn] = rec
    return out


def expected_indices(pkg, wav_min, wav_max):
    """
    Indices (0-based, in the order of decreasing wavelength = increasing
    frequency in which SED.read presents the wavelengths) of wavelengths
    inside the window.  A wavelength equal to wav_min is inside; the upper
    end is only ever probed strictly between / outside tabulated values or
    on a tabulated value, where the library documents 'below this value'.
    """
    wdesc = pkg['wav'][::-1]
    return [j for j in range(pkg['n_wav']) if (wdesc[j] >= wav_min) and (wdesc[j] < wav_max)]


def check_run(pkg, result, wav_min, wav_max, label):
    n_wav, n_ap, n_models = pkg['n_wav'], pkg['n_ap'], pkg['n_models']
    wdesc = pkg['wav'][::-1]
    exp = expected_indices(pkg, wav_min, wav_max)
    out = read_outputs(pkg['root'])
    exp_files = ['MO{0:03d}.fits'.format(j + 1) for j in exp]
    ok(sorted(out) == sorted(exp_files), '{0}: files {1} != expected {2}'.format(label, sorted(out), exp_files))
    for j in exp:
        rec = out['MO{0:03d}.fits'.format(j + 1)]
        ok(np.isclose(rec['filtwav'], wdesc[j], rtol=1e-13, atol=0), label + ': FILTWAV')
        ok(rec['nmodels'] == n_models and rec['nap'] == n_ap, label + ': header counts')
        ok(rec['names'] == pkg['par_names'], label + ': model order {0} != {1}'.format(rec['names'], pkg['par_names']))
        ok(rec['colnames'] == ['MODEL_NAME', 'TOTAL_FLUX', 'TOTAL_FLUX_ERR'], label + ': column names')
        ok(rec['extnames'] == ['PRIMARY', 'CONVOLVED FLUXES', 'APERTURES'], label + ': extensions')
        ok(u.Unit(rec['flux_unit']) == u.mJy and u.Unit(rec['err_unit']) == u.mJy, label + ': units')
        iw = n_wav - 1 - j  # index in ascending raw arrays
        ef = pkg['flux'][pkg['perm'], :, iw]
        ee = pkg['err'][pkg['perm'], :, iw]
        ok(rec['flux'].reshape(n_models, n_ap).shape == (n_models, n_ap), label + ': flux shape')
        ok(np.allclose(rec['flux'].reshape(n_models, n_ap), ef, rtol=1e-12, atol=0), label + ': flux values')
        ok(np.allclose(rec['err'].reshape(n_models, n_ap), ee, rtol=1e-12, atol=0), label + ': error values')
        if pkg['no_apertures']:
            ok(len(rec['aps']) == 1, label + ': apertures')
        else:
            ok(np.allclose((rec['aps'] * u.Unit(rec['aps_unit'])).to(u.au).value, pkg['aps'], rtol=1e-13), label + ': apertures')
    # Returned table
    ok(isinstance(result, Table), label + ': returned table type')
    ok(result.colnames == ['wav', 'filter'], label + ': returned columns')
    ok(len(result) == n_wav, label + ': returned length')
    ok(np.allclose(u.Quantity(result['wav']).to(u.micron).value, wdesc, rtol=1e-13, atol=0), label + ': returned wav')
    ok(result['filter'].dtype.kind == 'S', label + ': returned filter dtype')
    for j in range(n_wav):
        name = result['filter'][j]
        name = name.decode() if isinstance(name, bytes) else str(name)
        if j in exp:
            ok(name == 'MO{0:03d}'.format(j + 1), label + ': returned name {0!r} at {1}'.format(name, j))
        else:
            ok(name == '', label + ': returned name for out-of-window wavelength should be empty, got {0!r}'.format(name))
    return out


def same_outputs(a, b):
    if sorted(a) != sorted(b):
        return False
    for k in a:
        for key in a[k]:
            x, y = a[k][key], b[k][key]
            if isinstance(x, np.ndarray):
                if x.shape != y.shape or not np.array_equal(x, y):
                    return False
            elif x != y:
                return False
    return True


def window_ends(wav):
    """
    Candidate ends: below all, on each, between each, above all, infinite
    """
    ends = [wav[0] * 0.5]
    for i in range(len(wav)):
        ends.append(wav[i])
        if i + 1 < len(wav):
            ends.append(0.5 * (wav[i] + wav[i + 1]))
    ends.append(wav[-1] * 2.)
    return ends


def run(pkg, max_ram, wav_min=None, wav_max=None, overwrite=False, model_dir=None, **kwargs):
    if wav_min is not None:
        kwargs['wav_min'] = wav_min
    if wav_max is not None:
        kwargs['wav_max'] = wav_max
    with quiet():
        return convolve_model_dir_monochromatic(pkg['root'] if model_dir is None else model_dir,
                                                overwrite=overwrite, max_ram=max_ram, **kwargs)


def to_val(q, default):
    return default if q is None else q.to(u.micron).value


def exhaustive(pkg, chunks, label):
    """
    Every window (ends between or on tabulated wavelengths, or infinite) at
    each of the given chunk sizes; contents must not depend on the chunk size
    """
    ends = window_ends(pkg['wav'])
    windows = [(None, None)]
    for a, b in itertools.combinations_with_replacement(ends, 2):
        windows.append((a * u.micron, b * u.micron))
    for a in ends:
        windows.append((a * u.micron, None))
        windows.append((None, a * u.micron))
    n_single = 0
    for (lo, hi) in windows:
        ref = None
        for c in chunks:
            clean_convolved(pkg['root'])
            res = run(pkg, max_ram_for_chunk(c, pkg['n_models'], pkg['n_ap']), lo, hi)
            lab = '{0} window=({1},{2}) chunk={3}'.format(label, lo, hi, c)
            out = check_run(pkg, res, to_val(lo, -np.inf), to_val(hi, np.inf), lab)
            if len(out) == 1:
                n_single += 1
            if ref is None:
                ref = out
            else:
                ok(same_outputs(ref, out), lab + ': contents depend on the memory limit')
    ok(n_single > 0, label + ': no single-wavelength window was exercised')


def main_perfile(tmp, rng, extra=None):
    # --- exhaustive for small n_wav ---------------------------------------
    for n_wav, n_ap, n_models in [(2, 1, 1), (2, 3, 2), (3, 2, 3), (3, 1, 5), (4, 3, 4)]:
        root = os.path.join(tmp, 'pk_{0}_{1}_{2}'.format(n_wav, n_ap, n_models))
        pkg = build_package(root, rng, n_wav, n_ap, n_models)
        chunks = list(range(1, n_wav + 1)) if n_wav < 4 else [1, 3, 4]
        exhaustive(pkg, chunks, 'exh[{0},{1},{2}]'.format(n_wav, n_ap, n_models))
        print('exhaustive n_wav={0} n_ap={1} n_models={2}: ok'.format(n_wav, n_ap, n_models))

    # --- sampled for larger n_wav, every chunk size ----------------------
    cases = [(5, 2, 2, 'sub', True, False), (6, 1, 3, 'flat', False, True), (7, 3, 5, 'flat', True, False),
             (8, 1, 1, 'sub', False, False), (9, 3, 4, 'flat', False, False), (9, 2, 5, 'sub', True, False)]
    for n_wav, n_ap, n_models, layout, compress, noap in cases:
        root = os.path.join(tmp, 'pl_{0}_{1}_{2}'.format(n_wav, n_ap, n_models))
        pkg = build_package(root, rng, n_wav, n_ap, n_models, layout=layout, compress=compress, no_apertures=noap)
        ends = window_ends(pkg['wav'])
        windows = [(None, None)]
        for k in range(4):
            a, b = sorted(rng.choice(len(ends), 2))
            windows.append((ends[a] * u.micron, ends[b] * u.micron))
        # a single-wavelength window with both ends between tabulated values
        k = int(rng.integers(1, n_wav - 1))
        windows.append((0.5 * (pkg['wav'][k - 1] + pkg['wav'][k]) * u.micron, 0.5 * (pkg['wav'][k] + pkg['wav'][k + 1]) * u.micron))
        # a single-wavelength window starting on a tabulated value
        windows.append((pkg['wav'][k] * u.micron, 0.5 * (pkg['wav'][k] + pkg['wav'][k + 1]) * u.micron))
        for lo, hi in windows:
            ref = None
            for c in range(1, n_wav + 1):
                clean_convolved(root)
                res = run(pkg, max_ram_for_chunk(c, n_models, n_ap), lo, hi)
                lab = 'smp[{0},{1},{2}] window=({3},{4}) chunk={5}'.format(n_wav, n_ap, n_models, lo, hi, c)
                out = check_run(pkg, res, to_val(lo, -np.inf), to_val(hi, np.inf), lab)
                if ref is None:
                    ref = out
                else:
                    ok(same_outputs(ref, out), lab + ': contents depend on the memory limit')
        print('sampled n_wav={0} n_ap={1} n_models={2} layout={3} gz={4}: ok'.format(n_wav, n_ap, n_models, layout, compress))

        # --- second call on the same directory --------------------------
        clean_convolved(root)
        res1 = run(pkg, 8)
        out1 = check_run(pkg, res1, -np.inf, np.inf, 'first call')
        try:
            run(pkg, 8)
        except OSError:
            pass
        else:
            raise AssertionError('second call without overwrite should refuse to clobber files')
        res2 = run(pkg, max_ram_for_chunk(2, n_models, n_ap), overwrite=True)
        out2 = check_run(pkg, res2, -np.inf, np.inf, 'second call')
        ok(same_outputs(out1, out2), 'second call changed the files')
        ok(np.all(res1['filter'] == res2['filter']) and np.all(res1['wav'] == res2['wav']), 'second call changed the table')

        # --- unusual but legal input forms ----------------------------
        w = pkg['wav']
        lo_um, hi_um = 0.5 * (w[1] + w[2]), 0.5 * (w[-2] + w[-1])
        for form, (lo, hi, ram) in {
            'mm/nm window, numpy float32 ram': ((lo_um * 1e-3) * u.mm, (hi_um * 1e3) * u.nm, np.float32(max_ram_for_chunk(2, n_models, n_ap))),
            'cm window, int ram': ((lo_um * 1e-4) * u.cm, (hi_um * 1e-6) * u.m, 1),
            '0-d array quantity, zero ram': (u.Quantity(np.array(lo_um), u.micron), u.Quantity(np.array(hi_um), u.micron), 0),
            'numpy int ram': (lo_um * u.micron, hi_um * u.micron, np.int64(3)),
            'tiny ram': (lo_um * u.micron, hi_um * u.micron, 1e-30),
        }.items():
            clean_convolved(root)
            res = run(pkg, ram, lo, hi)
            check_run(pkg, res, lo_um, hi_um, 'form ' + form)
        # trailing slash in the directory name; positional arguments
        clean_convolved(root)
        with quiet():
            res = convolve_model_dir_monochromatic(root + '/', False, max_ram_for_chunk(1, n_models, n_ap), lo_um * u.micron, hi_um * u.micron)
        check_run(pkg, res, lo_um, hi_um, 'positional')

        # --- boundaries -------------------------------------------------
        clean_convolved(root)
        res = run(pkg, 8, w[-1] * 3 * u.micron, w[-1] * 4 * u.micron)  # empty window above
        check_run(pkg, res, w[-1] * 3, w[-1] * 4, 'empty window above')
        clean_convolved(root)
        res = run(pkg, 8, w[0] * 0.1 * u.micron, w[0] * 0.2 * u.micron)  # empty window below
        check_run(pkg, res, w[0] * 0.1, w[0] * 0.2, 'empty window below')
        clean_convolved(root)
        res = run(pkg, max_ram_for_chunk(n_wav, n_models, n_ap, frac=0.0001), None, None)  # chunk just reaching n_wav
        check_run(pkg, res, -np.inf, np.inf, 'chunk == n_wav boundary')
        clean_convolved(root)
        res = run(pkg, max_ram_for_chunk(n_wav - 1, n_models, n_ap, frac=0.9999), None, None)  # just below
        check_run(pkg, res, -np.inf, np.inf, 'chunk == n_wav - 1 boundary')
        clean_convolved(root)
        res = run(pkg, 8, w[0] * u.micron, w[0] * 1.0000001 * u.micron)  # only the shortest wavelength (last file)
        out = check_run(pkg, res, w[0], w[0] * 1.0000001, 'shortest only')
        ok(sorted(out) == ['MO{0:03d}.fits'.format(n_wav)], 'shortest only: file name')
        clean_convolved(root)
        res = run(pkg, 8, w[-1] * u.micron, None)  # only the longest wavelength (first file)
        out = check_run(pkg, res, w[-1], np.inf, 'longest only')
        ok(sorted(out) == ['MO001.fits'], 'longest only: file name')

        if extra is not None:
            extra(pkg)

    # --- inputs that are refused stay refused -----------------------------
    empty = os.path.join(tmp, 'empty')
    os.makedirs(os.path.join(empty, 'seds'))
    shutil.copy(os.path.join(root, 'models.conf'), empty)
    shutil.copy(os.path.join(root, 'parameters.fits'), empty)
    try:
        with quiet():
            convolve_model_dir_monochromatic(empty)
    except Exception as exc:
        ok(str(exc) == "No SEDs found in %s" % empty, 'message for empty directory: ' + str(exc))
    else:
        raise AssertionError('empty directory accepted')


# ---------------------------------------------------------------------------
# Cube packages: wavelength 'filters' select the nearest tabulated slice
# ---------------------------------------------------------------------------

def build_cube(root, rng, n_wav, n_ap, n_models):
    os.makedirs(root)
    lw = np.sort(rng.uniform(-1., 3., n_wav)) + np.arange(n_wav) * 0.05
    wav = 10. ** lw
    names = np.array(['cm_{0:03d}'.format(i) for i in range(n_models)])
    val = np.cumsum(rng.uniform(0.1, 5., (n_models, n_ap, n_wav)), axis=1)
    unc = val * rng.uniform(0.001, 0.05, val.shape)
    cube = SEDCube()
    cube.names = names
    cube.distance = 1 * u.kpc
    cube.wav = wav * u.micron
    cube.apertures = np.sort(rng.uniform(10., 1e5, n_ap)) * u.au if n_ap > 1 else None
    cube.val = val * u.mJy
    cube.unc = unc * u.mJy
    cube.write(os.path.join(root, 'flux.fits'))
    with open(os.path.join(root, 'models.conf'), 'w') as f:
        f.write("name = demo\nlength_subdir = 0\naperture_dependent = no\nlogd_step = 0.02\nversion = 2\n")
    t = Table()
    t['MODEL_NAME'] = np.array(names, dtype='S')
    t['par1'] = rng.uniform(size=n_models)
    t.write(os.path.join(root, 'parameters.fits'))
    return dict(root=root, wav=wav, val=val, unc=unc, names=names, cube=cube)


def main_cube(tmp, rng):
    for n_wav, n_ap, n_models in [(2, 1, 1), (3, 1, 4), (5, 1, 3), (9, 1, 5)]:
        root = os.path.join(tmp, 'cube_{0}_{1}'.format(n_wav, n_models))
        ck = build_cube(root, rng, n_wav, n_ap, n_models)
        w = ck['wav']
        req = []
        for i in range(n_wav):
            req.append(w[i] * u.micron)                      # exactly tabulated
            req.append((w[i] * 1.01) * u.micron)
            req.append((w[i] * 0.99 * 1e3) * u.nm)           # other unit
            if i + 1 < n_wav:
                mid = 0.5 * (w[i] + w[i + 1])
                req.append((mid - 0.01 * (w[i + 1] - w[i])) * u.micron)   # just below the arithmetic mid-point
                req.append(((mid + 0.01 * (w[i + 1] - w[i])) * 1e-3) * u.mm)  # just above
        req.append(w[0] * 0.01 * u.micron)                   # far outside the tabulated range
        req.append(w[-1] * 100 * u.micron)
        req.append(u.Quantity(np.float32(w[n_wav // 2]), u.micron))  # numpy scalar inside
        exp_idx = [int(np.argmin(np.abs(w - r.to(u.micron).value))) for r in req]
        filters = [{'wav': r, 'aperture_arcsec': 3.} for r in req]
        for use_memmap, rtol in [(False, 1e-12), (True, 1e-6)]:
            for rep in range(2):   # second call with the same filter dicts
                with quiet():
                    m = Models.read(root, filters, use_memmap=use_memmap)
                ok(m.fluxes.shape == (n_models, len(req)), 'cube: flux shape')
                got = m.fluxes.to(u.mJy).value
                for k, ie in enumerate(exp_idx):
                    ok(np.allclose(got[:, k], ck['val'][:, 0, ie], rtol=rtol, atol=0),
                       'cube[{0}] request {1}: not the nearest slice {2}'.format(n_wav, req[k], ie))
                    ok(np.isclose(m.wavelengths[k].to(u.micron).value, req[k].to(u.micron).value, rtol=1e-12), 'cube: wavelengths')
                ok(list(m.names) == list(ck['names']), 'cube: names')
        # MonochromaticFluxes.from_sed_cube directly
        with quiet():
            cube = SEDCube.read(os.path.join(root, 'flux.fits'))
        cw = cube.wav.to(u.micron).value
        for idx in list(range(n_wav)) + [np.int64(n_wav - 1), -1]:
            conv = MonochromaticFluxes.from_sed_cube(cube, idx)
            iw = int(np.argmin(np.abs(w - cw[idx])))
            ok(np.isclose(cw[idx], w[iw], rtol=1e-13), 'from_sed_cube: wav')
            ok(np.isclose(conv.central_wavelength.to(u.micron).value, w[iw], rtol=1e-13), 'from_sed_cube: central wavelength')
            ok(np.allclose(conv.flux.to(u.mJy).value, ck['val'][:, :, iw], rtol=1e-6), 'from_sed_cube: flux')
            ok(np.allclose(conv.error.to(u.mJy).value, ck['unc'][:, :, iw], rtol=1e-6), 'from_sed_cube: error')
            ok(list(conv.model_names) == list(ck['names']), 'from_sed_cube: names')
        print('cube n_wav={0} n_models={1}: ok'.format(n_wav, n_models))

    # The per-file files can be read back by Models (version 1) by name
    root = os.path.join(tmp, 'v1_models')
    pkg = build_package(root, rng, 6, 1, 4, no_apertures=True)
    res = run(pkg, max_ram_for_chunk(4, 4, 1))
    check_run(pkg, res, -np.inf, np.inf, 'v1 models')
    names = [x.decode() if isinstance(x, bytes) else str(x) for x in res['filter']]
    filters = [{'name': n, 'aperture_arcsec': 3.} for n in names[::2]]
    for rep in range(2):
        with quiet():
            m = Models.read(root, filters)
        wdesc = pkg['wav'][::-1]
        ok(np.allclose(m.wavelengths.to(u.micron).value, wdesc[::2], rtol=1e-13), 'v1 models: wavelengths')
        ok(list(m.names) == pkg['par_names'], 'v1 models: names')
        ok(np.allclose(m.fluxes.to(u.mJy).value, pkg['flux'][pkg['perm'], 0, ::-1][:, ::2], rtol=1e-12), 'v1 models: fluxes')
    print('v1 Models read-back: ok')


def main(extra=None, extra_global=None):
    tmp = tempfile.mkdtemp(prefix='c16demo_')
    try:
        rng = np.random.default_rng(20240916)
        main_perfile(tmp, rng, extra=extra)
        main_cube(tmp, rng)
        if extra_global is not None:
            extra_global(tmp, rng)
    finally:
        shutil.rmtree(tmp, ignore_errors=True)
    print('ALL OK ({0} checks)'.format(N_CHECKS[0]))


def extra_interface(tmp, rng):
    """
    Input forms: those that always worked keep working and give the same
    files; those that were refused are still refused with a compatible
    exception type; the new forms (only tried when the installed signature
    has them) give exactly the files of the equivalent old form.
    """
    import inspect
    import sedfitter.convolve.monochromatic as mono
    params = inspect.signature(convolve_model_dir_monochromatic).parameters
    ok(list(params)[:5] == ['model_dir', 'overwrite', 'max_ram', 'wav_min', 'wav_max'], 'documented argument order')
    ok(params['overwrite'].default is False and params['max_ram'].default == 8, 'defaults')
    ok(params['wav_min'].default == -np.inf * u.micron and params['wav_max'].default == np.inf * u.micron, 'window defaults')
    hardened = 'progress' in params

    root = os.path.join(tmp, 'iface')
    pkg = build_package(root, rng, 6, 2, 3)
    w = pkg['wav']
    lo, hi = 0.5 * (w[0] + w[1]), 0.5 * (w[3] + w[4])
    ram2 = max_ram_for_chunk(2, 3, 2)

    clean_convolved(root)
    ref = check_run(pkg, run(pkg, ram2, lo * u.micron, hi * u.micron), lo, hi, 'reference')

    # forms that have always been accepted
    always = {
        'unitless infinities': dict(wav_min=-np.inf, wav_max=np.inf, max_ram=ram2),
        'unitless zero lower end': dict(wav_min=0, max_ram=ram2),
        'dimensionless quantity ram': dict(max_ram=u.Quantity(ram2)),
        'negative ram (chunks of one)': dict(max_ram=-3),
        'numpy scalar window in mm': dict(wav_min=u.Quantity(np.float64(lo * 1e-3), u.mm), wav_max=u.Quantity(hi * 1e-3, u.mm), max_ram=ram2),
    }
    for label, kw in always.items():
        clean_convolved(root)
        with quiet():
            res = convolve_model_dir_monochromatic(root, **kw)
        emin = to_val(kw['wav_min'], None) if isinstance(kw.get('wav_min'), u.Quantity) else -np.inf
        emax = to_val(kw['wav_max'], None) if isinstance(kw.get('wav_max'), u.Quantity) else np.inf
        check_run(pkg, res, emin, emax, 'always: ' + label)
    # NaN end: nothing is inside the window
    clean_convolved(root)
    res = run(pkg, 8, np.nan * u.micron, None)
    ok(read_outputs(root) == {} and all(x in (b'', '') for x in res['filter']), 'NaN window end')
    print('forms that always worked: ok')

    # refused inputs stay refused, with an exception that old handlers catch
    refused = [
        (dict(wav_min=1.0), u.UnitConversionError),
        (dict(wav_max=3.0), u.UnitConversionError),
        (dict(wav_min=1.0 * u.Hz), u.UnitConversionError),
        (dict(wav_max=1.0 * u.Jy), u.UnitsError),
        (dict(wav_min=[1.] * u.micron), TypeError),
        (dict(max_ram=np.inf), OverflowError),
        (dict(max_ram=np.nan), ValueError),
        (dict(max_ram='8'), TypeError),
    ]
    for kw, exc_type in refused:
        clean_convolved(root)
        try:
            with quiet():
                convolve_model_dir_monochromatic(root, **kw)
        except exc_type as exc:
            ok(isinstance(exc, Exception), 'refused')
        else:
            raise AssertionError('input {0} should be refused'.format(kw))
        ok(not os.path.exists(os.path.join(root, 'convolved')) or os.listdir(os.path.join(root, 'convolved')) == [], 'refused input wrote files')
    empty = os.path.join(tmp, 'iface_empty')
    os.makedirs(os.path.join(empty, 'seds'))
    shutil.copy(os.path.join(root, 'models.conf'), empty)
    shutil.copy(os.path.join(root, 'parameters.fits'), empty)
    try:
        with quiet():
            convolve_model_dir_monochromatic(empty)
    except Exception as exc:
        ok(exc.args == ("No SEDs found in %s" % empty,), 'empty directory message')
    else:
        raise AssertionError('empty directory accepted')
    v2 = os.path.join(tmp, 'iface_v2')
    build_cube(v2, rng, 3, 1, 2)
    try:
        with quiet():
            convolve_model_dir_monochromatic(v2)
    except ValueError as exc:
        ok(exc.args[0] == "monochromatic filters are no longer used for new-style model directories", 'v2 message')
    else:
        raise AssertionError('version 2 directory accepted')
    print('refused inputs still refused: ok')

    if hardened:
        new_forms = {
            'Path directory': dict(model_dir=Path(root), max_ram=ram2, wav_min=lo * u.micron, wav_max=hi * u.micron),
            'None = no limit, other end given': None,
            'memory as a Quantity': dict(model_dir=root, max_ram=(ram2 * 1024. ** 3) * u.byte, wav_min=lo * u.micron, wav_max=hi * u.micron),
            'memory in GiB': dict(model_dir=root, max_ram=ram2 * u.GiB, wav_min=lo * u.micron, wav_max=hi * u.micron),
            'no progress bar': dict(model_dir=Path(root), max_ram=ram2, wav_min=lo * u.micron, wav_max=hi * u.micron, progress=False),
        }
        for label, kw in new_forms.items():
            if kw is None:
                continue
            clean_convolved(root)
            buf = io.StringIO()
            with contextlib.redirect_stdout(buf):
                res = convolve_model_dir_monochromatic(**kw)
            out = check_run(pkg, res, lo, hi, 'new form: ' + label)
            ok(same_outputs(ref, out), 'new form {0}: files differ from the reference'.format(label))
        for c in (1, 4, 6):
            clean_convolved(root)
            with quiet():
                res = convolve_model_dir_monochromatic(Path(root), max_ram=max_ram_for_chunk(c, 3, 2), wav_min=None, wav_max=hi * u.micron)
            check_run(pkg, res, -np.inf, hi, 'wav_min=None')
            clean_convolved(root)
            with quiet():
                res = convolve_model_dir_monochromatic(root, max_ram=max_ram_for_chunk(c, 3, 2), wav_min=w[2] * u.micron, wav_max=None)
            check_run(pkg, res, w[2], np.inf, 'wav_max=None')
        try:
            with quiet():
                convolve_model_dir_monochromatic(root, wav_min=2.0)
        except mono.WavelengthWindowError as exc:
            ok('wav_min' in str(exc), 'clearer message names the argument')
        ok(issubclass(mono.NoSEDsFoundError, Exception), 'exception class')
        print('new input forms: ok')
    else:
        print('new input forms not available (clean tree): skipped')

    # cube: selecting by wavelength gives the same object as selecting the
    # nearest index by hand
    ck = build_cube(os.path.join(tmp, 'iface_cube'), rng, 7, 1, 3)
    with quiet():
        cube = SEDCube.read(os.path.join(ck['root'], 'flux.fits'))
    cw = cube.wav.to(u.micron).value
    by_wavelength = 'wavelength' in inspect.signature(MonochromaticFluxes.from_sed_cube).parameters
    for r in list(ck['wav'] * 1.02) + list(ck['wav'] * 0.97) + [ck['wav'][0] / 50., ck['wav'][-1] * 50.]:
        idx = int(np.argmin(np.abs(cw - r)))
        for form in (idx, np.int32(idx), np.array(idx), idx - len(cw)):
            a = MonochromaticFluxes.from_sed_cube(cube, form)
            ok(np.isclose(a.central_wavelength.to(u.micron).value, cw[idx], rtol=1e-14), 'cube index form')
            iw = int(np.argmin(np.abs(ck['wav'] - cw[idx])))
            ok(np.allclose(a.flux.to(u.mJy).value, ck['val'][:, :, iw], rtol=1e-6), 'cube index form flux')
        if by_wavelength:
            for q in (r * u.micron, (r * 1e-3) * u.mm, u.Quantity(np.float64(r), u.micron)):
                b = MonochromaticFluxes.from_sed_cube(cube, wavelength=q)
                ok(b == a and np.array_equal(b.flux.value, a.flux.value), 'cube by wavelength')
            k = MonochromaticFluxes.from_sed_cube(cube, wavelength_index=idx)
            ok(k == a, 'cube by keyword index')
    if by_wavelength:
        for bad in (dict(), dict(wavelength_index=1, wavelength=3 * u.micron)):
            try:
                MonochromaticFluxes.from_sed_cube(cube, **bad)
            except TypeError:
                pass
            else:
                raise AssertionError('from_sed_cube accepted ' + repr(bad))
    else:
        try:
            MonochromaticFluxes.from_sed_cube(cube)
        except TypeError:
            pass
        else:
            raise AssertionError('from_sed_cube accepted no index')
    ok(isinstance(repr(a), str) and len(repr(a)) > 0, 'repr')
    print('cube selection forms: ok')


if __name__ == '__main__':
    main(extra_global=extra_interface)
