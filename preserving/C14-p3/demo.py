import sys, os; sys.path.insert(0, os.getcwd())
# Demonstration for change p3 (file reader with optional arguments, units by name,
# table built in one call).  Checks property C14 against a pure-Python
# reference that never touches numpy.interp or astropy unit conversion.
import pickle
import warnings

warnings.simplefilter('ignore')

import numpy as np
from astropy import units as u

import sedfitter
from sedfitter.extinction import Extinction

assert os.path.dirname(os.path.dirname(os.path.abspath(sedfitter.__file__))) == os.getcwd(), sedfitter.__file__

# conversion factors to micron / to cm^2/g, written down by hand
LEN = {'micron': 1.0, 'nm': 1e-3, 'Angstrom': 1e-4, 'mm': 1e3, 'cm': 1e4, 'm': 1e6}
OPA = {'cm2/g': 1.0, 'm2/kg': 10.0}
LEN_U = {'micron': u.micron, 'nm': u.nm, 'Angstrom': u.AA, 'mm': u.mm, 'cm': u.cm, 'm': u.m}
OPA_U = {'cm2/g': u.cm ** 2 / u.g, 'm2/kg': u.m ** 2 / u.kg}

RTOL = 1e-9
ATOL = 1e-12
failures = []


def check(cond, msg):
    if not cond:
        failures.append(msg)
        print('FAIL:', msg)


def lin(tw, tc, x):
    """Piecewise-linear interpolation, pure python; x must be inside."""
    n = len(tw)
    for j in range(n - 1):
        if tw[j] <= x <= tw[j + 1]:
            if x == tw[j]:
                return tc[j]
            if x == tw[j + 1]:
                return tc[j + 1]
            t = (x - tw[j]) / (tw[j + 1] - tw[j])
            return tc[j] + t * (tc[j + 1] - tc[j])
    raise ValueError(x)


def reference(tw_um, tc, q_um):
    """-0.4 chi(lambda)/chi(0.55) with zero outside, everything in micron."""
    tw_um = [float(v) for v in tw_um]
    tc = [float(v) for v in tc]
    cv = lin(tw_um, tc, 0.55)
    out = []
    for x in q_um:
        x = float(x)
        if x < tw_um[0] or x > tw_um[-1]:
            out.append(0.0)
        else:
            out.append(-0.4 * lin(tw_um, tc, x) / cv)
    return out


def close(a, b):
    a = np.asarray(a, float).ravel()
    b = np.asarray(b, float).ravel()
    return a.shape == b.shape and bool(np.all(np.abs(a - b) <= ATOL + RTOL * np.abs(b)))


def make_law(tw_um, tc_cgs, lu, ou):
    e = Extinction()
    e.wav = (np.asarray(tw_um, float) / LEN[lu]) * LEN_U[lu]
    e.chi = (np.asarray(tc_cgs, float) / OPA[ou]) * OPA_U[ou]
    return e


def random_table(rng, n):
    """Increasing wavelengths (micron) covering 0.55 with a margin."""
    lo = 10 ** rng.uniform(-2.5, -0.5)       # < 0.32
    hi = 10 ** rng.uniform(0.0, 3.0)         # > 1
    if n == 2:
        tw = np.array([lo, hi])
    else:
        inner = np.sort(10 ** rng.uniform(np.log10(lo), np.log10(hi), n - 2))
        tw = np.concatenate([[lo], inner, [hi]])
        # keep the nodes well separated so that unit round-off is not amplified
        keep = np.concatenate([[True], np.diff(tw) > 1e-4 * tw[1:]])
        tw = tw[keep]
        tw[-1] = hi
    tc = 10 ** rng.uniform(-2, 4, tw.size)
    return tw, tc


def queries(rng, tw, margin=1e-7):
    """Query wavelengths (micron): inside, outside, on nodes, near V."""
    lo, hi = tw[0], tw[-1]
    inside = 10 ** rng.uniform(np.log10(lo * (1 + margin)), np.log10(hi * (1 - margin)), 25)
    outside = np.array([lo * 0.5, lo * (1 - 1e-6), hi * (1 + 1e-6), hi * 7.0, 1e-4, 1e5])
    mid = 0.5 * (tw[:-1] + tw[1:])
    return np.concatenate([inside, outside, mid[:10], [0.55]])


rng = np.random.default_rng(20142)

import inspect
import pathlib
import shutil
import tempfile

from astropy.table import Table

tmp = tempfile.mkdtemp(prefix='c14_p3_')


def write_file(name, cols, header=None, fmt='%.17g', sep=' ', trailer=None):
    """Write columns of numbers as text, by hand (no numpy)."""
    path = os.path.join(tmp, name)
    with open(path, 'w') as fh:
        if header:
            fh.write(header)
        for row in zip(*cols):
            fh.write(sep.join(fmt % v for v in row) + '\n')
        if trailer:
            fh.write(trailer)
    return path


def parse_file(path, comment='#', sep=None, skip=0):
    """Independent reader: list of rows of floats."""
    rows = []
    with open(path) as fh:
        for i, line in enumerate(fh):
            if i < skip:
                continue
            line = line.split(comment)[0].strip()
            if line:
                rows.append([float(x) for x in line.split(sep)])
    return rows


def verify_law(e, tw_um, tc_cgs, q_um, label):
    ref = reference(tw_um, tc_cgs, q_um)
    for qu in ('micron', 'nm', 'cm'):
        q = (np.asarray(q_um, float) / LEN[qu]) * LEN_U[qu]
        g1 = e.get_av(q)
        g2 = e.get_av(q)
        check(g1.unit.is_equivalent(u.dimensionless_unscaled), label + ': unit-free')
        check(close(g1.to_value(u.dimensionless_unscaled), ref), label + ': values, query in ' + qu)
        check(np.array_equal(np.asarray(g1), np.asarray(g2)), label + ': second call')
    v = np.asarray(e.get_av([0.55] * u.micron), float)
    check(abs(v[0] + 0.4) <= 1e-12, label + ': V band')
    return ref


sig = inspect.signature(Extinction.from_file)
names = list(sig.parameters)
check(names[:4] == ['filename', 'columns', 'wav_unit', 'chi_unit'], 'documented argument order changed: %r' % names)
check(tuple(sig.parameters['columns'].default) == (0, 1), 'default columns')
check(sig.parameters['wav_unit'].default == u.micron, 'default wav_unit')
check(sig.parameters['chi_unit'].default == u.cm ** 2 / u.g, 'default chi_unit')
for extra in names[4:]:
    check(sig.parameters[extra].default is not inspect.Parameter.empty, 'new argument %s without default' % extra)

# ---------------------------------------------------------------------------
# 1. files with 2..200 rows, several columns, every column selection, every
#    unit, path given as str / Path / open file; each file is read twice
# ---------------------------------------------------------------------------
nread = 0
for n in (2, 3, 9, 50, 200):
    tw, tc = random_table(rng, n)
    n = tw.size
    tc_b = 10 ** rng.uniform(-2, 4, n)            # a second law in the same file
    idx = np.arange(n, dtype=float)
    q = queries(rng, tw)
    for lu in ('micron', 'nm', 'Angstrom', 'cm', 'm'):
        for ou in OPA:
            # layout: index, chi_a, wav, chi_b  (wavelength is NOT the first column)
            cols = [idx, tc / OPA[ou], tw / LEN[lu], tc_b / OPA[ou]]
            path = write_file('law_%d_%s_%s.txt' % (n, lu, ou.replace('/', '')), cols,
                              header='# index chi_a wav chi_b\n#\n')
            rows = parse_file(path)
            check(len(rows) == n, 'independent reader')
            for sel, wcol, ccol in (((2, 1), 2, 1), ([2, 3], 2, 3), (np.array([2, 1]), 2, 1),
                                    ((-2, -1), 2, 3), ((2, -3), 2, 1)):
                tw_um = [r[wcol] * LEN[lu] for r in rows]
                tc_cgs = [r[ccol] * OPA[ou] for r in rows]
                for form in (path, pathlib.Path(path)):
                    e = Extinction.from_file(form, columns=sel, wav_unit=LEN_U[lu], chi_unit=OPA_U[ou])
                    nread += 1
                    check(e.wav.unit == LEN_U[lu] and e.chi.unit == OPA_U[ou], 'units of the law read')
                    check(e.wav.dtype == np.float64 and e.chi.dtype == np.float64, 'precision of the law read')
                    check(e.wav.shape == (n,) and e.chi.shape == (n,), 'number of rows')
                    check(np.array_equal(e.wav.value, [r[wcol] for r in rows]), 'wavelengths as written')
                    check(np.array_equal(e.chi.value, [r[ccol] for r in rows]), 'opacities as written')
                    verify_law(e, tw_um, tc_cgs, q, 'file n=%d %s %s cols=%r' % (n, lu, ou, sel))
            # keyword and positional forms are the same thing
            e1 = Extinction.from_file(path, (2, 3), LEN_U[lu], OPA_U[ou])
            e2 = Extinction.from_file(filename=path, chi_unit=OPA_U[ou], wav_unit=LEN_U[lu], columns=(2, 3))
            check(np.array_equal(e1.wav.value, e2.wav.value) and np.array_equal(e1.chi.value, e2.chi.value), 'positional / keyword')
            check(e1.wav.unit == e2.wav.unit and e1.chi.unit == e2.chi.unit, 'positional / keyword units')
print('files read:', nread)

# default arguments: two columns, micron and cm^2/g; an open file works as well
tw, tc = random_table(rng, 25)
q = queries(rng, tw)
path = write_file('plain.txt', [tw, tc])
e = Extinction.from_file(path)
check(e.wav.unit == u.micron and e.chi.unit == u.cm ** 2 / u.g, 'default units')
rows = parse_file(path)
ref = verify_law(e, [r[0] for r in rows], [r[1] for r in rows], q, 'defaults')
with open(path) as fh:
    e = Extinction.from_file(fh)
verify_law(e, [r[0] for r in rows], [r[1] for r in rows], q, 'open file')
# swapped selection on a two-column file: the first selected column is the wavelength
path_s = write_file('swapped.txt', [tc, tw])
e = Extinction.from_file(path_s, columns=(1, 0))
check(close(e.get_av(q * u.micron), ref), 'columns=(1, 0)')

# the file is rewritten under the same name: the new content must be used
tw2, tc2 = random_table(rng, 25)
path = write_file('plain.txt', [tw2, tc2])
e = Extinction.from_file(path)
rows = parse_file(path)
q2 = queries(rng, tw2)
verify_law(e, [r[0] for r in rows], [r[1] for r in rows], q2, 'rewritten file')
check(np.array_equal(e.wav.value, [r[0] for r in rows]), 'rewritten file content')

# unusual text: wide columns, tabs, exponents, blank lines, comments after the data
path = write_file('wide.txt', [tw, tc], fmt='%25.16e', sep='\t   ',
                  header='# wav   chi\n\n', trailer='\n# end\n\n')
e = Extinction.from_file(path)
rows = parse_file(path)
check(len(rows) == tw.size, 'wide file rows')
check(close(verify_law(e, [r[0] for r in rows], [r[1] for r in rows], q, 'wide file'), ref), 'wide file pattern')
with open(path) as fh:
    lines = fh.read().replace('\t', ' ').splitlines()
data_lines = [l for l in lines if l.strip() and not l.startswith('#')]
data_lines[3] = data_lines[3] + '   # remark at the end of a line'
with open(os.path.join(tmp, 'remarks.txt'), 'w') as fh:
    fh.write('\n'.join(data_lines) + '\n')
e = Extinction.from_file(os.path.join(tmp, 'remarks.txt'))
check(close(e.get_av(q * u.micron), ref), 'remark at the end of a line')

# boundary: two rows; V exactly on the first node; a file with one row and a
# selection of three columns are refused
path = write_file('two.txt', [[0.55, 800.0], [3.0, 1.0]])
e = Extinction.from_file(path)
verify_law(e, [0.55, 800.0], [3.0, 1.0], [0.5, 0.55, 0.5500001, 1.0, 400.275, 800.0, 800.1], 'two rows')
path1 = write_file('one.txt', [[0.55], [3.0]])
for bad in (lambda: Extinction.from_file(path1),
            lambda: Extinction.from_file(path, columns=(0, 1, 1)),
            lambda: Extinction.from_file(path, columns=(0,)),
            lambda: Extinction.from_file(path, columns=(0, 2)),
            lambda: Extinction.from_file(os.path.join(tmp, 'does_not_exist.txt')),
            lambda: Extinction.from_file(path, wav_unit=u.s),
            lambda: Extinction.from_file(path, chi_unit=u.cm)):
    try:
        bad()
    except Exception:
        pass
    else:
        check(False, 'an invalid request was accepted')

# ---------------------------------------------------------------------------
# 2. the new optional arguments (only where they exist)
# ---------------------------------------------------------------------------
if 'comments' in names and 'delimiter' in names and 'skiprows' in names:
    tw, tc = random_table(rng, 40)
    q = queries(rng, tw)
    path = write_file('csv.txt', [tc / 10., tw * 1e3], sep=' , ',
                      header='title line\nchi , wav\n% a comment\n', trailer='% done\n')
    rows = parse_file(path, comment='%', sep=',', skip=2)
    e = Extinction.from_file(path, columns=(1, 0), wav_unit='nm', chi_unit='m2 / kg',
                             comments='%', delimiter=',', skiprows=2)
    check(e.wav.unit == u.nm and e.chi.unit == u.m ** 2 / u.kg, 'units given by name')
    verify_law(e, [r[1] * 1e-3 for r in rows], [r[0] * 10. for r in rows], q, 'csv file')
    print('new optional arguments exercised')

# ---------------------------------------------------------------------------
# 3. tables and pickles of laws read from files
# ---------------------------------------------------------------------------
tw, tc = random_table(rng, 120)
q = queries(rng, tw)
path = write_file('tbl.txt', [tw * 1e4, tc / 10.])
e = Extinction.from_file(path, wav_unit=u.AA, chi_unit=u.m ** 2 / u.kg)
rows = parse_file(path)
tw_um = [r[0] * 1e-4 for r in rows]
tc_cgs = [r[1] * 10. for r in rows]
ref = verify_law(e, tw_um, tc_cgs, q, 'law for tables')
for rep in range(2):
    t = e.to_table()
    check(isinstance(t, Table) and t.colnames == ['wav', 'chi'], 'table columns %r' % (t.colnames,))
    check(t['wav'].unit == u.AA and t['chi'].unit == u.m ** 2 / u.kg, 'table units')
    check(t['wav'].dtype == np.float64 and t['chi'].dtype == np.float64 and len(t) == len(rows), 'table dtype / length')
    check(np.array_equal(np.asarray(t['wav']), e.wav.value) and np.array_equal(np.asarray(t['chi']), e.chi.value), 'table values')
    check(not np.shares_memory(np.asarray(t['wav']), e.wav.value) and not np.shares_memory(np.asarray(t['chi']), e.chi.value), 'table shares memory with the law')
    e2 = Extinction.from_table(t)
    check(close(verify_law(e2, tw_um, tc_cgs, q, 'from_table'), ref), 'from_table pattern')
    # modifying the table afterwards changes neither law
    t['chi'][:] = 1.0
    t['wav'][0] = 0.0
    check(close(e.get_av(q * u.micron), ref) and close(e2.get_av(q * u.micron), ref), 'law changed with its table')
    # table in other units, built by hand
    t2 = Table()
    t2['chi'] = (e.chi.to(u.cm ** 2 / u.g))
    t2['wav'] = e.wav.to(u.mm)
    t2['extra'] = np.arange(len(t2))
    check(close(Extinction.from_table(t2).get_av(q * u.micron), ref), 'hand-made table')
for proto in range(0, pickle.HIGHEST_PROTOCOL + 1):
    e3 = pickle.loads(pickle.dumps(e, protocol=proto))
    check(e3.wav.unit == e.wav.unit and np.array_equal(e3.wav.value, e.wav.value), 'pickle wav')
    check(close(verify_law(e3, tw_um, tc_cgs, q, 'pickle %d' % proto), ref), 'pickle pattern')
    check(close(Extinction.from_table(e3.to_table()).get_av((q * 1e-6) * u.m), ref), 'pickle then table')

shutil.rmtree(tmp, ignore_errors=True)

if failures:
    print('%d FAILURES' % len(failures))
    sys.exit(1)
print('demo p3: all checks passed')
