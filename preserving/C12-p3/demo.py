import sys, os
sys.path.insert(0, os.getcwd())

import itertools
import tempfile
import pathlib

import numpy as np
from astropy import units as u

import sedfitter
assert os.path.dirname(os.path.abspath(sedfitter.__file__)) == os.path.join(os.getcwd(), 'sedfitter'), sedfitter.__file__

from sedfitter.sed import SED, SEDCube
from sedfitter.convolved_fluxes import ConvolvedFluxes

C_MICRON_HZ = 2.99792458e14  # c in micron * Hz
KPC_CM = 3.0856775814913674e21
FLUX_UNITS = {'mJy': u.mJy, 'Jy': u.Jy, 'cgs': u.erg / u.cm ** 2 / u.s, 'lum': u.erg / u.s}
TMP = tempfile.mkdtemp(prefix='c12demo_')
N_CHECKS = [0]


def close(a, b, rtol=1e-12):
    a = np.asarray(a, dtype=float)
    b = np.asarray(b, dtype=float)
    assert a.shape == b.shape, (a.shape, b.shape)
    assert np.all(np.abs(a - b) <= rtol * np.abs(b)), (a, b)
    N_CHECKS[0] += 1


def exact(a, b):
    a = np.asarray(a)
    b = np.asarray(b)
    assert a.shape == b.shape, (a.shape, b.shape)
    assert np.array_equal(a, b), (a, b)
    N_CHECKS[0] += 1


def to_cgs(values, kind, nu_hz, d_cm):
    """independent conversion of plain arrays to erg/cm^2/s (nu F_nu)"""
    if kind == 'mJy':
        return values * 1e-26 * nu_hz
    if kind == 'Jy':
        return values * 1e-23 * nu_hz
    if kind == 'cgs':
        return values
    if kind == 'lum':
        return values / d_cm ** 2
    raise ValueError(kind)


def from_cgs(values, kind, nu_hz, d_cm):
    if kind == 'mJy':
        return values / nu_hz / 1e-26
    if kind == 'Jy':
        return values / nu_hz / 1e-23
    if kind == 'cgs':
        return values
    if kind == 'lum':
        return values * d_cm ** 2
    raise ValueError(kind)


def make_wav(rng, n_wav, descending):
    wav = np.sort(10. ** rng.uniform(-1., 3., n_wav))
    # make sure they are distinct
    wav = wav * (1. + 1e-3 * np.arange(n_wav))
    if descending:
        wav = wav[::-1].copy()
    return wav


def check_sed(rng, n_ap, n_wav, descending, kind, with_ap, as_path=False):
    wav = make_wav(rng, n_wav, descending)
    nu = C_MICRON_HZ / wav
    if not with_ap:
        n_ap = 1
    flux = 10. ** rng.uniform(-3, 3, (n_ap, n_wav))
    err = flux * rng.uniform(0.01, 0.2, (n_ap, n_wav))
    d_cm = 1.7 * KPC_CM

    s = SED()
    s.name = 'model_%d_%d' % (n_ap, n_wav)
    s.distance = 1.7 * u.kpc
    s.wav = wav * u.micron
    s.nu = nu * u.Hz
    if with_ap:
        s.apertures = np.sort(rng.uniform(10., 1e4, n_ap)) * u.au
        ap_au = s.apertures.value.copy()
    s.flux = flux * FLUX_UNITS[kind]
    s.error = err * FLUX_UNITS[kind]

    fn = os.path.join(TMP, 'sed_%d.fits' % N_CHECKS[0])
    fn_arg = pathlib.Path(fn) if as_path else fn
    try:
        s.write(fn_arg)
    except TypeError:
        # Path objects are not promised to be accepted
        assert as_path
        s.write(fn)

    # the object that was written is not modified by writing
    exact(s.wav.value, wav)
    exact(s.nu.value, nu)
    exact(s.flux.value, flux)
    exact(s.error.value, err)

    asc = np.argsort(wav, kind='stable')

    for rep in range(2):  # second call on the same file
        for order in ('nu', 'wav'):
            exp_idx = asc if order == 'wav' else asc[::-1]
            for kind_out in FLUX_UNITS:
                r = SED.read(fn, unit_flux=FLUX_UNITS[kind_out], order=order)
                assert r.name == s.name
                close(r.distance.to(u.cm).value, d_cm)
                assert r.wav.unit == u.micron and r.nu.unit == u.Hz
                close(r.wav.value, wav[exp_idx])
                close(r.nu.value, nu[exp_idx])
                if order == 'wav':
                    assert np.all(np.diff(r.wav.value) > 0)
                else:
                    assert np.all(np.diff(r.nu.value) > 0)
                assert r.flux.unit.is_equivalent(FLUX_UNITS[kind_out])
                exp_f = from_cgs(to_cgs(flux, kind, nu, d_cm), kind_out, nu, d_cm)[:, exp_idx]
                exp_e = from_cgs(to_cgs(err, kind, nu, d_cm), kind_out, nu, d_cm)[:, exp_idx]
                close(r.flux.to(FLUX_UNITS[kind_out]).value, exp_f)
                close(r.error.to(FLUX_UNITS[kind_out]).value, exp_e)
                assert r.flux.shape == (n_ap, n_wav)
                if with_ap:
                    close(r.apertures.to(u.au).value, ap_au)
                else:
                    assert r.n_ap == 1
            # default units, other wavelength / frequency units
            r = SED.read(fn, unit_wav=u.cm, unit_freq=u.GHz, order=order)
            close(r.wav.value, wav[exp_idx] * 1e-4)
            close(r.nu.value, nu[exp_idx] * 1e-9)
            close(r.flux.value, to_cgs(flux, kind, nu, d_cm)[:, exp_idx])
            close(r.error.value, to_cgs(err, kind, nu, d_cm)[:, exp_idx])
    try:
        SED.read(fn, order='lambda')
    except ValueError:
        pass
    else:
        raise AssertionError('bad order accepted')
    return s, fn


def check_cube(rng, n_models, n_ap, n_wav, descending, kind, with_ap, with_unc, use_nu=False, dtype=float):
    wav = make_wav(rng, n_wav, descending)
    nu = C_MICRON_HZ / wav
    if not with_ap:
        n_ap = 1
    val = (10. ** rng.uniform(-3, 3, (n_models, n_ap, n_wav))).astype(dtype)
    unc = (val * rng.uniform(0.01, 0.2, (n_models, n_ap, n_wav))).astype(dtype)
    names = np.array(['m%04d_x' % (7 * i + 3) for i in range(n_models)])
    valid = (rng.uniform(size=n_models) > 0.3).astype(int)

    c = SEDCube()
    c.names = names
    c.valid = valid
    c.distance = 2.5 * u.kpc
    if use_nu:
        c.nu = nu * u.Hz
    else:
        c.wav = wav * u.micron
    if with_ap:
        ap = np.sort(rng.uniform(10., 1e4, n_ap))
        c.apertures = ap * u.au
    c.val = val * FLUX_UNITS[kind]
    if with_unc:
        c.unc = unc * FLUX_UNITS[kind]

    # both spectral axes available whichever was set, repeatedly
    for rep in range(2):
        close(c.wav.to(u.micron).value, wav)
        close(c.nu.to(u.Hz).value, nu)

    fn = os.path.join(TMP, 'cube_%d.fits' % N_CHECKS[0])
    c.write(fn)
    exact(c.val.value, val)

    asc = np.argsort(wav, kind='stable')

    for rep in range(2):
        for order, memmap in itertools.product(('nu', 'wav'), (True, False)):
            exp_idx = asc if order == 'wav' else asc[::-1]
            r = SEDCube.read(fn, order=order, memmap=memmap)
            exact(r.names, names)
            exact(np.asarray(r.valid).astype(int), valid)
            close(r.distance.to(u.cm).value, 2.5 * KPC_CM)
            for rep2 in range(2):
                close(r.wav.to(u.micron).value, wav[exp_idx])
                close(r.nu.to(u.Hz).value, nu[exp_idx])
            assert r.val.unit == FLUX_UNITS[kind], (r.val.unit, kind)
            exact(r.val.value, val[:, :, exp_idx])
            assert r.val.shape == (n_models, n_ap, n_wav)
            if with_unc:
                assert r.unc.unit == FLUX_UNITS[kind]
                exact(r.unc.value, unc[:, :, exp_idx])
            else:
                assert r.unc is None
            if with_ap:
                close(r.apertures.to(u.au).value, ap)
            else:
                assert r.apertures is None
            # every cell individually (model, aperture, wavelength)
            for im in range(n_models):
                for iw in range(n_wav):
                    j = int(np.argmin(np.abs(r.wav.to(u.micron).value - wav[iw])))
                    assert abs(r.wav.to(u.micron).value[j] - wav[iw]) <= 1e-12 * wav[iw]
                    assert np.array_equal(r.val.value[im, :, j], val[im, :, iw])
            # extraction of single models, from the read cube and the original
            for im in list(range(n_models)) + [0]:
                for cube, idx in ((r, exp_idx), (c, np.arange(n_wav))):
                    sed = cube.get_sed(names[im])
                    assert sed.name == names[im]
                    close(sed.wav.to(u.micron).value, wav[idx])
                    close(sed.nu.to(u.Hz).value, nu[idx])
                    exact(sed.flux.value, val[im][:, idx])
                    assert sed.flux.unit == FLUX_UNITS[kind]
                    if with_unc:
                        exact(sed.error.value, unc[im][:, idx])
                    else:
                        assert sed.error is None
                    if with_ap:
                        close(sed.apertures.to(u.au).value, ap)
                    else:
                        assert sed.apertures is None
            try:
                r.get_sed('m0003')  # prefix of a name, not a name
            except ValueError:
                pass
            else:
                raise AssertionError('unknown model accepted')
    return c, fn


def check_conv(rng, n_models, n_ap, kind, with_ap):
    if not with_ap:
        n_ap = 1
    names = np.array(['conv_%05d' % (11 * i) for i in range(n_models)])
    flux = 10. ** rng.uniform(-3, 3, (n_models, n_ap))
    err = flux * rng.uniform(0.01, 0.2, (n_models, n_ap))
    c = ConvolvedFluxes()
    c.model_names = names
    c.central_wavelength = 3.6 * u.micron
    if with_ap:
        ap = np.sort(rng.uniform(10., 1e4, n_ap))
        c.apertures = ap * u.au
    c.flux = flux * FLUX_UNITS[kind]
    c.error = err * FLUX_UNITS[kind]
    fn = os.path.join(TMP, 'conv_%d.fits' % N_CHECKS[0])
    c.write(fn)
    for rep in range(2):
        r = ConvolvedFluxes.read(fn)
        exact(np.char.strip(np.asarray(r.model_names).astype(str)), names)
        close(r.central_wavelength.to(u.micron).value, 3.6)
        assert r.flux.unit == FLUX_UNITS[kind] and r.error.unit == FLUX_UNITS[kind]
        exact(r.flux.value, flux)
        exact(r.error.value, err)
        if with_ap:
            close(r.apertures.to(u.au).value, ap)
        else:
            assert r.apertures is None
    return c, fn


def common_checks(seed=12345):
    rng = np.random.default_rng(seed)
    kinds = list(FLUX_UNITS)
    k = 0
    # boundary sizes and some in between
    for n_wav in (2, 3, 17, 40):
        for n_ap in (1, 2, 5):
            for descending in (False, True):
                kind = kinds[k % 4]
                k += 1
                with_ap = (k % 3 != 0)
                check_sed(rng, n_ap, n_wav, descending, kind, with_ap, as_path=(k % 5 == 0))
    for n_models in (1, 3, 6):
        for n_wav in (2, 9, 40):
            for descending in (False, True):
                kind = kinds[k % 4]
                k += 1
                check_cube(rng, n_models, 1 + k % 5, n_wav, descending, kind,
                           with_ap=(k % 3 != 0), with_unc=(k % 2 == 0), use_nu=(k % 4 == 1))
    # single precision cube (legal, unusual)
    check_cube(rng, 4, 3, 11, True, 'mJy', True, True, dtype=np.float32)
    for n_models in (1, 6):
        for n_ap in (1, 5):
            for with_ap in (True, False):
                kind = kinds[k % 4]
                k += 1
                check_conv(rng, n_models, n_ap, kind, with_ap)


###########################################################################
# checks specific to this change: files are closed by the readers, path-like
# file names, completeness checks when writing
###########################################################################

def specific_checks():
    import gc
    import gzip
    import shutil
    import warnings
    rng = np.random.default_rng(99)

    # 1. what was read stays valid and correct after the file has been
    #    overwritten / removed (memmap on and off), and repeated reads of a
    #    re-written file give the new content
    for descending in (False, True):
        for memmap in (True, False):
            c, fn = check_cube(rng, 5, 3, 12, descending, 'cgs', True, True)
            val = c.val.value.copy()
            unc = c.unc.value.copy()
            wav = c.wav.value.copy()
            r_nu = SEDCube.read(fn, order='nu', memmap=memmap)
            r_wav = SEDCube.read(fn, order='wav', memmap=memmap)
            idx_wav = np.argsort(wav)
            idx_nu = idx_wav[::-1]
            # overwrite the file with another cube of the same shape
            c2 = SEDCube()
            c2.names = c.names
            c2.distance = c.distance
            c2.wav = c.wav
            c2.apertures = c.apertures
            c2.val = c.val * 2.
            c2.unc = c.unc * 3.
            c2.write(fn, overwrite=True)
            gc.collect()
            exact(r_nu.val.value, val[:, :, idx_nu])
            exact(r_wav.val.value, val[:, :, idx_wav])
            exact(r_nu.unc.value, unc[:, :, idx_nu])
            r2 = SEDCube.read(fn, order='wav', memmap=memmap)
            exact(r2.val.value, 2. * val[:, :, idx_wav])
            exact(r2.unc.value, 3. * unc[:, :, idx_wav])
            os.remove(fn)
            gc.collect()
            exact(r2.val.value, 2. * val[:, :, idx_wav])
            exact(r_wav.unc.value, unc[:, :, idx_wav])
            exact(r_nu.get_sed(c.names[-1]).flux.value, val[-1][:, idx_nu])
            exact(r2.get_sed(c.names[0]).error.value, 3. * unc[0][:, idx_wav])

    # 2. many reads in a row do not leave anything open that would make the
    #    reads fail, and no ResourceWarning is needed to clean up
    s, fn = check_sed(rng, 2, 5, True, 'Jy', True)
    cf, fnc = check_conv(rng, 4, 3, 'mJy', True)
    with warnings.catch_warnings():
        warnings.simplefilter('error', ResourceWarning)
        for i in range(50):
            r = SED.read(fn, unit_flux=u.Jy, order='wav')
            rc = ConvolvedFluxes.read(fnc)
        gc.collect()
    close(r.flux.value, s.flux.value[:, ::-1])
    exact(rc.flux.value, cf.flux.value)
    # SED and convolved fluxes survive removal of their file
    os.remove(fn)
    os.remove(fnc)
    gc.collect()
    close(r.flux.value, s.flux.value[:, ::-1])
    close(r.error.value, s.error.value[:, ::-1])
    exact(rc.flux.value, cf.flux.value)
    exact(rc.error.value, cf.error.value)
    exact(rc.apertures.value, cf.apertures.value)

    # 3. path-like file names for the readers that are passed straight to
    #    astropy, and for an SED file that exists
    s, fn = check_sed(rng, 3, 4, False, 'lum', True)
    r = SED.read(pathlib.Path(fn), unit_flux=u.erg / u.s, order='wav')
    close(r.flux.value, s.flux.value)
    r = SED.read(pathlib.Path(fn), unit_flux=u.erg / u.s, order='nu')
    close(r.flux.value, s.flux.value[:, ::-1])
    c, fn = check_cube(rng, 2, 2, 5, True, 'Jy', True, False)
    r = SEDCube.read(pathlib.Path(fn), order='wav')
    exact(r.val.value, c.val.value[:, :, ::-1])
    cf, fnc = check_conv(rng, 2, 2, 'Jy', False)
    rc = ConvolvedFluxes.read(pathlib.Path(fnc))
    exact(rc.flux.value, cf.flux.value)

    # 4. the missing .gz extension is still found (string file name)
    s, fn = check_sed(rng, 1, 6, True, 'mJy', False)
    with open(fn, 'rb') as f_in, gzip.open(os.path.join(TMP, 'zipped.fits.gz'), 'wb') as f_out:
        shutil.copyfileobj(f_in, f_out)
    r = SED.read(os.path.join(TMP, 'zipped.fits'), unit_flux=u.mJy, order='nu')
    close(r.flux.value, s.flux.value)
    close(r.wav.value, s.wav.value)

    # 5. incomplete SEDs are refused with the same errors as always, in the
    #    same precedence, and nothing is written
    def expect(sed, message):
        fn = os.path.join(TMP, 'incomplete.fits')
        try:
            sed.write(fn)
        except ValueError as exc:
            assert str(exc) == message, (str(exc), message)
        else:
            raise AssertionError('incomplete SED written')
        assert not os.path.exists(fn)

    s2 = SED()
    expect(s2, "Model name is not set")
    s2.name = 'incomplete'
    expect(s2, "Model distance is not set")
    s2.distance = 1. * u.kpc
    expect(s2, "Wavelengths are not set")
    s2.wav = [2., 1.] * u.micron
    # frequencies are derived from wavelengths if not given
    expect(s2, "Fluxes are not set")
    s2.flux = [[1., 2.]] * u.mJy
    expect(s2, "Errors are not set")
    s2.error = [[0.1, 0.3]] * u.mJy
    fn = os.path.join(TMP, 'complete.fits')
    s2.write(fn)
    r = SED.read(fn, unit_flux=u.mJy, order='wav')
    close(r.wav.value, [1., 2.])
    close(r.flux.value, [[2., 1.]])
    close(r.error.value, [[0.3, 0.1]])
    r = SED.read(fn, unit_flux=u.mJy, order='nu')
    close(r.wav.value, [2., 1.])
    close(r.flux.value, [[1., 2.]])

    # 6. incomplete cubes are refused as well
    c3 = SEDCube()
    try:
        c3.write(os.path.join(TMP, 'incomplete_cube.fits'))
    except ValueError:
        pass
    else:
        raise AssertionError('incomplete cube written')

    # 7. comparison of equal / different SEDs
    a = SED.read(fn, order='nu')
    b = SED.read(fn, order='nu')
    assert a == b
    b.flux = b.flux * 2.
    try:
        res = (a == b)
    except AssertionError:
        res = False
    assert not res

    # 8. sort_to_match on convolved fluxes that were read
    cf, fnc = check_conv(rng, 5, 3, 'mJy', True)
    rc = ConvolvedFluxes.read(fnc)
    perm = rng.permutation(5)
    wanted = np.char.strip(np.asarray(rc.model_names).astype(str))[perm]
    rc.sort_to_match(wanted)
    exact(rc.flux.value, cf.flux.value[perm])
    exact(rc.error.value, cf.error.value[perm])


if __name__ == '__main__':
    common_checks()
    specific_checks()
    import shutil
    shutil.rmtree(TMP, ignore_errors=True)
    print('demo OK (%d array comparisons)' % N_CHECKS[0])
