import sys, os; sys.path.insert(0, os.getcwd())

# ---------------------------------------------------------------------------
# Demonstration that property C10 holds (fit() writes one faithful record per
# eligible source, the file reads back unchanged, post-processing accepts a
# file / one result / a list of results interchangeably and leaves its inputs
# unchanged).  Self-contained; exits 0 when every check passes.
# ---------------------------------------------------------------------------

import io as _io
import copy
import glob
import pickle
import shutil
import tempfile
import contextlib
import warnings

import matplotlib
matplotlib.use('Agg')

import numpy as np
from astropy import units as u
from astropy.table import Table

warnings.simplefilter('ignore')
np.seterr(all='ignore')

import sedfitter
assert os.path.dirname(os.path.abspath(sedfitter.__file__)) == os.path.join(os.getcwd(), 'sedfitter'), sedfitter.__file__

from sedfitter import fit as fit_function
from sedfitter.fit import Fitter
from sedfitter.fit_info import FitInfo, FitInfoFile
from sedfitter.source import Source
from sedfitter.extinction import Extinction
from sedfitter.sed import SEDCube
from sedfitter.filter import Filter
from sedfitter.convolve import convolve_model_dir
from sedfitter import (write_parameters, write_parameter_ranges,
                       extract_parameters, plot, plot_params_1d, plot_params_2d)

N_CHECKS = [0]


def check(cond, msg):
    N_CHECKS[0] += 1
    if not cond:
        print("DEMO FAILURE: " + msg, file=sys.__stdout__)
        sys.exit(1)


@contextlib.contextmanager
def quiet():
    # the library prints a lot
    with contextlib.redirect_stdout(_io.StringIO()):
        yield


# ---------------------------------------------------------------------------
# Model packages
# ---------------------------------------------------------------------------

N_MODELS = 9


def make_model_dir(models_dir, aperture_dependent, seed):
    rng = np.random.RandomState(seed)
    cube = SEDCube()
    cube.names = np.array(['model_{0:04d}'.format(i) for i in range(N_MODELS)])
    cube.distance = 1 * u.kpc
    cube.wav = np.logspace(-2., 3., 100) * u.micron
    if aperture_dependent:
        cube.apertures = np.logspace(1., 6., 10) * u.au
        cube.val = np.cumsum(rng.random_sample((N_MODELS, 10, 100)), axis=1) * u.mJy
    else:
        cube.apertures = None
        cube.val = (1 + 3 * rng.random_sample((N_MODELS, 1, 100))) * u.mJy
    cube.unc = cube.val * 0.01 * rng.random_sample(cube.val.shape)
    cube.write(os.path.join(models_dir, 'flux.fits'))
    with open(os.path.join(models_dir, 'models.conf'), 'w') as f:
        f.write("name = test\n")
        f.write("length_subdir = 0\n")
        f.write("aperture_dependent = {0}\n".format('yes' if aperture_dependent else 'no'))
        f.write("logd_step = 0.02\n")
        f.write("version = 2\n")
    t = Table()
    t['MODEL_NAME'] = np.array(cube.names, dtype='S')
    t['par1'] = rng.random_sample(N_MODELS) + 0.1
    t['par2'] = rng.random_sample(N_MODELS) + 0.1
    t.write(os.path.join(models_dir, 'parameters.fits'))
    return dict((n.decode().strip() if isinstance(n, bytes) else str(n).strip(), (float(a), float(b)))
                for n, a, b in zip(t['MODEL_NAME'], t['par1'], t['par2']))


def make_filters(models_dir, seed):
    rng = np.random.RandomState(seed)
    filters = []
    for name, lo, hi, cen in [('alice', 1., 5., 3.), ('bob', 10., 15., 12.),
                              ('eve', 15., 25., 20.), ('zed', 60., 80., 70.)]:
        f = Filter()
        f.name = name
        f.central_wavelength = cen * u.micron
        f.nu = (np.linspace(hi, lo, 60) * u.micron).to(u.Hz, equivalencies=u.spectral())
        f.response = rng.random_sample(60) + 0.1
        f.normalize()
        filters.append(f)
    convolve_model_dir(models_dir, filters=filters)


def make_extinction():
    law = Extinction()
    law.wav = np.logspace(-2., 3., 40) * u.micron
    law.chi = law.wav.value ** -1.7 * u.cm ** 2 / u.g
    return law


# ---------------------------------------------------------------------------
# Data files: written and parsed here, independently of the library
# ---------------------------------------------------------------------------

def random_line(rng, name, n_filt, flag_pool):
    flags = [int(rng.choice(flag_pool)) for _ in range(n_filt)]
    cols = [name, '%.5f' % rng.uniform(0, 360), '%+.5f' % rng.uniform(-90, 90)]
    cols += ['%d' % fl for fl in flags]
    for fl in flags:
        if fl in (0, 9) and rng.random_sample() < 0.5:
            flux, err = -999., -999.
        elif fl == 4:
            flux, err = rng.uniform(-1, 1), rng.uniform(0.02, 0.2)
        elif fl in (2, 3):
            flux, err = 10 ** rng.uniform(-1, 1.5), rng.choice([0., 0.5, 1.])
        else:
            flux = 10 ** rng.uniform(-1, 1.5)
            err = flux * rng.uniform(0.03, 0.3)
        cols += ['%.6e' % flux, '%.6e' % err]
    sep = rng.choice([' ', '   ', '\t'])
    return sep.join(cols)


def parse_line(line):
    # independent parser of the documented data format
    c = line.split()
    n = (len(c) - 3) // 3
    assert len(c) == 3 * (n + 1)
    return {'name': c[0], 'x': float(c[1]), 'y': float(c[2]),
            'valid': [int(v) for v in c[3:3 + n]],
            'flux': [float(v) for v in c[3 + n::2]],
            'error': [float(v) for v in c[4 + n::2]]}


def n_data_of(parsed):
    return sum(1 for v in parsed['valid'] if v in (1, 4))


def n_selected(chi2, n_data, select_format):
    # independent implementation of the documented selection syntax, on a
    # chi^2 array that is sorted from best to worst
    form, number = select_format
    chi2 = np.asarray(chi2, dtype=float)
    if len(chi2) == 0:
        return 0
    if form == 'A':
        return len(chi2)
    if form == 'N':
        return min(int(number), len(chi2))
    count = 0
    for c in chi2:
        if form == 'C':
            ok = c <= number
        elif form == 'D':
            ok = c - chi2[0] <= number
        elif form == 'E':
            ok = c / np.float64(n_data) <= number
        elif form == 'F':
            ok = (c - chi2[0]) / np.float64(n_data) <= number
        else:
            raise ValueError(form)
        count += bool(ok)
    return count


# ---------------------------------------------------------------------------
# NaN-aware comparisons
# ---------------------------------------------------------------------------

def same_array(a, b, what):
    if a is None or b is None:
        check(a is None and b is None, what + ": None vs not None")
        return
    check(type(a) is type(b), what + ": type %s vs %s" % (type(a), type(b)))
    if isinstance(a, u.Quantity):
        check(a.unit == b.unit, what + ": unit")
    aa, bb = np.asarray(a), np.asarray(b)
    check(aa.shape == bb.shape, what + ": shape %s vs %s" % (aa.shape, bb.shape))
    check(aa.dtype == bb.dtype, what + ": dtype %s vs %s" % (aa.dtype, bb.dtype))
    if aa.dtype.kind in 'fc':
        check(np.array_equal(aa, bb, equal_nan=True), what + ": values")
    else:
        check(np.array_equal(aa, bb), what + ": values")


def same_source(a, b, what):
    check(a.name == b.name and type(a.name) is type(b.name), what + ": source name")
    check(a.x == b.x and a.y == b.y, what + ": source position")
    same_array(a.valid, b.valid, what + ": valid")
    same_array(a.flux, b.flux, what + ": flux")
    same_array(a.error, b.error, what + ": error")
    check(a.n_data == b.n_data and a.n_wav == b.n_wav, what + ": n_data / n_wav")


FIELDS = ('av', 'sc', 'chi2', 'model_id', 'model_name', 'model_fluxes')


def same_record(a, b, what):
    same_source(a.source, b.source, what)
    for field in FIELDS:
        same_array(getattr(a, field), getattr(b, field), what + ": " + field)
    check(a.n_fits == b.n_fits == len(a.chi2), what + ": n_fits")


def same_meta(meta, model_dir, filters, law, what):
    check(meta.model_dir == model_dir and type(meta.model_dir) is str, what + ": model_dir")
    check(len(meta.filters) == len(filters), what + ": number of filters")
    for f, g in zip(meta.filters, filters):
        check(sorted(f.keys()) == sorted(g.keys()), what + ": filter keys")
        check(f['aperture_arcsec'] == g['aperture_arcsec'], what + ": aperture")
        check(f.get('name') == g.get('name'), what + ": filter name")
        check(f['wav'].unit == g['wav'].unit and f['wav'].value == g['wav'].value, what + ": wavelength")
    same_array(meta.extinction_law.wav, law.wav, what + ": extinction wav")
    same_array(meta.extinction_law.chi, law.chi, what + ": extinction chi")


def snapshot(info):
    # deep, library-independent copy of everything a record holds
    s = info.source
    d = {'name': s.name, 'x': s.x, 'y': s.y,
         'valid': np.array(s.valid, copy=True), 'flux': np.array(s.flux, copy=True),
         'error': np.array(s.error, copy=True), 'meta': info.meta, 'source_obj': s}
    for field in FIELDS:
        v = getattr(info, field)
        d[field] = None if v is None else (np.array(v, copy=True), type(v), id(v))
    return d


def unchanged(info, snap, what):
    s = info.source
    check(s is snap['source_obj'] and info.meta is snap['meta'], what + ": source / meta object replaced")
    check(s.name == snap['name'] and s.x == snap['x'] and s.y == snap['y'], what + ": source scalars changed")
    for key in ('valid', 'flux', 'error'):
        check(np.array_equal(getattr(s, key), snap[key], equal_nan=True), what + ": source." + key + " changed")
    for field in FIELDS:
        v = getattr(info, field)
        if snap[field] is None:
            check(v is None, what + ": " + field + " appeared")
        else:
            ref, typ, ident = snap[field]
            check(v is not None and id(v) == ident and type(v) is typ, what + ": " + field + " replaced")
            va = np.asarray(v)
            check(va.shape == ref.shape and np.array_equal(va, ref, equal_nan=va.dtype.kind == 'f'),
                  what + ": " + field + " changed")


# ---------------------------------------------------------------------------
# The property, part 1: fit() -> file -> read
# ---------------------------------------------------------------------------

def expected_records(fitter, lines, n_data_min, output_format, output_convolved):
    out = []
    for line in lines:
        p = parse_line(line)
        if n_data_of(p) < n_data_min:
            continue
        src = Source.from_dict({'name': p['name'], 'x': np.float64(p['x']), 'y': np.float64(p['y']),
                                'valid': np.array(p['valid'], dtype=int),
                                'flux': np.array(p['flux'], dtype=float),
                                'error': np.array(p['error'], dtype=float)})
        with quiet():
            full = fitter.fit(src)
        n = n_selected(full.chi2, n_data_of(p), output_format)
        exp = FitInfo(source=src)
        exp.meta = full.meta
        exp.av = full.av[:n]
        exp.sc = full.sc[:n]
        exp.chi2 = full.chi2[:n]
        exp.model_id = full.model_id[:n]
        exp.model_name = full.model_name[:n]
        exp.model_fluxes = full.model_fluxes[:n] if output_convolved else None
        check(full.model_fluxes is not None and full.model_fluxes.shape == (N_MODELS, len(p['valid'])),
              "object interface returns predicted fluxes")
        # sanity of the object interface itself: sorted, permutation ids
        c = np.asarray(full.chi2, float)
        check(np.all(c[:-1][~np.isnan(c[:-1])] <= c[1:][~np.isnan(c[:-1])]) or np.any(np.isnan(c)), "chi2 sorted")
        check(sorted(np.asarray(full.model_id).tolist()) == list(range(N_MODELS)), "model_id is a permutation")
        out.append(exp)
    return out


def read_all(path):
    fin = FitInfoFile(path, 'r')
    recs = list(fin)
    meta = fin.meta
    fin.close()
    return recs, meta


def check_fit_run(setup, lines, n_data_min, output_format, output_convolved, workdir, tag,
                  data_as='path', trailing_newline=True):
    data_path = os.path.join(workdir, 'data_' + tag)
    with open(data_path, 'w') as f:
        f.write('\n'.join(lines) + ('\n' if trailing_newline else ''))
    out_path = os.path.join(workdir, 'out_' + tag)
    if data_as == 'path':
        data_arg = data_path
    elif data_as == 'handle':
        data_arg = open(data_path, 'r')
    else:
        data_arg = _io.StringIO('\n'.join(lines) + ('\n' if trailing_newline else ''))
    with quiet():
        fit_function(data_arg, setup['filter_names'], setup['apertures'], setup['model_dir'], out_path,
                     n_data_min=n_data_min, extinction_law=setup['law'],
                     av_range=setup['av_range'], distance_range=setup['distance_range'],
                     output_format=output_format, output_convolved=output_convolved)
    if data_as == 'handle':
        data_arg.close()

    expected = expected_records(setup['fitter'], lines, n_data_min, output_format, output_convolved)
    if len(expected) == 0:
        # nothing is claimed about a run without any record
        return out_path, [], expected

    recs, meta = read_all(out_path)
    what = tag
    check(len(recs) == len(expected), what + ": %i records for %i eligible sources" % (len(recs), len(expected)))
    check([r.source.name for r in recs] == [e.source.name for e in expected], what + ": order of records")
    for r, e in zip(recs, expected):
        same_record(r, e, what + " / " + e.source.name)
        check(r.meta is meta, what + ": shared meta re-attached")
        check((r.model_fluxes is not None) == bool(output_convolved), what + ": predicted fluxes only on request")
    same_meta(meta, setup['model_dir'], setup['fitter'].filters, setup['law'], what)

    # Reading a second time gives the same thing
    recs2, meta2 = read_all(out_path)
    check(len(recs2) == len(recs), what + ": second read, number of records")
    for r, r2 in zip(recs, recs2):
        same_record(r, r2, what + ": second read")
    same_meta(meta2, setup['model_dir'], setup['fitter'].filters, setup['law'], what + ": second read")

    return out_path, recs, expected


def check_write_read(records, workdir, tag, setup):
    # any sequence of >= 1 records written then read
    path = os.path.join(workdir, 'copy_' + tag)
    snaps = [snapshot(r) for r in records]
    fout = FitInfoFile(path, 'w')
    for r in records:
        fout.write(r)
    fout.close()
    for r, s in zip(records, snaps):
        unchanged(r, s, tag + ": writing modified a record")
    back, meta = read_all(path)
    check(len(back) == len(records), tag + ": write/read number of records")
    for r, b in zip(records, back):
        same_record(r, b, tag + ": write/read")
    same_meta(meta, setup['model_dir'], setup['fitter'].filters, setup['law'], tag + ": write/read meta")
    return path


# ---------------------------------------------------------------------------
# The property, part 2: post-processing
# ---------------------------------------------------------------------------

def read_text(path):
    with open(path) as f:
        return f.read()


def run_post(kind, results, select_format, workdir, tag):
    # returns a comparable description of everything the call produced
    base = os.path.join(workdir, 'post_%s_%s' % (kind, tag))
    with quiet():
        if kind == 'write_parameters':
            write_parameters(results, base, select_format=select_format)
            return read_text(base)
        elif kind == 'write_parameter_ranges':
            write_parameter_ranges(results, base, select_format=select_format)
            return read_text(base)
        elif kind == 'write_parameters_additional':
            additional = {'extra': dict(('model_{0:04d}'.format(i), 0.5 + i) for i in range(N_MODELS))}
            write_parameters(results, base, select_format=select_format, additional=additional)
            return read_text(base)
        elif kind == 'extract_parameters':
            os.mkdir(base)
            extract_parameters(input=results, output_prefix=base + os.sep, output_suffix='.txt',
                               select_format=select_format)
            return dict((os.path.basename(p), read_text(p)) for p in sorted(glob.glob(os.path.join(base, '*'))))
        elif kind == 'plot_params_1d':
            plot_params_1d(results, 'par1', output_dir=base, select_format=select_format, log_x=True, format='png')
            return read_dir(base)
        elif kind == 'plot_params_2d':
            plot_params_2d(results, 'par1', 'par2', output_dir=base, select_format=select_format,
                           log_x=True, log_y=True, format='png')
            return read_dir(base)
        elif kind == 'plot':
            figs = plot(results, select_format=select_format, show_convolved=False, show_sed=True,
                        plot_mode='A')
            out = {}
            for name in sorted(figs):
                entry = figs[name]
                segs = None
                if 'lines' in entry:
                    segs = [np.round(np.nan_to_num(np.asarray(sg, float)), 12).tolist()
                            for sg in entry['lines'].get_segments()]
                out[name] = (entry['source'].name, len(entry['filters']), segs)
            return out
    raise ValueError(kind)


def read_dir(base):
    out = {}
    for p in sorted(glob.glob(os.path.join(base, '*'))):
        with open(p, 'rb') as f:
            out[os.path.basename(p)] = f.read()
    return out


def check_write_parameters_content(text, records, select_format, par_table, what):
    # independent check of the ASCII output against the records
    lines = text.split('\n')
    body = lines[3:]
    k = 0
    for r in records:
        n = n_selected(r.chi2, r.source.n_data, select_format)
        head = body[k].split()
        check(head[0] == r.source.name and int(head[1]) == r.source.n_data and int(head[2]) == n,
              what + ": header line of " + r.source.name + " -> " + body[k])
        k += 1
        for j in range(n):
            cols = body[k].split()
            check(int(cols[0]) == j + 1, what + ": fit_id")
            name = str(np.asarray(r.model_name)[j]).strip()
            check(cols[1] == name, what + ": model name %s vs %s" % (cols[1], name))
            check(cols[2] == ('%10.3f' % np.asarray(r.chi2, float)[j]).strip(), what + ": chi2")
            check(cols[3] == ('%10.3f' % np.asarray(r.av, float)[j]).strip(), what + ": av")
            check(cols[4] == ('%10.3f' % np.asarray(r.sc, float)[j]).strip(), what + ": sc")
            check(cols[5] == ('%10.3e' % par_table[name][0]).strip(), what + ": par1")
            check(cols[6] == ('%10.3e' % par_table[name][1]).strip(), what + ": par2")
            k += 1
    check(all(l.strip() == '' for l in body[k:]), what + ": trailing content")


def check_postprocessing(path, file_records, object_records, setup, workdir, tag, rng, with_plots=False):
    kinds = ['write_parameters', 'write_parameter_ranges', 'extract_parameters', 'write_parameters_additional']
    if with_plots:
        kinds += ['plot_params_1d', 'plot_params_2d', 'plot']
    selectors = [('N', 1), ('N', 3), ('A', None), ('C', 40.), ('D', 5.), ('E', 8.), ('F', 1.5), ('F', 0.), ('N', 0),
                 ('N', 100)]

    forms = {
        'file': lambda: path,
        'list': lambda: file_records,
        'tuple': lambda: tuple(file_records),
        'objects': lambda: object_records,
    }

    # 1. every function, one call: the three ways of passing results on agree
    counter = [0]

    def call(kind, form, sel):
        counter[0] += 1
        return run_post(kind, forms[form](), sel, workdir, '%s_%i' % (tag, counter[0]))

    snaps_f = [snapshot(r) for r in file_records]
    snaps_o = [snapshot(r) for r in object_records]

    def all_unchanged(what):
        for r, s in zip(file_records, snaps_f):
            unchanged(r, s, what + " (records read from file)")
        for r, s in zip(object_records, snaps_o):
            unchanged(r, s, what + " (objects)")

    for kind in kinds:
        sel = selectors[rng.randint(len(selectors))]
        ref = call(kind, 'file', sel)
        for form in ('list', 'tuple', 'objects'):
            got = call(kind, form, sel)
            check(got == ref, "%s: %s with %s differs between file and %s" % (tag, kind, sel, form))
            all_unchanged("%s: %s with %s on %s" % (tag, kind, sel, form))
        # one result object == list with that object
        i = rng.randint(len(file_records))
        counter[0] += 1
        single = run_post(kind, file_records[i], sel, workdir, '%s_%i' % (tag, counter[0]))
        counter[0] += 1
        single_list = run_post(kind, [object_records[i]], sel, workdir, '%s_%i' % (tag, counter[0]))
        check(single == single_list, "%s: %s single object vs one-element list" % (tag, kind))
        all_unchanged("%s: %s single" % (tag, kind))
        if kind == 'write_parameters':
            check_write_parameters_content(ref, file_records, sel, setup['par_table'], tag + ": write_parameters " + str(sel))

    # 2. sequences of up to three calls with different selectors on the same results
    for trial in range(3):
        length = 1 + rng.randint(3)
        seq = [(kinds[rng.randint(len(kinds))], selectors[rng.randint(len(selectors))]) for _ in range(length)]
        outputs = {}
        for form in ('file', 'list', 'objects'):
            outputs[form] = [call(kind, form, sel) for kind, sel in seq]
        # fresh copies never used before, each call on its own copy (the reference)
        fresh = []
        for kind, sel in seq:
            counter[0] += 1
            recs, _ = read_all(path)
            fresh.append(run_post(kind, recs, sel, workdir, '%s_%i' % (tag, counter[0])))
        for form in outputs:
            check(outputs[form] == fresh, "%s: sequence %s differs for %s" % (tag, seq, form))
        all_unchanged("%s: sequence %s" % (tag, seq))
        for (kind, sel), out in zip(seq, fresh):
            if kind == 'write_parameters':
                check_write_parameters_content(out, file_records, sel, setup['par_table'], tag + ": sequence")


# ---------------------------------------------------------------------------
# Set-ups
# ---------------------------------------------------------------------------

def build_setups(root):
    law = make_extinction()
    setups = []

    d1 = os.path.join(root, 'models_indep')
    os.mkdir(d1)
    par1 = make_model_dir(d1, False, 101)
    with quiet():
        make_filters(d1, 7)
    s1 = {'model_dir': d1, 'law': law, 'par_table': par1,
          'filter_names': ['bob', 'alice', 'zed', 'eve'],
          'apertures': [1., 3., 3., 5.] * u.arcsec,
          'av_range': [0., 5.], 'distance_range': [1., 2.] * u.kpc}
    setups.append(s1)

    d2 = os.path.join(root, 'models_apdep')
    os.mkdir(d2)
    par2 = make_model_dir(d2, True, 202)
    s2 = {'model_dir': d2, 'law': law, 'par_table': par2,
          'filter_names': [3.4 * u.micron, 8.0 * u.micron, 15. * u.micron],
          'apertures': [2., 3., 6.] * u.arcsec,
          'av_range': [0., 2.], 'distance_range': [0.8, 2.5] * u.kpc}
    setups.append(s2)

    for s in setups:
        with quiet():
            s['fitter'] = Fitter(s['filter_names'], s['apertures'], s['model_dir'],
                                 extinction_law=s['law'], av_range=s['av_range'],
                                 distance_range=s['distance_range'])
    return setups


def main_property_checks(root, seed=2024, n_runs=7, extra=None):
    rng = np.random.RandomState(seed)
    setups = build_setups(root)
    workdir = os.path.join(root, 'work')
    os.mkdir(workdir)

    selectors = [('F', 6.), ('N', 2), ('A', 0), ('C', 25.), ('D', 3.), ('E', 4.), ('F', 0.), ('N', 0), ('N', 50),
                 ('C', -1.), ['D', 1.5], ('E', np.float64(2.)), ('N', 3.0)]

    done_post = 0
    for k, setup in enumerate(setups):
        n_filt = len(setup['filter_names'])
        for run in range(n_runs):
            n_sources = 1 + rng.randint(12)
            pool = [[0, 1, 1, 1, 2, 3, 4, 9], [1, 1, 1, 4], [0, 0, 1, 9, 3]][rng.randint(3)]
            lines = [random_line(rng, 'src_%i_%i_%02i' % (k, run, i), n_filt, pool) for i in range(n_sources)]
            counts = sorted(set(n_data_of(parse_line(l)) for l in lines))
            # n_data_min: below, exactly on and between the observed counts (boundary), never above the max
            n_data_min = int(rng.choice(counts + [0, 1, max(counts)]))
            sel = selectors[(run + 3 * k) % len(selectors)]
            conv = bool((run + k) % 2)
            data_as = ['path', 'handle', 'stringio'][run % 3]
            tag = 'k%i_r%i' % (k, run)
            path, recs, expected = check_fit_run(setup, lines, n_data_min, sel, conv, workdir, tag,
                                                 data_as=data_as, trailing_newline=bool(run % 2))
            if not recs:
                continue
            copy_path = check_write_read(recs, workdir, tag, setup)
            # a sub-sequence, and the objects of the object interface, too
            sub = [r for r in recs if rng.random_sample() < 0.6] or recs[:1]
            check_write_read(sub, workdir, tag + '_sub', setup)
            check_write_read(expected, workdir, tag + '_obj', setup)
            if done_post < 2 * (k + 1) and len(recs) >= 2:
                check_postprocessing(path, recs, expected, setup, workdir, tag, rng,
                                     with_plots=(done_post % 2 == 0))
                done_post += 1
            if extra is not None:
                extra(setup, path, recs, expected, workdir, tag, rng)
    check(done_post >= 2, "post-processing was exercised")
    return setups, workdir


# ---------------------------------------------------------------------------
# Specific to this change: more input forms are accepted (Path objects, any
# iterable of results, binary data handles, numpy scalars, ...), refusals are
# more explicit, FitInfoFile is a context manager.  Forms that the unpatched
# library refuses are tried and, when accepted, must give the same results
# as the classic forms.
# ---------------------------------------------------------------------------

from pathlib import Path
from sedfitter import filter_output

ACCEPTED = {}


def raises(exc, func, *args, **kwargs):
    try:
        func(*args, **kwargs)
    except exc:
        return True
    except BaseException as e:
        print("unexpected exception", type(e), e, file=sys.__stdout__)
        return False
    return False


def attempt(label, func, *args, **kwargs):
    # returns (accepted, result); an input form refused (cleanly) is not an error
    try:
        result = func(*args, **kwargs)
    except (TypeError, AttributeError) as e:
        ACCEPTED.setdefault(label, False)
        return False, None
    ACCEPTED[label] = True
    return True, result


def extra(setup, path, recs, expected, workdir, tag, rng):

    snaps = [snapshot(r) for r in expected]

    # Path in place of the file name
    ok, got = attempt('FitInfoFile(Path)', lambda: read_all(Path(path)))
    if ok:
        check(len(got[0]) == len(recs), tag + ": Path, number of records")
        for a, b in zip(got[0], recs):
            same_record(a, b, tag + ": Path vs str")
        same_meta(got[1], setup['model_dir'], setup['fitter'].filters, setup['law'], tag + ": Path meta")

    # context manager
    def with_block():
        with FitInfoFile(path, 'r') as f:
            out = list(f)
            meta = f.meta
        return f, out, meta
    ok, got = attempt('with FitInfoFile', with_block)
    if ok:
        f, out, meta = got
        check(f.closed and raises(ValueError, lambda: list(f)), tag + ": file closed after the with block")
        check(len(out) == len(recs), tag + ": with block, number of records")
        for a, b in zip(out, recs):
            same_record(a, b, tag + ": with block")
        f.close()   # closing again is harmless

    # any iterable of results, through every post-processing function
    sel = [('N', 2), ('F', 1.), ('A', 0), ('D', 4.)][rng.randint(4)]
    kind = ['write_parameters', 'write_parameter_ranges', 'extract_parameters'][rng.randint(3)]
    ref = run_post(kind, list(expected), sel, workdir, tag + '_it_ref')
    check(ref == run_post(kind, path, sel, workdir, tag + '_it_file'), tag + ": list vs file")
    arr = np.empty(len(expected), dtype=object)
    for i, e in enumerate(expected):
        arr[i] = e
    for label, make in [('generator', lambda: (e for e in expected)),
                        ('iterator', lambda: iter(expected)),
                        ('object array', lambda: arr),
                        ('dict values', lambda: dict(enumerate(expected)).values())]:
        ok, got = attempt('iterable: ' + label, run_post, kind, make(), sel, workdir, tag + '_it_' + label.replace(' ', '_'))
        if ok:
            check(got == ref, tag + ": %s of results gives other output than the list" % label)
        for r, s in zip(expected, snaps):
            unchanged(r, s, tag + ": %s passed to %s" % (label, kind))
    # what is not a collection of results stays refused
    for bad in (3, None, 2.5, b'name', {'a': expected[0]}):
        check(raises(TypeError, FitInfoFile, bad, 'r'), tag + ": %r refused" % (bad,))
    ok, _ = attempt('refuse iterable of non-results', FitInfoFile, (x for x in [1, 2]), 'r')
    check(not ok, tag + ": generator of integers refused")

    # modes
    fresh = os.path.join(workdir, 'fresh_' + tag)
    check(raises(TypeError, FitInfoFile, fresh), tag + ": mode missing")
    check(raises(TypeError, FitInfoFile, fresh, 3), tag + ": mode 3")
    for mode in ('x', '', 'wr', 'rw', 'a', 'rb', 'R'):
        check(raises(ValueError, FitInfoFile, fresh, mode), tag + ": mode %r" % mode)
    check(not os.path.exists(fresh), tag + ": refused modes do not create a file")

    # selectors in other legal forms
    r = expected[rng.randint(len(expected))]
    for a, b in [(('N', 2), ['N', np.int64(2)]), (('N', 2), (np.str_('N'), 2.0)),
                 (('C', 30.), ['C', np.float64(30.)]), (('F', 1.), ('F', np.float32(1.))),
                 (('D', 2.), np.array(['D', 2.], dtype=object)), (('E', 3.), ('E', 3))]:
        ca, cb = copy.copy(r), copy.copy(r)
        ca.keep(a)
        cb.keep(b)
        same_record(ca, cb, tag + ": selector %r vs %r" % (a, b))
        check(ca.n_fits == n_selected(r.chi2, r.source.n_data, a), tag + ": selector %r" % (a,))
    if r.n_fits > 0:
        try:
            copy.copy(r).keep(('Z', 1))
            check(False, tag + ": unknown selector accepted")
        except Exception as e:
            check(str(e).startswith("Unknown format: Z"), tag + ": message for unknown selector")
    # representations do not touch the objects
    for obj in (r, r.source, r.meta, FitInfoFile(expected), FitInfo()):
        check(isinstance(repr(obj), str) and isinstance(str(obj), str), tag + ": repr")
    for e, s in zip(expected, snaps):
        unchanged(e, s, tag + ": after repr / keep on copies")

    # filter_output with a Path (it needs at least one fit per record)
    if any(p.n_fits == 0 for p in recs):
        return
    good, bad = os.path.join(workdir, 'good_' + tag), os.path.join(workdir, 'bad_' + tag)
    filter_output(path, output_good=good + '_s', output_bad=bad + '_s', cpd=3.)
    ok, _ = attempt('filter_output(Path)', filter_output, Path(path), output_good=good + '_p', output_bad=bad + '_p', cpd=3.)
    if ok:
        for x in (good, bad):
            check(open(x + '_s', 'rb').read() == open(x + '_p', 'rb').read(), tag + ": filter_output Path vs str")
    names = []
    for x in (good + '_s', bad + '_s'):
        if os.path.getsize(x) > 0:
            sub, _ = read_all(x)
            names += [q.source.name for q in sub]
            for q in sub:
                same_record(q, [p for p in recs if p.source.name == q.source.name][0], tag + ": filter_output record")
    check(sorted(names) == sorted(p.source.name for p in recs), tag + ": filter_output splits the records")


def check_fit_forms(setups, workdir, rng):
    for k, setup in enumerate(setups):
        n_filt = len(setup['filter_names'])
        lines = [random_line(rng, 'g%i_%02i' % (k, i), n_filt, [0, 1, 1, 1, 4, 3, 9]) for i in range(8)]
        counts = sorted(n_data_of(parse_line(l)) for l in lines)
        n_min = counts[len(counts) // 2]     # on the boundary for at least one source
        text = '\n'.join(lines) + '\n'
        data_path = os.path.join(workdir, 'forms_data_%i' % k)
        with open(data_path, 'w') as f:
            f.write(text)
        fmt = ('F', 2.)
        expected = expected_records(setup['fitter'], lines, n_min, fmt, True)
        check(0 < len(expected) <= len(lines), "forms: eligible sources")

        def run(data, out, **kwargs):
            args = dict(n_data_min=n_min, extinction_law=setup['law'], av_range=setup['av_range'],
                        distance_range=setup['distance_range'], output_format=fmt, output_convolved=True)
            args.update(kwargs)
            with quiet():
                fit_function(data, setup['filter_names'], setup['apertures'], setup['model_dir'], out, **args)
            return read_all(out)

        def verify(got, label, expected=expected):
            recs, meta = got
            check([r.source.name for r in recs] == [e.source.name for e in expected], "forms: %s: records" % label)
            for r, e in zip(recs, expected):
                same_record(r, e, "forms: " + label)
            same_meta(meta, setup['model_dir'], setup['fitter'].filters, setup['law'], "forms: " + label)

        base = os.path.join(workdir, 'forms_out_%i_' % k)
        # forms that always worked
        verify(run(data_path, base + 'a'), 'str')
        verify(run(data_path, base + 'b', n_data_min=np.int64(n_min), output_format=['F', np.float64(2.)],
                   av_range=tuple(setup['av_range']), output_convolved=1), 'numpy scalars and lists')
        verify(run(data_path, base + 'c', n_data_min=n_min - 0.5), 'fractional n_data_min')
        # forms that are new
        for label, call in [
                ('fit(Path data)', lambda: run(Path(data_path), base + 'd')),
                ('fit(Path output)', lambda: run(data_path, Path(base + 'e'))),
                ('fit(binary handle)', lambda: run(open(data_path, 'rb'), base + 'f')),
                ('fit(BytesIO)', lambda: run(_io.BytesIO(text.encode()), base + 'g')),
                ('fit(use_memmap=True)', lambda: run(data_path, base + 'i', use_memmap=True))]:
            ok, got = attempt(label, call)
            if ok:
                verify(got, label)
        # the new trailing keyword is handed to Fitter: compare with the object interface built the same way
        ok, got = attempt('fit(use_memmap=False)', lambda: run(data_path, base + 'h', use_memmap=False))
        if ok:
            with quiet():
                fitter2 = Fitter(setup['filter_names'], setup['apertures'], setup['model_dir'],
                                 extinction_law=setup['law'], av_range=setup['av_range'],
                                 distance_range=setup['distance_range'], use_memmap=False)
            exp2 = expected_records(fitter2, lines, n_min, fmt, True)
            check(len(exp2) == len(expected), "forms: use_memmap=False eligible sources")
            recs, meta = got
            for r, e in zip(recs, exp2):
                same_record(r, e, "forms: use_memmap=False")
        # a second run with the same arguments gives the same file
        run(data_path, base + 'j')
        check(open(base + 'a', 'rb').read() == open(base + 'j', 'rb').read(), "forms: same file twice")


if __name__ == '__main__':
    root = tempfile.mkdtemp()
    try:
        setups, workdir = main_property_checks(root, seed=3003, extra=extra)
        check_fit_forms(setups, workdir, np.random.RandomState(8))
    finally:
        shutil.rmtree(root, ignore_errors=True)
    for label in sorted(ACCEPTED):
        print("  %-40s %s" % (label, 'accepted and verified' if ACCEPTED[label] else 'refused'))
    print("demo passed (%i checks)" % N_CHECKS[0])
