import sys, os; sys.path.insert(0, os.getcwd())

# Demonstration for property C04: "results are ranked by chi^2 and every row
# describes one model".  The checks below re-compute everything from the raw
# inputs with plain Python loops (math.fsum, np.linalg.lstsq) and compare with
# what the library reports.  Exit status 0 means that every check passed.

import io
import math
import pickle
import shutil
import tempfile
import contextlib

import numpy as np
from astropy import units as u

import sedfitter
assert os.path.dirname(os.path.abspath(sedfitter.__file__)) == os.path.join(os.getcwd(), 'sedfitter'), sedfitter.__file__

from sedfitter.models import Models
from sedfitter.source import Source
from sedfitter.fit_info import FitInfo, FitInfoFile
from sedfitter.extinction import Extinction
from sedfitter.convolved_fluxes import ConvolvedFluxes
from sedfitter.fit import Fitter, fit as fit_to_file

LN10 = math.log(10.)
N_CHECKS = [0]


def check(condition, message):
    N_CHECKS[0] += 1
    if not condition:
        print("FAILED: " + message)
        sys.exit(1)


def plain(x):
    """Plain float64 ndarray from ndarray or dimensionless Quantity"""
    if isinstance(x, u.Quantity):
        x = x.to_value(u.dimensionless_unscaled)
    return np.asarray(x, dtype=float)


def close(a, b, rtol=1e-9, atol=1e-9):
    a = plain(a)
    b = plain(b)
    if a.shape != b.shape:
        return False
    both_inf = np.isinf(a) & np.isinf(b) & (np.sign(a) == np.sign(b))
    with np.errstate(invalid='ignore'):
        ok = np.abs(a - b) <= atol + rtol * np.abs(b)
    return bool(np.all(ok | both_inf))


# ---------------------------------------------------------------------------
# Independent re-computation
# ---------------------------------------------------------------------------

def source_logs(valid, flux, error):
    """log10 flux, weight and 'error' (sigma or confidence) of each point"""
    lf, w, le = [], [], []
    for v, F, E in zip(valid, flux, error):
        F = float(F)
        E = float(E)
        if v == 1:
            sig = abs(E / F) / LN10
            lf.append(math.log10(F) - 0.5 * (E / F) ** 2 / LN10)
            w.append(1. / sig ** 2)
            le.append(sig)
        elif v in (2, 3):
            lf.append(math.log10(F))
            w.append(0.)
            le.append(E)
        elif v == 4:
            lf.append(F)
            w.append(1. / E ** 2)
            le.append(E)
        else:  # 0 and 9: not used
            lf.append(0.)
            w.append(0.)
            le.append(0.)
    return lf, w, le


def chi2_of(valid, lf, w, le, base, shift):
    """chi^2 of the prediction base + shift (all log10) for one model"""
    terms = []
    for j, v in enumerate(valid):
        if v in (1, 4):
            terms.append((lf[j] - base[j] - shift[j]) ** 2 * w[j])
        elif v == 2:
            if shift[j] < lf[j] - base[j]:
                terms.append(limit_penalty(le[j]))
        elif v == 3:
            if shift[j] > lf[j] - base[j]:
                terms.append(limit_penalty(le[j]))
    return math.fsum(terms)


def limit_penalty(confidence):
    # a violated limit with 100% confidence is infinitely bad, which the
    # fitter represents by 1e30
    if confidence >= 1.:
        return 1.e30
    return -2. * math.log(1. - confidence)


def best_2d(valid, lf, w, base, law, sclaw, av_min, av_max):
    """Weighted least squares for (av, sc) with clipping of av"""
    used = [j for j, v in enumerate(valid) if v in (1, 4)]
    A = np.array([[math.sqrt(w[j]) * law[j], math.sqrt(w[j]) * sclaw[j]] for j in used])
    b = np.array([math.sqrt(w[j]) * (lf[j] - base[j]) for j in used])
    (av, sc), _, _, _ = np.linalg.lstsq(A, b, rcond=None)
    if av < av_min or av > av_max:
        av = av_min if av < av_min else av_max
        num = math.fsum((lf[j] - base[j] - av * law[j]) * sclaw[j] * w[j] for j in used)
        den = math.fsum(sclaw[j] ** 2 * w[j] for j in used)
        sc = num / den
    return float(av), float(sc)


def best_av_only(valid, lf, w, base, law, av_min, av_max):
    used = [j for j, v in enumerate(valid) if v in (1, 4)]
    num = math.fsum((lf[j] - base[j]) * law[j] * w[j] for j in used)
    den = math.fsum(law[j] ** 2 * w[j] for j in used)
    return min(max(num / den, av_min), av_max)


def check_ranking(info, names, label, n_undefined=0):
    """Every model exactly once, non-decreasing chi^2, names follow indices"""
    n = len(names)
    chi2 = plain(info.chi2)
    ids = np.asarray(info.model_id)
    for attr in ('av', 'sc', 'chi2', 'model_id', 'model_name', 'model_fluxes'):
        check(len(getattr(info, attr)) == n, "%s: %s has %i rows, expected %i" % (label, attr, len(getattr(info, attr)), n))
    check(sorted(ids.tolist()) == list(range(n)), "%s: model_id is not a permutation" % label)
    check(sorted(str(x) for x in info.model_name) == sorted(str(x) for x in names), "%s: names not listed exactly once" % label)
    check(all(str(info.model_name[i]) == str(names[ids[i]]) for i in range(n)), "%s: model_name does not follow model_id" % label)
    n_nan = int(np.sum(np.isnan(chi2)))
    check(n_nan == n_undefined, "%s: %i undefined chi2, expected %i" % (label, n_nan, n_undefined))
    check(not np.any(np.isnan(chi2[:n - n_nan])), "%s: undefined chi2 must come last" % label)
    chi2 = chi2[:n - n_nan]
    check(bool(np.all(chi2[1:] >= chi2[:-1])), "%s: chi2 not in non-decreasing order" % label)


def check_fit_2d(info, names, flux_mjy, source, law, sclaw, av_min, av_max, label, n_undefined=0):
    """flux_mjy: (n_models, n_wav) float array of model fluxes in mJy"""
    check_ranking(info, names, label, n_undefined)
    valid = [int(v) for v in source.valid]
    lf, w, le = source_logs(valid, source.flux, source.error)
    av_r, sc_r, chi2_r, pred_r = plain(info.av), plain(info.sc), plain(info.chi2), plain(info.model_fluxes)
    check(pred_r.shape == flux_mjy.shape, "%s: model_fluxes has shape %s" % (label, pred_r.shape))
    for row, mid in enumerate(np.asarray(info.model_id)):
        if np.any(flux_mjy[mid] == 0):
            # a model without flux cannot be fitted: chi2 is undefined
            check(np.isnan(chi2_r[row]), "%s: row %i model %i has no flux but chi2=%r" % (label, row, mid, chi2_r[row]))
            continue
        base = [math.log10(x) for x in flux_mjy[mid]]
        # predicted fluxes = model + av * law + scale * (-2)
        shift = [av_r[row] * law[j] + sc_r[row] * sclaw[j] for j in range(len(law))]
        expected = [base[j] + shift[j] for j in range(len(law))]
        check(close(pred_r[row], expected), "%s: row %i predicted fluxes do not belong to model %i" % (label, row, mid))
        # chi2 belongs to the same (model, av, scale)
        check(close(chi2_r[row], chi2_of(valid, lf, w, le, base, shift), rtol=1e-7, atol=1e-7),
              "%s: row %i chi2 does not belong to model %i" % (label, row, mid))
        # av, scale are the best ones of this model
        av_e, sc_e = best_2d(valid, lf, w, base, law, sclaw, av_min, av_max)
        check(close(av_r[row], av_e, rtol=1e-6, atol=1e-7) and close(sc_r[row], sc_e, rtol=1e-6, atol=1e-7),
              "%s: row %i (av, sc)=(%r, %r) but model %i has (%r, %r)" % (label, row, av_r[row], sc_r[row], mid, av_e, sc_e))


def check_fit_3d(info, names, flux_mjy, logd, extended, source, law, av_min, av_max, label, expect_inf=None):
    """flux_mjy: (n_models, n_distances, n_wav) float array in mJy"""
    check_ranking(info, names, label)
    valid = [int(v) for v in source.valid]
    lf, w, le = source_logs(valid, source.flux, source.error)
    av_r, sc_r, chi2_r, pred_r = plain(info.av), plain(info.sc), plain(info.chi2), plain(info.model_fluxes)
    n_models, n_dist, n_wav = flux_mjy.shape
    check(pred_r.shape == (n_models, n_wav), "%s: model_fluxes has shape %s" % (label, pred_r.shape))
    n_inf = 0
    for row, mid in enumerate(np.asarray(info.model_id)):
        all_chi2 = []
        all_av = []
        for k in range(n_dist):
            base = [math.log10(x) for x in flux_mjy[mid, k]]
            av = best_av_only(valid, lf, w, base, law, av_min, av_max)
            c = chi2_of(valid, lf, w, le, base, [av * law[j] for j in range(n_wav)])
            if extended is not None and any(extended[mid, k, j] for j in range(n_wav) if valid[j] > 0):
                c = math.inf
            all_chi2.append(c)
            all_av.append(av)
        # the reported scale is one of the log10 distances of the grid
        ks = [k for k in range(n_dist) if sc_r[row] == logd[k]]
        check(len(ks) == 1, "%s: row %i scale %r is not a grid distance" % (label, row, sc_r[row]))
        k = ks[0]
        check(close(chi2_r[row], all_chi2[k], rtol=1e-7, atol=1e-7), "%s: row %i chi2 does not belong to model %i at the reported distance" % (label, row, mid))
        check(close(chi2_r[row], min(all_chi2), rtol=1e-7, atol=1e-7), "%s: row %i chi2 is not that of the best distance" % (label, row))
        check(close(av_r[row], all_av[k], rtol=1e-7, atol=1e-9), "%s: row %i av does not belong to model %i" % (label, row, mid))
        expected = [math.log10(flux_mjy[mid, k, j]) + av_r[row] * law[j] for j in range(n_wav)]
        check(close(pred_r[row], expected), "%s: row %i predicted fluxes do not belong to model %i at the reported distance" % (label, row, mid))
        n_inf += math.isinf(all_chi2[k])
    if expect_inf is not None:
        check(n_inf >= expect_inf, "%s: expected at least %i models with infinite chi2, got %i" % (label, expect_inf, n_inf))
        check(int(np.sum(np.isinf(chi2_r))) == n_inf, "%s: number of infinite chi2" % label)


def same_info(a, b):
    return all(np.array_equal(np.asarray(getattr(a, n)), np.asarray(getattr(b, n)))
               for n in ('av', 'sc', 'chi2', 'model_id', 'model_name', 'model_fluxes'))


def make_source(name, valid, flux, error, as_lists=False):
    s = Source()
    s.name = name
    s.x = 0.
    s.y = 0.
    if as_lists:  # unusual but legal: plain lists / tuples
        s.valid = list(valid)
        s.flux = tuple(float(x) for x in flux)
        s.error = list(float(x) for x in error)
    else:
        s.valid = np.array(valid, dtype=int)
        s.flux = np.array(flux, dtype=float)
        s.error = np.array(error, dtype=float)
    return s


quiet = contextlib.redirect_stdout(io.StringIO())

# ---------------------------------------------------------------------------
# 1. FitInfo driven directly: exact ties, infinite chi2, repeated sort
# ---------------------------------------------------------------------------

rng = np.random.RandomState(4)
n = 40
names = np.array(['m%03i' % i for i in range(n)])
chi2 = np.round(rng.uniform(0, 5, n), 0)          # many exact ties
chi2[[3, 17, 29]] = np.inf                         # and some infinite values
av = rng.uniform(0, 10, n)
sc = rng.uniform(-1, 1, n)
mf = rng.normal(size=(n, 6))
for use_fluxes in (True, False):
    info = FitInfo()
    info.av, info.sc, info.chi2, info.model_name = av, sc, chi2, names
    info.model_fluxes = mf if use_fluxes else None
    info.sort()
    ids = np.asarray(info.model_id)
    check(sorted(ids.tolist()) == list(range(n)), "direct: model_id not a permutation")
    check(bool(np.all(info.chi2[1:] >= info.chi2[:-1])), "direct: not sorted")
    check(np.array_equal(info.chi2, chi2[ids]) and np.array_equal(info.av, av[ids])
          and np.array_equal(info.sc, sc[ids]) and np.array_equal(info.model_name, names[ids]),
          "direct: rows mixed up")
    if use_fluxes:
        check(np.array_equal(info.model_fluxes, mf[ids]), "direct: fluxes mixed up")
    else:
        check(info.model_fluxes is None, "direct: model_fluxes should stay None")
    check(np.array_equal(np.isinf(info.chi2), np.arange(n) >= n - 3), "direct: infinite chi2 must be last")
    # the inputs must not have been re-ordered in place
    check(names[0] == 'm000' and names[-1] == 'm%03i' % (n - 1) and np.isinf(chi2[3]), "direct: inputs modified in place")
    check(info.n_fits == n, "direct: n_fits")
    # pickling round trip keeps the rows together
    back = pickle.loads(pickle.dumps(info, 2))
    check(np.array_equal(back.chi2, info.chi2) and np.array_equal(back.model_id, info.model_id)
          and np.array_equal(back.model_name, info.model_name) and np.array_equal(back.av, info.av)
          and np.array_equal(back.sc, info.sc), "direct: pickle round trip")

# boundary: a single model, and no model at all
for n_small in (1, 0):
    info = FitInfo()
    info.av = np.zeros(n_small)
    info.sc = np.zeros(n_small)
    info.chi2 = np.full(n_small, np.inf)
    info.model_name = np.array(['only'][:n_small], dtype='U4')
    info.model_fluxes = np.zeros((n_small, 3))
    info.sort()
    check(len(info.chi2) == n_small and info.model_fluxes.shape == (n_small, 3) and len(info.model_id) == n_small, "direct: small grids")

# ---------------------------------------------------------------------------
# 2. Models.fit, aperture-independent grids built in memory
# ---------------------------------------------------------------------------

n_models, n_wav = 60, 5
wav = np.array([1.2, 2.2, 4.5, 8.0, 24.]) * u.micron
law = -0.4 * np.array([0.28, 0.11, 0.05, 0.04, 0.02]) / 0.1      # plain float array
sclaw = -2. * np.ones(n_wav)
flux = 10. ** rng.uniform(-1, 2, (n_models, n_wav))
flux[[7, 21, 40]] = flux[5]                                       # exact chi2 ties
mnames = np.array(['model_%04i' % i for i in range(n_models)])

sources = [
    make_source('all_valid', [1, 1, 1, 1, 1], [12., 30., 41., 33., 80.], [1., 2., 3., 3., 9.]),
    make_source('limits', [1, 2, 3, 1, 1], [12., 3., 410., 33., 80.], [1., 0.9, 0.5, 3., 9.]),
    make_source('ignored', [1, 0, 9, 4, 1], [12., 0., -999., 1.3, 80.], [1., 0., -999., 0.05, 9.]),
    make_source('lists', [1, 1, 4, 3, 1], [1.2, 3.0, 0.8, 33., 8.], [.1, .2, 0.1, 0.3, .9], as_lists=True),
    # boundary: limits with 100% and 0% confidence
    make_source('hard_limits', [2, 3, 1, 1, 2], [20., 3., 41., 33., 8.], [1., 1., 3., 3., 0.]),
]


def build_models(fluxes_quantity, names):
    m = Models()
    m.names = names
    m.wavelengths = wav
    m.fluxes = fluxes_quantity
    return m


grids = [
    ('mJy/float64', flux * u.mJy, flux),
    ('Jy/float64', (flux / 1000.) * u.Jy, (flux / 1000.) * 1000.),
    ('mJy/float32', flux.astype(np.float32) * u.mJy, None),
    ('non-contiguous', np.asfortranarray(flux) * u.mJy, flux),
]

for glabel, fq, ref in grids:
    if ref is None:
        # log10 of single precision fluxes is evaluated in single precision
        ref = 10. ** np.log10(fq.value).astype(float)
    m = build_models(fq, mnames.copy())
    names_before = m.names.copy()
    flux_before = m.fluxes.value.copy()
    for s in sources:
        for av_min, av_max in ((0., 40.), (2., 3.), (5., 5.), (np.float64(-1.), 1)):
            label = "2d %s %s av=[%s,%s]" % (glabel, s.name, av_min, av_max)
            with np.errstate(all='ignore'):
                first = m.fit(s, law, sclaw, av_min, av_max)
                second = m.fit(s, law, sclaw, av_min, av_max)     # second call on the same objects
            check(same_info(first, second), label + ": second call differs")
            check(np.array_equal(m.names, names_before) and np.array_equal(m.fluxes.value, flux_before),
                  label + ": Models modified by fit")
            check_fit_2d(first, mnames, ref, s, law, sclaw, float(av_min), float(av_max), label)
            if (av_min, av_max) == (5., 5.):   # boundary: degenerate range
                check(bool(np.all(plain(first.av) == 5.)), label + ": av outside degenerate range")
            # exact ties: the four identical models must be adjacent rows with the same chi2
            rows = [int(np.where(np.asarray(first.model_id) == i)[0][0]) for i in (5, 7, 21, 40)]
            check(len(set(plain(first.chi2)[min(rows):max(rows) + 1].tolist())) == 1, label + ": tied models not together")

# dimensionless Quantity as extinction law, as passed by Fitter
m = build_models(flux * u.mJy, mnames.copy())
info = m.fit(sources[0], law * u.dimensionless_unscaled, sclaw, 0., 40.)
check_fit_2d(info, mnames, flux, sources[0], law, sclaw, 0., 40., "2d quantity law")

# models without flux at some wavelength: undefined (NaN) chi2, listed last,
# all the other rows still have to be right
for dtype in (np.float64, np.float32):
    flux_z = flux.astype(dtype)
    flux_z[[0, 13]] = 0.
    flux_z[33, 2] = 0.
    m = build_models(flux_z * u.mJy, mnames.copy())
    ref = 10. ** np.log10(np.where(flux_z == 0, 1, flux_z)).astype(float)
    ref[flux_z == 0] = 0.
    for s in sources:
        label = "2d zero-flux %s %s" % (np.dtype(dtype).name, s.name)
        with np.errstate(all='ignore'):
            first = m.fit(s, law, sclaw, 0., 40.)
            second = m.fit(s, law, sclaw, 0., 40.)
        check(np.array_equal(np.asarray(first.model_id), np.asarray(second.model_id))
              and np.array_equal(plain(first.chi2), plain(second.chi2), equal_nan=True), label + ": second call differs")
        check(sorted(np.asarray(first.model_id)[-3:].tolist()) == [0, 13, 33], label + ": models without flux must come last")
        check_fit_2d(first, mnames, ref, s, law, sclaw, 0., 40., label, n_undefined=3)

# ---------------------------------------------------------------------------
# 3. Models.fit, aperture-dependent grids built in memory
# ---------------------------------------------------------------------------

n_models3, n_dist = 25, 7
flux3 = 10. ** rng.uniform(-1, 2, (n_models3, n_dist, n_wav))
flux3[[2, 9]] = flux3[4]                                           # ties
names3 = np.array(['ap_%03i' % i for i in range(n_models3)])
dist = np.logspace(0., 0.5, n_dist) * u.kpc
ext = rng.uniform(size=flux3.shape) < 0.15
ext[3] = True                                                      # always resolved: infinite chi2
ext[11] = True
ext[[2, 9]] = ext[4]


def build_models_3d(extended):
    m = Models()
    m.names = names3.copy()
    m.wavelengths = wav
    m.distances = dist
    m.fluxes = flux3 * u.mJy
    m.logd = np.log10(dist.to(u.kpc).value)
    if extended is not None:
        m.extended = extended
    return m


for elabel, extended in (('no-extended', None), ('extended', ext)):
    m = build_models_3d(extended)
    for s in sources:
        for av_min, av_max in ((0., 40.), (5., 5.)):
            label = "3d %s %s av=[%s,%s]" % (elabel, s.name, av_min, av_max)
            with np.errstate(all='ignore'):
                first = m.fit(s, law, sclaw, av_min, av_max)
                second = m.fit(s, law, sclaw, av_min, av_max)
            check(same_info(first, second), label + ": second call differs")
            check(np.array_equal(m.names, names3), label + ": Models.names modified by fit")
            expect_inf = None
            if extended is not None and all(v > 0 for v in s.valid):
                expect_inf = 2
            check_fit_3d(first, names3, flux3, m.logd, extended, s, law, av_min, av_max, label, expect_inf=expect_inf)
            if extended is not None:
                check(bool(np.all(np.isinf(plain(first.chi2)[-2:]))), label + ": infinite chi2 must come last")

# ---------------------------------------------------------------------------
# 4. Model packages on disk, through Fitter / fit()
# ---------------------------------------------------------------------------

tmp = tempfile.mkdtemp()
try:
    filt_names = ['alice', 'bob', 'eve']
    filt_wav = [3.6, 8.0, 24.] * u.micron
    n_pack = 12
    pack_names = np.array(['pk_%02i' % i for i in range(n_pack)])
    extinction = Extinction()
    extinction.wav = np.logspace(-2., 3.) * u.micron
    extinction.chi = extinction.wav.value ** -2 * u.cm ** 2 / u.g

    def write_package(directory, aperture_dependent, version):
        os.makedirs(os.path.join(directory, 'convolved'))
        with open(os.path.join(directory, 'models.conf'), 'w') as fh:
            fh.write("name = demo\nlength_subdir = 0\n")
            fh.write("aperture_dependent = %s\nlogd_step = 0.05\n" % ('yes' if aperture_dependent else 'no'))
            if version == 2:
                fh.write("version = 2\n")
        written = []
        for iw, fname in enumerate(filt_names):
            c = ConvolvedFluxes()
            c.central_wavelength = filt_wav[iw]
            c.model_names = pack_names
            if aperture_dependent:
                c.apertures = np.logspace(2., 6., 6) * u.au
                values = np.cumsum(rng.uniform(0.5, 2., (n_pack, 6)), axis=1)
            else:
                values = rng.uniform(0.5, 20., (n_pack, 1))
            values[8] = values[2]                                   # ties
            c.flux = values * u.mJy
            c.error = 0.01 * values * u.mJy
            c.write(os.path.join(directory, 'convolved', fname + '.fits'))
            written.append(values)
        if version == 2:
            from sedfitter.sed import SEDCube
            cube = SEDCube()
            cube.names = pack_names
            cube.distance = 1 * u.kpc
            cube.wav = np.logspace(-2., 3., 20) * u.micron
            cube.apertures = np.logspace(2., 6., 6) * u.au if aperture_dependent else None
            cube.val = np.ones((n_pack, 6 if aperture_dependent else 1, 20)) * u.mJy
            cube.unc = cube.val * 0.01
            cube.write(os.path.join(directory, 'flux.fits'))
        return written

    disk_sources = [
        make_source('d1', [1, 1, 1], [2., 5., 9.], [.2, .4, 1.]),
        make_source('d2', [1, 3, 1], [2., 50., 9.], [.2, .8, 1.]),
        make_source('d3', [4, 1, 1], [0.4, 5., 3.], [.05, .4, 1.], as_lists=True),
    ]

    for version in (1, 2):
        for aperture_dependent in (False, True):
            directory = os.path.join(tmp, 'pack_v%i_%s' % (version, 'dep' if aperture_dependent else 'indep'))
            written = write_package(directory, aperture_dependent, version)
            for remove_resolved in ((False, True) if aperture_dependent else (False,)):
                with quiet:
                    fitter = Fitter(filt_names, [1., 3., 3.] * u.arcsec, directory,
                                    extinction_law=extinction, av_range=[0., 30.],
                                    distance_range=[1., 2.] * u.kpc, remove_resolved=remove_resolved)
                k = plain(fitter.av_law)
                sl = plain(fitter.sc_law)
                check(close(k, [-0.4 * w ** -2 / 0.55 ** -2 for w in filt_wav.value], rtol=0.25, atol=0), "disk: k(lambda) unexpected")
                check(bool(np.all(sl == -2.)), "disk: scale law")
                grid = fitter.models.fluxes.to(u.mJy).value.astype(float)
                if not aperture_dependent:
                    expected_grid = np.hstack(written)
                    if version == 2:  # single precision storage
                        expected_grid = expected_grid.astype(np.float32).astype(float)
                    check(np.array_equal(grid, expected_grid), "disk: grid differs from the files")
                if version == 2:
                    # single precision fluxes: log10 evaluated in single precision
                    grid = 10. ** np.log10(fitter.models.fluxes.to(u.mJy).value).astype(float)
                for s in disk_sources:
                    label = "disk v%i dep=%s rr=%s %s" % (version, aperture_dependent, remove_resolved, s.name)
                    with quiet, np.errstate(all='ignore'):
                        first = fitter.fit(s)
                        second = fitter.fit(s)
                    check(same_info(first, second), label + ": second call differs")
                    check([str(x) for x in fitter.models.names] == list(pack_names), label + ": names of the grid changed")
                    if aperture_dependent:
                        extended = fitter.models.extended if remove_resolved else None
                        check_fit_3d(first, pack_names, grid, fitter.models.logd, extended, s, k, 0., 30., label)
                    else:
                        check_fit_2d(first, pack_names, grid, s, k, sl, 0., 30., label)

            # the same through the file interface, keeping all fits
            data_file = os.path.join(directory, 'data.txt')
            with open(data_file, 'w') as fh:
                for s in disk_sources:
                    src = make_source(s.name, s.valid, s.flux, s.error)
                    fh.write(src.to_ascii() + "\n")
            output = os.path.join(directory, 'output.fitinfo')
            with quiet, np.errstate(all='ignore'):
                fit_to_file(data_file, filt_names, [1., 3., 3.] * u.arcsec, directory, output,
                            extinction_law=extinction, av_range=[0., 30.], distance_range=[1., 2.] * u.kpc,
                            output_format=('A', 0), output_convolved=True, n_data_min=1)
            fin = FitInfoFile(output, 'r')
            infos = list(fin)
            fin.close()
            check(len(infos) == len(disk_sources), "file: number of sources")
            for info_file in infos:
                label = "file v%i dep=%s %s" % (version, aperture_dependent, info_file.source.name)
                if aperture_dependent:
                    # fit() was called without remove_resolved
                    check_fit_3d(info_file, pack_names, grid, fitter.models.logd, None,
                                 info_file.source, k, 0., 30., label)
                else:
                    check_fit_2d(info_file, pack_names, grid, info_file.source, k, sl, 0., 30., label)
            # iterating over in-memory FitInfo objects yields copies that can be cut independently
            ff = FitInfoFile(infos)
            for original, duplicate in zip(infos, ff):
                duplicate.keep(('N', 2))
                check(len(duplicate.chi2) == 2 and len(original.chi2) == n_pack and len(original.model_id) == n_pack,
                      "file: keep on a copy changed the original")
                check(np.array_equal(np.asarray(duplicate.model_id), np.asarray(original.model_id)[:2])
                      and np.array_equal(plain(duplicate.model_fluxes), plain(original.model_fluxes)[:2]), "file: keep cut the wrong rows")
finally:
    shutil.rmtree(tmp, ignore_errors=True)

# ---------------------------------------------------------------------------
# 5. The numerical building blocks used by Models.fit, driven directly
# ---------------------------------------------------------------------------

from sedfitter import fitting_routines

# log10 fluxes of a grid: -inf where there is no flux, double precision array
for unit, scale in ((u.mJy, 1.), (u.Jy, 1.e-3), (u.erg / u.s / u.cm ** 2 / u.Hz, 1.e-26)):
    for dtype in (np.float64, np.float32):
        values = (flux * scale).astype(dtype)
        values[4, 1] = 0.
        values[9] = 0.
        m = build_models(values * unit, mnames.copy())
        with np.errstate(all='ignore'):
            first = m.log_fluxes_mJy
            second = m.log_fluxes_mJy
        check(first.dtype == np.float64 and first.shape == values.shape, "log fluxes: type")
        check(np.array_equal(first, second), "log fluxes: second access differs")
        check(bool(np.all(np.isneginf(first[values == 0]))) and bool(np.all(np.isfinite(first[values != 0]))), "log fluxes: zero flux")
        tol = 1e-12 if dtype is np.float64 else 1e-6
        for i in range(values.shape[0]):
            for j in range(values.shape[1]):
                if values[i, j] != 0:
                    check(abs(first[i, j] - (math.log10(float(values[i, j])) - math.log10(scale))) < tol, "log fluxes: value")
        check(np.array_equal(m.fluxes.value, values), "log fluxes: grid modified")

# chi_squared for 2-d and 3-d arrays with every kind of data point
for trial in range(30):
    nw = int(rng.randint(1, 7))
    valid_t = rng.choice([0, 1, 2, 3, 4, 9], size=nw)
    err_t = np.where((valid_t == 2) | (valid_t == 3), rng.choice([0., 0.3, 0.9, 1.], size=nw), rng.uniform(0.01, 0.2, nw))
    w_t = np.where((valid_t == 1) | (valid_t == 4), 1. / err_t ** 2, 0.)
    for shape in ((11, nw), (4, 5, nw), (1, nw), (0, nw)):
        data_t = rng.normal(size=shape)
        model_t = np.round(rng.normal(size=shape), 1)
        data_t[..., :1] = model_t[..., :1]            # boundary: model exactly at the limit
        keep_d, keep_m = data_t.copy(), model_t.copy()
        with np.errstate(all='ignore'):
            c1 = fitting_routines.chi_squared(valid_t, data_t, err_t, w_t, model_t)
            c2 = fitting_routines.chi_squared(valid_t, data_t, err_t, w_t, model_t)
        check(np.array_equal(c1, c2) and c1.shape == shape[:-1], "chi_squared: second call / shape")
        check(np.array_equal(keep_d, data_t) and np.array_equal(keep_m, model_t), "chi_squared: inputs modified")
        for index in np.ndindex(*shape[:-1]):
            expected = chi2_of([int(v) for v in valid_t], list(data_t[index]), list(w_t), list(err_t), [0.] * nw, list(model_t[index]))
            check(close(c1[index], expected, rtol=1e-12, atol=1e-12), "chi_squared: value %r != %r" % (c1[index], expected))

print("demo passed: %i checks" % N_CHECKS[0])
sys.exit(0)
