import sys, os; sys.path.insert(0, os.getcwd())

# ---------------------------------------------------------------------------
# Demonstration for property C11 (fits do not depend on labelling, ordering,
# units of brightness, or history).  Self-contained: builds its own model
# packages in a temporary directory, fits them with the library found in the
# current directory, and compares with a slow pure-Python reference fitter
# written here from the published description of the method.
# ---------------------------------------------------------------------------

import contextlib
import io
import itertools
import math
import pickle
import shutil
import tempfile

import numpy as np
from astropy import units as u

import sedfitter
assert os.path.dirname(os.path.abspath(sedfitter.__file__)) == os.path.join(os.getcwd(), 'sedfitter'), sedfitter.__file__

from sedfitter.fit import Fitter
from sedfitter.source import Source
from sedfitter.extinction import Extinction
from sedfitter.convolved_fluxes import ConvolvedFluxes
from sedfitter.models import Models
from sedfitter import fitting_routines

LN10 = math.log(10.)
N_CHECKS = [0]


def check(cond, msg):
    N_CHECKS[0] += 1
    if not cond:
        print("DEMO FAILURE: " + msg)
        sys.exit(1)


def quiet(func, *args, **kwargs):
    with contextlib.redirect_stdout(io.StringIO()):
        return func(*args, **kwargs)


# ------------------------------------------------------------------ inputs

def make_extinction():
    e = Extinction()
    wav = np.logspace(-1., 3., 40)
    e.wav = wav * u.micron
    e.chi = (220. * wav ** -1.7 + 30. * np.exp(-0.5 * ((np.log10(wav) - 1.) / 0.1) ** 2)) * u.cm ** 2 / u.g
    return e, wav, e.chi.value


def ref_interp(x, xs, ys):
    """plain linear interpolation on an increasing grid, scalar"""
    for k in range(len(xs) - 1):
        if xs[k] <= x <= xs[k + 1]:
            t = (x - xs[k]) / (xs[k + 1] - xs[k])
            return ys[k] + t * (ys[k + 1] - ys[k])
    raise ValueError("out of range")


def ref_av_law(wavs, ext_wav, ext_chi):
    chi_v = ref_interp(0.55, ext_wav, ext_chi)
    return [-0.4 * ref_interp(w, ext_wav, ext_chi) / chi_v for w in wavs]


def write_conf(directory, aperture_dependent, version=1, step=0.02):
    with open(os.path.join(directory, 'models.conf'), 'w') as f:
        f.write("name = demo\n")
        f.write("length_subdir = 0\n")
        f.write("aperture_dependent = {0}\n".format('yes' if aperture_dependent else 'no'))
        f.write("logd_step = {0}\n".format(step))
        if version == 2:
            f.write("version = 2\n")


def build_package_v1(directory, filt_names, wavs, names, flux, apertures=None, step=0.02):
    """
    flux : (n_models, n_filt) for aperture-independent packages,
           (n_models, n_ap, n_filt) with apertures (au) otherwise
    """
    os.makedirs(os.path.join(directory, 'convolved'))
    write_conf(directory, apertures is not None, version=1, step=step)
    for k, name in enumerate(filt_names):
        c = ConvolvedFluxes()
        c.central_wavelength = wavs[k] * u.micron
        c.model_names = np.array(names)
        if apertures is None:
            c.flux = flux[:, k].reshape(len(names), 1) * u.mJy
        else:
            c.apertures = np.array(apertures) * u.au
            c.flux = flux[:, :, k] * u.mJy
        c.error = c.flux * 0.01
        c.write(os.path.join(directory, 'convolved', name + '.fits'))


def make_source(name, valid, flux, error):
    s = Source()
    s.name = name
    s.x = 1.25
    s.y = -3.5
    s.valid = valid
    s.flux = flux
    s.error = error
    return s


def permuted_source(s, perm):
    perm = list(perm)
    return make_source(s.name, np.asarray(s.valid)[perm], np.asarray(s.flux)[perm], np.asarray(s.error)[perm])


def source_snapshot(s):
    return (s.name, s.x, s.y, np.array(s.valid, copy=True), np.array(s.flux, copy=True), np.array(s.error, copy=True),
            s.valid.dtype, s.flux.dtype, s.error.dtype, id(s.valid), id(s.flux), id(s.error))


def source_unchanged(s, snap):
    return (s.name == snap[0] and s.x == snap[1] and s.y == snap[2]
            and s.valid.tobytes() == snap[3].tobytes() and s.flux.tobytes() == snap[4].tobytes()
            and s.error.tobytes() == snap[5].tobytes()
            and s.valid.dtype == snap[6] and s.flux.dtype == snap[7] and s.error.dtype == snap[8]
            and id(s.valid) == snap[9] and id(s.flux) == snap[10] and id(s.error) == snap[11])


# --------------------------------------------------------- reference fitter

def ref_log_fluxes(valid, flux, error):
    logf, conf, w = [], [], []
    for v, fl, er in zip(valid, flux, error):
        v = int(v)
        if v == 1:
            le = abs(er / fl) / LN10
            logf.append(math.log10(fl) - 0.5 * (er / fl) ** 2 / LN10)
            conf.append(le)
            w.append(1. / le ** 2)
        elif v in (2, 3):
            logf.append(math.log10(fl))
            conf.append(er)
            w.append(0.)
        elif v == 4:
            logf.append(fl)
            conf.append(er)
            w.append(1. / er ** 2)
        else:  # 0 and 9: never used in the fit
            logf.append(0.)
            conf.append(0.)
            w.append(0.)
    return logf, conf, w


def ref_penalty(confidence):
    # a violated limit with confidence 1 is 'infinitely' bad: 1e30 by convention
    return -2. * math.log(1. - confidence) if confidence < 1. else 1.e30


def ref_chi2(valid, r, conf, w, m):
    terms = []
    for j, v in enumerate(valid):
        v = int(v)
        if v in (1, 4):
            c = (r[j] - m[j]) ** 2 * w[j]
        elif v == 2:
            c = ref_penalty(conf[j]) if m[j] < r[j] else 0.
        elif v == 3:
            c = ref_penalty(conf[j]) if m[j] > r[j] else 0.
        else:
            c = 0.
        terms.append(c)
    return math.fsum(terms)


def ref_fit_independent(source, model_flux, a, av_min, av_max):
    """model_flux: dict name -> list of fluxes (mJy); returns name -> (av, sc, chi2)"""
    logf, conf, w = ref_log_fluxes(source.valid, source.flux, source.error)
    n = len(logf)
    s = [-2.] * n
    out = {}
    for name, mf in model_flux.items():
        r = [logf[j] - math.log10(mf[j]) for j in range(n)]
        used = [j for j in range(n) if w[j] > 0]
        c1 = math.fsum(r[j] * a[j] * w[j] for j in used)
        c2 = math.fsum(r[j] * s[j] * w[j] for j in used)
        m11 = math.fsum(a[j] * a[j] * w[j] for j in used)
        m12 = math.fsum(a[j] * s[j] * w[j] for j in used)
        m22 = math.fsum(s[j] * s[j] * w[j] for j in used)
        det = m11 * m22 - m12 * m12
        av = (m22 * c1 - m12 * c2) / det
        sc = (m11 * c2 - m12 * c1) / det
        if av < av_min or av > av_max:
            av = av_min if av < av_min else av_max
            sc = math.fsum((r[j] - av * a[j]) * s[j] * w[j] for j in used) / m22
        m = [av * a[j] + sc * s[j] for j in range(n)]
        out[name] = (av, sc, ref_chi2(source.valid, r, conf, w, m))
    return out


def ref_distance_grid(dmin_kpc, dmax_kpc, step):
    if dmin_kpc == dmax_kpc:
        return [dmin_kpc]
    n = int(math.ceil(1 + (math.log10(dmax_kpc) - math.log10(dmin_kpc)) / step))
    l0, l1 = math.log10(dmin_kpc), math.log10(dmax_kpc)
    return [10. ** (l0 + (l1 - l0) * k / (n - 1)) for k in range(n)]


def ref_fit_dependent(source, model_flux, apertures_au, ap_arcsec, a, av_min, av_max, dgrid):
    """model_flux: dict name -> [n_ap][n_filt] fluxes (mJy at 1 kpc)"""
    logf, conf, w = ref_log_fluxes(source.valid, source.flux, source.error)
    n = len(logf)
    out = {}
    for name, mf in model_flux.items():
        best = None
        for d in dgrid:
            r = []
            for j in range(n):
                ap = min(ap_arcsec[j] * d * 1000., apertures_au[-1])
                fl = ref_interp(ap, apertures_au, [mf[k][j] for k in range(len(apertures_au))])
                r.append(logf[j] - math.log10(fl / d ** 2))
            used = [j for j in range(n) if w[j] > 0]
            av = math.fsum(r[j] * a[j] * w[j] for j in used) / math.fsum(a[j] * a[j] * w[j] for j in used)
            av = min(max(av, av_min), av_max)
            m = [av * a[j] for j in range(n)]
            c = ref_chi2(source.valid, r, conf, w, m)
            if best is None or c < best[2]:
                best = (av, math.log10(d), c)
        out[name] = best
    return out


# --------------------------------------------------------------- comparisons

def as_dict(info):
    av = np.asarray(info.av, float)
    sc = np.asarray(info.sc, float)
    c2 = np.asarray(info.chi2, float)
    names = [str(x).strip() for x in info.model_name]
    check(len(set(names)) == len(names), "duplicate model names in result")
    check(np.all(np.diff(c2) >= 0), "results not sorted by chi2")
    return {names[i]: (float(av[i]), float(sc[i]), float(c2[i])) for i in range(len(names))}


def close(x, y, rtol, atol):
    if x == y:
        return True
    return abs(x - y) <= atol + rtol * max(abs(x), abs(y))


def same_results(d1, d2, rtol, atol, what, sc_shift=0.):
    check(sorted(d1) == sorted(d2), what + ": different sets of models")
    for name in d1:
        a1, s1, c1 = d1[name]
        a2, s2, c2 = d2[name]
        check(close(a1, a2, rtol, atol), "%s: A_V differs for %s: %r vs %r" % (what, name, a1, a2))
        check(close(s1 + sc_shift, s2, rtol, atol), "%s: scale differs for %s: %r (+%r) vs %r" % (what, name, s1, sc_shift, s2))
        check(close(c1, c2, rtol, atol * 10), "%s: chi2 differs for %s: %r vs %r" % (what, name, c1, c2))


def info_bytes(info):
    """everything observable in a FitInfo, bit for bit"""
    parts = [np.asarray(info.av, float).tobytes(), np.asarray(info.sc, float).tobytes(),
             np.asarray(info.chi2, float).tobytes(), np.asarray(info.model_id).tobytes(),
             '|'.join(str(x) for x in info.model_name).encode(),
             np.asarray(info.model_fluxes, float).tobytes()]
    return b'#'.join(parts)


def check_history_independence(make_fitter, sources, what, max_orders=12):
    """
    A fitter gives, bit for bit, the same FitInfo for a source whatever it
    fitted before (and however often), and never modifies the source.
    """
    fresh = {}
    for k, s in enumerate(sources):
        snap = source_snapshot(s)
        fresh[k] = info_bytes(make_fitter().fit(s))
        check(source_unchanged(s, snap), what + ": source modified by fit")
    fitter = make_fitter()
    idx = list(range(len(sources)))
    orders = list(itertools.permutations(idx))[:max_orders]
    orders += [tuple(idx) + tuple(idx), tuple(idx[::-1]) + tuple(idx[:1]) * 2]
    for order in orders:
        order = order[:6]
        for k in order:
            snap = source_snapshot(sources[k])
            info = fitter.fit(sources[k])
            check(info.source is sources[k], what + ": FitInfo.source is not the source given")
            check(source_unchanged(sources[k], snap), what + ": source modified by fit")
            check(info_bytes(info) == fresh[k], what + ": result for source %i depends on history (order %r)" % (k, order))


def check_filter_permutations(make_fitter_perm, sources, n_filt, what, perms=None, rtol=1e-8, atol=1e-8):
    base = make_fitter_perm(tuple(range(n_filt)))
    base_res = [as_dict(base.fit(s)) for s in sources]
    if perms is None:
        perms = list(itertools.permutations(range(n_filt)))
    for perm in perms:
        fitter = make_fitter_perm(perm)
        for s, b in zip(sources, base_res):
            same_results(b, as_dict(fitter.fit(permuted_source(s, perm))), rtol, atol,
                         "%s: filter permutation %r, source %s" % (what, perm, s.name))
    return base_res


# ------------------------------------------------------------------ scenario

class Scenario(object):
    pass


def build_scenario(root, seed=20260927):

    sc = Scenario()
    rng = np.random.RandomState(seed)

    sc.ext, sc.ext_wav, sc.ext_chi = make_extinction()
    sc.filt_names = ['fa', 'fb', 'fc', 'fd']
    sc.wavs = [1.2, 3.6, 8.0, 24.0]
    sc.a = ref_av_law(sc.wavs, sc.ext_wav, sc.ext_chi)
    sc.n_filt = 4
    sc.names = ['mod_%02d' % i for i in range(8)]
    sc.ap_arcsec = [1., 3., 3., 800.]

    # Aperture-independent package (version 1 layout)
    sc.flux2 = 10. ** rng.uniform(-1., 2., (8, 4))
    sc.dir2 = os.path.join(root, 'indep')
    os.mkdir(sc.dir2)
    quiet(build_package_v1, sc.dir2, sc.filt_names, sc.wavs, sc.names, sc.flux2)

    # Aperture-dependent package (version 1 layout)
    sc.apertures_au = list(np.logspace(1., 6., 7))
    sc.flux3 = np.cumsum(10. ** rng.uniform(-1., 1., (8, 7, 4)), axis=1)
    sc.dir3 = os.path.join(root, 'dep')
    os.mkdir(sc.dir3)
    quiet(build_package_v1, sc.dir3, sc.filt_names, sc.wavs, sc.names, sc.flux3, apertures=sc.apertures_au)

    # Sources: model 2 seen through A_V = 3 and scaled, plus noise
    a = np.array(sc.a)
    truth = sc.flux2[2] * 10. ** (3. * a - 2. * 0.7)
    f1 = truth * (1. + 0.05 * rng.normal(size=4))
    sc.sources = [
        make_source('all_valid', np.array([1, 1, 1, 1]), f1, 0.1 * f1),
        make_source('upper_limit', np.array([1, 3, 1, 1]), f1 * np.array([1., 0.5, 1., 1.]), np.array([0.1 * f1[0], 0.9, 0.2 * f1[2], 0.05 * f1[3]])),
        make_source('lower_and_unused', np.array([1, 1, 2, 0]), f1 * np.array([1.1, 0.9, 3.0, 1.]), np.array([0.1 * f1[0], 0.1 * f1[1], 0.99, 0.])),
        make_source('log_and_plot_only', np.array([4, 1, 1, 9]), np.array([np.log10(f1[0]), f1[1], f1[2], -999.]), np.array([0.04, 0.1 * f1[1], 0.1 * f1[2], -999.])),
        # unusual but legal input forms: lists, a tuple, float-valued flags
        make_source('lists', [1., 1., 0., 1.], tuple(float(x) for x in sc.flux2[5] * 3.), [float(x) for x in sc.flux2[5] * 0.3]),
    ]
    return sc


def model_flux_dict(names, flux):
    return {names[i]: [[float(x) for x in row] for row in flux[i]] if flux.ndim == 3 else [float(x) for x in flux[i]]
            for i in range(len(names))}


def standard_checks(sc, root, av_ranges=((0., 10.), (0., 2.), (1.5, 1.5)), with_resolved=True, n_perms=None):
    """The property as stated, on both kinds of packages."""

    all_perms = list(itertools.permutations(range(sc.n_filt)))
    perms = all_perms if n_perms is None else all_perms[::max(1, len(all_perms) // n_perms)]

    # ---- distance-independent package
    for av_range in av_ranges:

        def make_fitter_perm(perm, av_range=av_range):
            return quiet(Fitter, [sc.filt_names[p] for p in perm], np.array([sc.ap_arcsec[p] for p in perm]) * u.arcsec,
                         sc.dir2, extinction_law=sc.ext, av_range=av_range, distance_range=[1., 2.] * u.kpc)

        what = "indep av_range=%r" % (av_range,)
        base_res = check_filter_permutations(make_fitter_perm, sc.sources, sc.n_filt, what, perms=perms)

        # independent computation
        mf = model_flux_dict(sc.names, sc.flux2)
        for s, res in zip(sc.sources, base_res):
            same_results(ref_fit_independent(s, mf, sc.a, av_range[0], av_range[1]), res, 1e-7, 1e-7,
                         what + ": reference, source " + s.name)

        # second call on the same objects, history, source untouched
        check_history_independence(lambda: make_fitter_perm(tuple(range(sc.n_filt))), sc.sources[:3], what, max_orders=6)

        # units of brightness: scale by constants over 8 decades
        fitter = make_fitter_perm(tuple(range(sc.n_filt)))
        for s in sc.sources:
            valid = np.asarray(s.valid).astype(int)
            base = as_dict(fitter.fit(s))
            for const in [1e-4, 3.7e-3, 0.1, 1., 2., 47.11, 1e3, 1e4]:
                linear = (valid != 4)
                flux = np.array(s.flux, dtype=float)
                error = np.array(s.error, dtype=float)
                flux[linear] = flux[linear] * const
                error[linear & (valid != 2) & (valid != 3)] *= const  # confidences of limits are not brightnesses
                flux[valid == 4] += np.log10(const)
                scaled = make_source(s.name, valid, flux, error)
                same_results(base, as_dict(fitter.fit(scaled)), 1e-8, 1e-8,
                             "%s: scaling by %g, source %s" % (what, const, s.name), sc_shift=-0.5 * math.log10(const))

    # ---- permutation of the models inside the package
    rng = np.random.RandomState(5)
    for trial in range(3):
        order = list(range(8))[::-1] if trial == 0 else list(rng.permutation(8))
        d2 = os.path.join(root, 'indep_perm%i_%i' % (trial, N_CHECKS[0]))
        d3 = os.path.join(root, 'dep_perm%i_%i' % (trial, N_CHECKS[0]))
        os.mkdir(d2)
        os.mkdir(d3)
        quiet(build_package_v1, d2, sc.filt_names, sc.wavs, [sc.names[i] for i in order], sc.flux2[order])
        quiet(build_package_v1, d3, sc.filt_names, sc.wavs, [sc.names[i] for i in order], sc.flux3[order], apertures=sc.apertures_au)
        for directory, permuted, kwargs in [(sc.dir2, d2, {}), (sc.dir3, d3, {}), (sc.dir3, d3, {'remove_resolved': True})]:
            if kwargs and not with_resolved:
                continue
            args = (sc.filt_names, np.array(sc.ap_arcsec) * u.arcsec)
            kw = dict(extinction_law=sc.ext, av_range=(0., 4.), distance_range=[0.8, 1.6] * u.kpc)
            kw.update(kwargs)
            f1 = quiet(Fitter, args[0], args[1], directory, **kw)
            f2 = quiet(Fitter, args[0], args[1], permuted, **kw)
            for s in sc.sources:
                same_results(as_dict(f1.fit(s)), as_dict(f2.fit(s)), 1e-9, 1e-9,
                             "model permutation %r in %s %r, source %s" % (order, os.path.basename(directory), kwargs, s.name))

    # ---- distance-dependent package
    for av_range, drange in [((0., 10.), (0.8, 1.6)), ((0.5, 2.), (1.3, 1.3))]:
        for resolved in ([False, True] if with_resolved else [False]):

            def make_fitter_perm(perm, av_range=av_range, drange=drange, resolved=resolved):
                return quiet(Fitter, [sc.filt_names[p] for p in perm], np.array([sc.ap_arcsec[p] for p in perm]) * u.arcsec,
                             sc.dir3, extinction_law=sc.ext, av_range=av_range, distance_range=list(drange) * u.kpc,
                             remove_resolved=resolved)

            what = "dep av_range=%r distances=%r remove_resolved=%r" % (av_range, drange, resolved)
            base_res = check_filter_permutations(make_fitter_perm, sc.sources, sc.n_filt, what, perms=perms[::3])

            if not resolved:
                mf = model_flux_dict(sc.names, sc.flux3)
                dgrid = ref_distance_grid(drange[0], drange[1], 0.02)
                for s, res in zip(sc.sources, base_res):
                    same_results(ref_fit_dependent(s, mf, sc.apertures_au, sc.ap_arcsec, sc.a, av_range[0], av_range[1], dgrid),
                                 res, 1e-7, 1e-7, what + ": reference, source " + s.name)

            check_history_independence(lambda: make_fitter_perm(tuple(range(sc.n_filt))), sc.sources[1:4], what, max_orders=3)


# ------------------------------------------------- specific to this change:
# more input forms are accepted along the fit path (this part only asserts
# something about the new forms if the library accepts them, so that it also
# runs against the library without the change), inputs that were refused are
# still refused by an exception of the same family at the same place.

REFUSALS = (TypeError, AttributeError, ValueError)


def attempt(func, *args, **kwargs):
    try:
        return quiet(func, *args, **kwargs)
    except REFUSALS:
        return None


def ascii_line(s):
    # Source.to_ascii needs integer flags
    return make_source(s.name, np.asarray(s.valid).astype(int), np.asarray(s.flux, float), np.asarray(s.error, float)).to_ascii()


def specific_checks(sc, root):

    from pathlib import Path
    from sedfitter.fit import fit
    from sedfitter.fit_info import FitInfoFile

    aps = np.array(sc.ap_arcsec) * u.arcsec
    kw = dict(extinction_law=sc.ext, av_range=(0., 4.), distance_range=[0.8, 1.6] * u.kpc)
    n_new = 0

    for directory in (sc.dir2, sc.dir3):

        fitter = quiet(Fitter, sc.filt_names, aps, directory, **kw)
        expected = [info_bytes(fitter.fit(s)) for s in sc.sources]
        expected_approx = [as_dict(fitter.fit(s)) for s in sc.sources]
        check(isinstance(repr(fitter), str) and isinstance(repr(fitter.models), str), "repr")

        # forms that have always been legal: other units, tuples of names,
        # A_V range as a list or an array
        other = quiet(Fitter, tuple(sc.filt_names), (np.array(sc.ap_arcsec) / 60.) * u.arcmin, directory,
                      extinction_law=sc.ext, av_range=np.array([0., 4.]), distance_range=[800., 1600.] * u.pc)
        for s, e in zip(sc.sources, expected_approx):
            same_results(e, as_dict(other.fit(s)), 1e-9, 1e-9, "other units, source " + s.name)

        # new forms for the apertures and the distance range
        new = attempt(Fitter, sc.filt_names, [x * u.arcsec for x in sc.ap_arcsec], directory, extinction_law=sc.ext,
                      av_range=[0., 4.], distance_range=(0.8 * u.kpc, 1.6 * u.kpc))
        if new is not None:
            n_new += 1
            for s, e in zip(sc.sources, expected):
                check(info_bytes(new.fit(s)) == e, "lists of quantities: different fit for " + s.name)

        for k, s in enumerate(sc.sources):

            snap = source_snapshot(s)
            check(isinstance(repr(s), str), "repr of a source")

            # the same source in other (always legal) forms
            twin = make_source(s.name, list(np.asarray(s.valid)), tuple(np.asarray(s.flux)), list(np.asarray(s.error)))
            twin.x, twin.y = np.float32(1.25), np.int64(-3)
            info = fitter.fit(twin)
            check(isinstance(repr(info), str), "repr of a FitInfo")
            check(info_bytes(info) == expected[k], "source from lists fits differently")
            reloaded = pickle.loads(pickle.dumps(s, 2))
            check(reloaded == s and info_bytes(fitter.fit(reloaded)) == expected[k], "pickled source fits differently")
            check(info_bytes(fitter.fit(Source.from_dict(s.to_dict()))) == expected[k], "source via dict fits differently")

            # new forms
            got = attempt(fitter.fit, s.to_dict())
            if got is not None:
                n_new += 1
                check(info_bytes(got) == expected[k], "fit(dict) differs from fit(Source)")
            if np.all(np.asarray(s.flux) > -100):
                line = ascii_line(s)
                via_line = info_bytes(fitter.fit(Source.from_ascii(line)))
                for form in (line, line.encode('ascii')):
                    got = attempt(fitter.fit, form)
                    if got is not None:
                        n_new += 1
                        check(info_bytes(got) == via_line, "fit(line) differs from fit(Source.from_ascii(line))")

            class ArrayLike(object):
                def __init__(self, data):
                    self.data = data

                def __array__(self, dtype=None, copy=None):
                    return np.array(self.data, dtype=dtype)

            def exotic():
                e = Source()
                e.name = s.name
                e.x = np.array(1.25)
                e.y = np.array(-3.5)
                e.valid = ArrayLike([int(v) for v in s.valid])
                e.flux = ArrayLike([float(v) for v in s.flux])
                e.error = ArrayLike([float(v) for v in s.error])
                return e
            e = attempt(exotic)
            if e is not None:
                n_new += 1
                check(e == s and info_bytes(fitter.fit(e)) == expected[k], "array-like source fits differently")
            if hasattr(s, 'copy'):
                n_new += 1
                c = s.copy()
                check(c == s and c.flux is not s.flux and info_bytes(fitter.fit(c)) == expected[k], "copy of a source fits differently")

            # the fitter's own ingredients as plain lists
            got = attempt(fitter.models.fit, s, [float(x) for x in np.asarray(fitter.av_law, float)], [-2.] * sc.n_filt, 0., 4.)
            if got is not None:
                n_new += 1
                same_results(expected_approx[k], as_dict(got), 1e-12, 1e-12, "Models.fit with lists")

            check(source_unchanged(s, snap), "source modified")

        # inputs that are refused: same family of exception, same place
        bad = quiet(Fitter, sc.filt_names, aps, directory, extinction_law=sc.ext, av_range=None, distance_range=[0.8, 1.6] * u.kpc)
        try:
            bad.fit(sc.sources[0])
        except TypeError as exc:
            check('subscriptable' in str(exc), "av_range=None: message %r" % (exc,))
        else:
            check(False, "av_range=None accepted")
        try:
            quiet(Fitter, sc.filt_names, aps, directory, av_range=(0., 4.), distance_range=[0.8, 1.6] * u.kpc)
        except AttributeError as exc:
            check('get_av' in str(exc), "extinction_law=None: message %r" % (exc,))
        else:
            check(False, "extinction_law=None accepted")
        for wrong in ([1., 3., 3., 800.], np.array(sc.ap_arcsec), [1. * u.arcsec, 3., 3., 4.]):
            try:
                quiet(Fitter, sc.filt_names, wrong, directory, **kw)
            except TypeError as exc:
                check(str(exc) == "apertures should be given as a Quantity object", "apertures without units: %r" % (exc,))
            else:
                check(False, "apertures without units accepted")
        try:
            quiet(Fitter, sc.filt_names, aps[:3], directory, **kw)
        except ValueError as exc:
            check("should match" in str(exc), "wrong number of apertures: %r" % (exc,))
        else:
            check(False, "wrong number of apertures accepted")

    for attribute, value in [('valid', 1), ('flux', 'abc'), ('error', object()), ('flux', np.float64(3.)), ('valid', np.zeros((2, 2)))]:
        try:
            setattr(Source(), attribute, value)
        except TypeError as exc:
            check(str(exc) == attribute + " should be a 1-d sequence", "refusal of %r" % (value,))
        else:
            check(False, "%s = %r accepted" % (attribute, value))
    for value in ['a', np.array([1., 2.]), object()]:
        try:
            Source().x = value
        except TypeError as exc:
            check(str(exc) == "x should be a scalar floating point value", "refusal of x = %r" % (value,))
        else:
            check(False, "x = %r accepted" % (value,))

    # -- the fitting routines: arrays as always, and plain lists if accepted
    rng = np.random.RandomState(4)
    data = rng.normal(size=(6, 5))
    weights = rng.uniform(1., 50., 5)
    p1 = rng.normal(size=5)
    p2 = -2. * np.ones(5)
    a1, a2 = fitting_routines.linear_regression(data, weights, p1, p2)
    for i in range(6):
        A = np.vstack([p1, p2]).T * np.sqrt(weights)[:, None]
        sol = np.linalg.lstsq(A, data[i] * np.sqrt(weights), rcond=None)[0]
        check(np.allclose([a1[i], a2[i]], sol, rtol=1e-9, atol=1e-10), "linear_regression against lstsq")
    o = fitting_routines.optimal_scaling(data, weights, p1)
    check(np.allclose(o, [np.sum(data[i] * p1 * weights) / np.sum(p1 * p1 * weights) for i in range(6)], rtol=1e-13), "optimal_scaling")
    valid = np.array([1, 2, 3, 0, 4])
    conf = np.array([0.1, 0.9, 0.5, 0., 0.3])
    w = np.where((valid == 1) | (valid == 4), weights, 0.)
    model = rng.normal(size=(6, 5))
    c = fitting_routines.chi_squared(valid, data, conf, w, model)
    check(np.allclose(c, [ref_chi2(valid, list(data[i]), list(conf), list(w), list(model[i])) for i in range(6)], rtol=1e-13), "chi_squared")
    got = attempt(fitting_routines.linear_regression, data.tolist(), weights.tolist(), p1.tolist(), tuple(p2))
    if got is not None:
        n_new += 1
        check(np.array_equal(got[0], a1) and np.array_equal(got[1], a2), "linear_regression with lists")
    got = attempt(fitting_routines.optimal_scaling, data.tolist(), list(weights), list(p1))
    if got is not None:
        n_new += 1
        check(np.array_equal(got, o), "optimal_scaling with lists")
    got = attempt(fitting_routines.chi_squared, valid.tolist(), data.tolist(), conf.tolist(), w.tolist(), model.tolist())
    if got is not None and np.shape(got) == (6,) and not np.array_equal(got, c):
        check(False, "chi_squared with lists gives other values")
    try:
        fitting_routines.chi_squared(valid, data[0], conf, w, model[0])
    except Exception as exc:
        check(str(exc) == "Chi^2 array has unexpected number of dimensions: 1", "1-d chi_squared: %r" % (exc,))
    else:
        check(False, "1-d chi_squared accepted")

    # -- the fit() function end to end: what is written does not depend on the
    #    order of the filters in the data file, nor on the sources fitted before
    names = [s.name for s in sc.sources if np.all(np.asarray(s.flux) > -100)]
    usable = [s for s in sc.sources if s.name in names]
    results = {}
    for label, perm, order in [('base', (0, 1, 2, 3), list(range(len(usable)))), ('perm', (2, 0, 3, 1), list(range(len(usable)))[::-1])]:
        data_file = os.path.join(root, 'data_' + label)
        with open(data_file, 'w') as fh:
            for k in order:
                fh.write(ascii_line(permuted_source(usable[k], perm)) + "\n")
        for variant in ('plain', 'extra'):
            out = os.path.join(root, 'out_%s_%s' % (label, variant))
            args = (data_file if variant == 'plain' else Path(data_file), [sc.filt_names[p] for p in perm],
                    np.array([sc.ap_arcsec[p] for p in perm]) * u.arcsec, sc.dir2, out)
            kwargs = dict(extinction_law=sc.ext, av_range=(0., 4.), distance_range=[0.8, 1.6] * u.kpc, n_data_min=2,
                          output_format=('A', 0), output_convolved=True)
            if variant == 'extra':
                kwargs['use_memmap'] = False
                if attempt(fit, *args, **kwargs) is None and not os.path.exists(out):
                    continue
                n_new += 1
            else:
                quiet(fit, *args, **kwargs)
            fin = FitInfoFile(out, 'r')
            infos = list(fin)
            fin.close()
            check([i.source.name for i in infos] == [usable[k].name for k in order], "sources written by fit()")
            results[label, variant] = {i.source.name: as_dict(i) for i in infos}
    for key, res in results.items():
        for name in names:
            same_results(results['base', 'plain'][name], res[name], 1e-9, 1e-9, "fit() %r, source %s" % (key, name))
    mf = model_flux_dict(sc.names, sc.flux2)
    for s in usable:
        rounded = Source.from_ascii(ascii_line(s))
        same_results(ref_fit_independent(rounded, mf, sc.a, 0., 4.), results['base', 'plain'][s.name], 1e-7, 1e-7, "fit(): reference")

    print("new input forms exercised: %i" % n_new)


if __name__ == '__main__':
    np.seterr(all='ignore')
    root = tempfile.mkdtemp(prefix='demo_c11_')
    try:
        scenario = build_scenario(root)
        standard_checks(scenario, root)
        specific_checks(scenario, root)
    finally:
        shutil.rmtree(root, ignore_errors=True)
    print("demo OK: %i checks passed" % N_CHECKS[0])
    sys.exit(0)
