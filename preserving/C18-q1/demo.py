import sys, os; sys.path.insert(0, os.getcwd())
# Demonstration for property C18 (filter_output splits sources into two complete,
# disjoint, faithful files).  Independent of the library for reading back the
# output files (raw pickle stream) and for the good/bad decision.
import pickle
import shutil
import tempfile
import itertools

import numpy as np
from astropy import units as u

import sedfitter
assert os.path.dirname(os.path.abspath(sedfitter.__file__)) == os.path.join(os.getcwd(), 'sedfitter'), sedfitter.__file__

from sedfitter.fit_info import FitInfo, FitInfoFile, FitInfoMeta
from sedfitter.source import Source
from sedfitter.extinction import Extinction
from sedfitter import filter_output
from sedfitter.filter_output import filter_output as filter_output2
assert filter_output is filter_output2

N_CHECKS = [0]


def check(cond, msg):
    N_CHECKS[0] += 1
    if not cond:
        print("DEMO FAILURE:", msg)
        sys.exit(1)


def make_meta(n_wav):
    meta = FitInfoMeta()
    meta.model_dir = 'models_demo'
    meta.filters = [{'aperture_arcsec': 3. + i, 'name': 'F%i' % i, 'wav': (1. + i) * u.micron} for i in range(n_wav)]
    law = Extinction()
    law.wav = np.array([0.1, 1., 10., 100.]) * u.micron
    law.chi = np.array([100., 10., 1., 0.1]) * u.cm ** 2 / u.g
    meta.extinction_law = law
    return meta


def make_info(rng, idx, n_wav, meta, best, n_data=None, with_fluxes=True, dtype=float):
    s = Source()
    s.name = 'src_%03i' % idx
    s.x = float(rng.uniform(0, 360))
    s.y = float(rng.uniform(-90, 90))
    valid = rng.choice([0, 1, 2, 3, 4, 9], size=n_wav)
    if n_data is None:
        n_data = int(rng.integers(1, n_wav + 1))
    # force exactly n_data fitted points (valid 1 or 4)
    valid[(valid == 1) | (valid == 4)] = 0
    pos = rng.permutation(n_wav)[:n_data]
    valid[pos] = rng.choice([1, 4], size=n_data)
    s.valid = valid
    s.flux = rng.uniform(0.1, 10., n_wav)
    s.error = rng.uniform(0.01, 1., n_wav)
    info = FitInfo(source=s)
    n_fits = int(rng.integers(1, 6))
    chi2 = np.sort(np.hstack([[best], best + rng.uniform(0.1, 30., n_fits - 1)])).astype(dtype)
    info.chi2 = chi2
    info.av = rng.uniform(0, 10, n_fits).astype(dtype)
    info.sc = rng.uniform(-1, 1, n_fits).astype(dtype)
    info.model_id = rng.permutation(50)[:n_fits]
    info.model_name = np.array(['model_%05i' % i for i in info.model_id])
    info.model_fluxes = rng.uniform(-2, 2, (n_fits, n_wav)).astype(dtype) if with_fluxes else None
    info.meta = meta
    return info


def raw_write(filename, infos):
    # independent writer of the documented stream: three header pickles, then records
    with open(filename, 'wb') as f:
        pickle.dump(infos[0].meta.model_dir, f, 2)
        pickle.dump(infos[0].meta.filters, f, 2)
        pickle.dump(infos[0].meta.extinction_law, f, 2)
        for info in infos:
            pickle.dump(info, f, 2)


def raw_read(filename):
    # independent reader: returns (header or None, list of records)
    with open(filename, 'rb') as f:
        try:
            header = [pickle.load(f) for _ in range(3)]
        except EOFError:
            check(os.path.getsize(filename) == 0, "truncated header in %s" % filename)
            return None, []
        records = []
        while True:
            try:
                records.append(pickle.load(f))
            except EOFError:
                break
    return header, records


def same_array(a, b):
    if a is None or b is None:
        return a is None and b is None
    a = np.asarray(a)
    b = np.asarray(b)
    return a.dtype == b.dtype and a.shape == b.shape and np.array_equal(a, b)


def same_record(a, b):
    return (a.source.name == b.source.name and a.source.x == b.source.x and a.source.y == b.source.y
            and same_array(a.source.valid, b.source.valid)
            and same_array(a.source.flux, b.source.flux)
            and same_array(a.source.error, b.source.error)
            and same_array(a.av, b.av) and same_array(a.sc, b.sc)
            and same_array(a.chi2, b.chi2) and same_array(a.model_id, b.model_id)
            and same_array(a.model_name, b.model_name)
            and same_array(a.model_fluxes, b.model_fluxes))


def same_header(header, meta):
    return (header[0] == meta.model_dir
            and len(header[1]) == len(meta.filters)
            and all(h == m for h, m in zip(header[1], meta.filters))
            and np.array_equal(header[2].wav.value, meta.extinction_law.wav.value)
            and np.array_equal(header[2].chi.value, meta.extinction_law.chi.value))


def expected_good(info, chi=None, cpd=None):
    best = float(np.asarray(info.chi2, dtype=float)[0])
    if chi is not None:
        return best < float(chi)
    valid = np.asarray(info.source.valid)
    n_data = sum(1 for v in valid.tolist() if v in (1, 4))
    return best / n_data < float(cpd)


def check_split(label, infos, good_file, bad_file, chi=None, cpd=None):
    hg, good = raw_read(good_file)
    hb, bad = raw_read(bad_file)
    exp = [expected_good(i, chi=chi, cpd=cpd) for i in infos]
    exp_good = [i for i, e in zip(infos, exp) if e]
    exp_bad = [i for i, e in zip(infos, exp) if not e]
    check(len(good) + len(bad) == len(infos), "%s: %i + %i records for %i sources" % (label, len(good), len(bad), len(infos)))
    check([r.source.name for r in good] == [i.source.name for i in exp_good], "%s: good file has wrong sources/order" % label)
    check([r.source.name for r in bad] == [i.source.name for i in exp_bad], "%s: bad file has wrong sources/order" % label)
    for r, i in zip(good, exp_good):
        check(same_record(r, i), "%s: good record %s altered" % (label, i.source.name))
    for r, i in zip(bad, exp_bad):
        check(same_record(r, i), "%s: bad record %s altered" % (label, i.source.name))
    if good:
        check(same_header(hg, infos[0].meta), "%s: good header altered" % label)
    if bad:
        check(same_header(hb, infos[0].meta), "%s: bad header altered" % label)
    # files must also be readable with the library reader, with the same content
    for fname, ref in ((good_file, exp_good), (bad_file, exp_bad)):
        if ref:
            fin = FitInfoFile(fname, 'r')
            got = list(fin)
            fin.close()
            check(len(got) == len(ref) and all(same_record(a, b) for a, b in zip(got, ref)), "%s: library reader disagrees on %s" % (label, fname))
    return len(good), len(bad)


def snapshot(infos):
    return [pickle.dumps(i, 2) for i in infos]


def extra_cases(tmp, rng, make_infos):
    """hook overwritten by the per-change demos"""
    return


def main(extra=None):
    tmp = tempfile.mkdtemp(prefix='demo_c18_')
    try:
        rng = np.random.default_rng(1818)
        case = 0
        totals = [0, 0]

        def make_infos(n, n_wav=None, bests=None, dtype=float, with_fluxes=True, n_data=None):
            n_wav = n_wav or int(rng.integers(1, 8))
            meta = make_meta(n_wav)
            if bests is None:
                bests = rng.uniform(0.5, 40., n)
            return [make_info(rng, k, n_wav, meta, bests[k], dtype=dtype, with_fluxes=with_fluxes, n_data=n_data) for k in range(n)]

        # ---- 1. file inputs, automatic and explicit names, chi and cpd, 1..10 sources
        for n in range(1, 11):
            for crit in ('chi', 'cpd'):
                for names in ('auto', 'explicit', 'mixed'):
                    case += 1
                    infos = make_infos(n, dtype=(np.float32 if case % 5 == 0 else float), with_fluxes=(case % 3 != 0))
                    fname = os.path.join(tmp, 'in_%03i.fitinfo' % case)
                    if case % 2:
                        raw_write(fname, infos)
                    else:
                        fout = FitInfoFile(fname, 'w')
                        for i in infos:
                            fout.write(i)
                        fout.close()
                    before = open(fname, 'rb').read()
                    thr = float(rng.uniform(1., 30.)) if crit == 'chi' else float(rng.uniform(0.3, 12.))
                    kw = {crit: thr}
                    if names == 'auto':
                        g, b = fname + '_good', fname + '_bad'
                        filter_output(fname, **kw)
                    elif names == 'explicit':
                        g, b = os.path.join(tmp, 'g_%03i' % case), os.path.join(tmp, 'b_%03i' % case)
                        filter_output(fname, g, b, **kw)
                    else:
                        g, b = fname + '_good', os.path.join(tmp, 'b_%03i' % case)
                        filter_output(input_fits=fname, output_bad=b, **kw)
                    ng, nb = check_split('case %i (%s,%s,n=%i)' % (case, crit, names, n), infos, g, b, **kw)
                    totals[0] += ng
                    totals[1] += nb
                    check(open(fname, 'rb').read() == before, "case %i: input file modified" % case)
                    # second call on the same file: same result, with another threshold too
                    filter_output(fname, g, b, **kw)
                    check_split('case %i second call' % case, infos, g, b, **kw)
                    kw2 = {crit: thr * 1.7}
                    filter_output(fname, g, b, **kw2)
                    check_split('case %i third call, other threshold' % case, infos, g, b, **kw2)
        check(totals[0] > 20 and totals[1] > 20, "unbalanced demo: %s" % totals)

        # ---- 2. in-memory inputs: list, tuple, single FitInfo; callers' objects untouched
        for n in (1, 2, 5, 10):
            for crit in ('chi', 'cpd'):
                for form in ('list', 'tuple', 'single'):
                    case += 1
                    infos = make_infos(n)
                    if form == 'single':
                        infos = infos[:1]
                    arg = {'list': list(infos), 'tuple': tuple(infos), 'single': infos[0]}[form]
                    snap = snapshot(infos)
                    thr = float(rng.uniform(1., 30.)) if crit == 'chi' else float(rng.uniform(0.3, 12.))
                    kw = {crit: thr}
                    g, b = os.path.join(tmp, 'mg_%03i' % case), os.path.join(tmp, 'mb_%03i' % case)
                    filter_output(arg, g, b, **kw)
                    check_split('case %i (%s,%s)' % (case, crit, form), infos, g, b, **kw)
                    filter_output(arg, output_good=g, output_bad=b, **kw)
                    check_split('case %i second call' % case, infos, g, b, **kw)
                    check(snapshot(infos) == snap, "case %i: caller's FitInfo objects modified" % case)
                    for auto_kw in ({'output_bad': b}, {'output_good': g}, {}):
                        try:
                            filter_output(arg, **dict(auto_kw, **kw))
                        except ValueError:
                            pass
                        else:
                            check(False, "case %i: automatic names accepted for in-memory input" % case)

        # ---- 3. boundary values: thresholds one ulp above / below a best value
        infos = make_infos(6, n_wav=5, bests=np.array([3., 7.5, 12., 12., 20., 0.25]))
        fname = os.path.join(tmp, 'boundary.fitinfo')
        raw_write(fname, infos)
        for thr in (np.nextafter(12., 13.), np.nextafter(12., 11.), np.nextafter(0.25, 0.), 1e300, 1e-300, 5e-324):
            filter_output(fname, chi=thr)
            check_split('boundary chi=%r' % thr, infos, fname + '_good', fname + '_bad', chi=thr)
        infos = make_infos(5, n_wav=6, bests=np.array([6., 6., 6., 6., 6.]), n_data=None)
        cpds = sorted(set(6. / sum(1 for v in i.source.valid.tolist() if v in (1, 4)) for i in infos))
        raw_write(fname, infos)
        for c in cpds:
            for thr in (np.nextafter(c, 100.), np.nextafter(c, 0.)):
                filter_output(fname, cpd=thr)
                check_split('boundary cpd=%r' % thr, infos, fname + '_good', fname + '_bad', cpd=thr)
        # n_data = 1 for every source: cpd and chi criteria coincide
        infos = make_infos(7, n_wav=4, n_data=1)
        raw_write(fname, infos)
        filter_output(fname, cpd=15.)
        n1 = check_split('n_data=1 cpd', infos, fname + '_good', fname + '_bad', cpd=15.)
        filter_output(fname, chi=15.)
        n2 = check_split('n_data=1 chi', infos, fname + '_good', fname + '_bad', chi=15.)
        check(n1 == n2, "n_data=1: chi and cpd disagree")

        # ---- 4. unusual but legal input forms: numpy scalars / ints as thresholds, relative file names
        infos = make_infos(8, n_wav=3)
        raw_write(fname, infos)
        for thr in (np.float32(11.5), np.float64(11.5), 11, np.int64(20), True):
            filter_output(fname, chi=thr)
            check_split('chi=%r' % (thr,), infos, fname + '_good', fname + '_bad', chi=thr)
            filter_output(fname, cpd=thr)
            check_split('cpd=%r' % (thr,), infos, fname + '_good', fname + '_bad', cpd=thr)
        cwd = os.getcwd()
        os.chdir(tmp)
        try:
            shutil.copy(fname, 'rel.fitinfo')
            filter_output('rel.fitinfo', cpd=4.)
            check_split('relative names', infos, 'rel.fitinfo_good', 'rel.fitinfo_bad', cpd=4.)
            filter_output('./rel.fitinfo', 'g.out', os.path.join('.', 'b.out'), chi=9.)
            check_split('relative explicit names', infos, 'g.out', 'b.out', chi=9.)
        finally:
            os.chdir(cwd)

        if extra is not None:
            extra(tmp, rng, make_infos)
    finally:
        shutil.rmtree(tmp, ignore_errors=True)
    print("demo OK: %i checks" % N_CHECKS[0])


if __name__ == '__main__':
    main()
