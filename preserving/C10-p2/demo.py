import sys, os
sys.path.insert(0, os.getcwd())

# Demonstration for property C10 (fit() writes one faithful record per
# eligible source and the file reads back unchanged; post-processing accepts
# file / object / list interchangeably and leaves results unchanged).
#
# Everything the library produces is compared with an independent computation:
#   * eligibility is decided from the text of the data file,
#   * the expected record is Fitter.fit(Source.from_ascii(line)) cut with an
#     independent implementation of the output selector,
#   * the file is also read back with bare pickle.load calls.

import io
import glob
import pickle
import shutil
import tempfile
import warnings
import contextlib
import pathlib

import numpy as np

import matplotlib
matplotlib.use('Agg')

from astropy import units as u
from astropy.table import Table

warnings.simplefilter('ignore')
np.seterr(all='ignore')

import sedfitter
assert os.path.dirname(os.path.abspath(sedfitter.__file__)) == os.path.join(os.getcwd(), 'sedfitter'), sedfitter.__file__

from sedfitter import fit, Fitter
from sedfitter.source import Source
from sedfitter.extinction import Extinction
from sedfitter.fit_info import FitInfoFile, FitInfo
from sedfitter.write_parameters import write_parameters
from sedfitter.write_parameter_ranges import write_parameter_ranges
from sedfitter.extract_parameters import extract_parameters
from sedfitter.filter_output import filter_output

FOCUS = 'p2'

TMP = tempfile.mkdtemp(prefix='c10demo_')
N_CHECKS = [0]


def check(cond, msg):
    N_CHECKS[0] += 1
    if not cond:
        print("FAILED: " + msg)
        shutil.rmtree(TMP, ignore_errors=True)
        sys.exit(1)


@contextlib.contextmanager
def quiet():
    with contextlib.redirect_stdout(io.StringIO()):
        yield


_counter = [0]


def fresh(name):
    _counter[0] += 1
    return os.path.join(TMP, '%s_%04d' % (name, _counter[0]))


# ---------------------------------------------------------------------------
# Model packages
# ---------------------------------------------------------------------------

N_MODELS = 9


def build_models(models_dir, aperture_dependent, seed):
    from sedfitter.sed import SEDCube
    rng = np.random.RandomState(seed)
    os.mkdir(models_dir)
    cube = SEDCube()
    cube.names = np.array(['model_{0:04d}'.format(i) for i in range(N_MODELS)])
    cube.distance = 1 * u.kpc
    cube.wav = np.logspace(-2., 3., 60) * u.micron
    slope = rng.uniform(-1, 1, N_MODELS)
    norm = 10 ** rng.uniform(-1, 1.5, N_MODELS)
    base = norm[:, None] * (cube.wav.value[None, :] / 5.) ** slope[:, None]
    base = base * (1 + 0.3 * rng.random_sample(base.shape))
    if aperture_dependent:
        cube.apertures = np.logspace(1., 6., 8) * u.au
        frac = np.linspace(0.3, 1., 8)
        cube.val = (base[:, None, :] * frac[None, :, None]) * u.mJy
    else:
        cube.apertures = None
        cube.val = base[:, None, :] * u.mJy
    cube.unc = cube.val * 0.01
    cube.write(os.path.join(models_dir, 'flux.fits'))
    with open(os.path.join(models_dir, 'models.conf'), 'w') as f:
        f.write("name = test\n")
        f.write("length_subdir = 0\n")
        f.write("aperture_dependent = {0}\n".format('yes' if aperture_dependent else 'no'))
        f.write("logd_step = 0.05\n")
        f.write("version = 2\n")
    t = Table()
    t['MODEL_NAME'] = np.array(cube.names, dtype='S')
    t['par1'] = rng.random_sample(N_MODELS) + 0.1
    t['par2'] = rng.random_sample(N_MODELS) + 0.1
    t = t[rng.permutation(N_MODELS)]
    t.write(os.path.join(models_dir, 'parameters.fits'))


FILTERS = [1.2 * u.micron, 3.4 * u.micron, 8.0 * u.micron, 22. * u.micron]
APERTURES = [1., 2., 3., 3.] * u.arcsec
NF = len(FILTERS)

EXT = Extinction()
EXT.wav = np.logspace(-2., 3., 40) * u.micron
EXT.chi = EXT.wav.value ** -1.5 * 200. * u.cm ** 2 / u.g

DIST = [1., 2.] * u.kpc
AV = [0., 5.]

# ---------------------------------------------------------------------------
# Data files
# ---------------------------------------------------------------------------


def make_line(rng, name, flags=None):
    if flags is None:
        flags = rng.choice([0, 1, 1, 1, 2, 3, 4, 9], size=NF)
    cols = [name, '%.5f' % rng.uniform(0, 360), '%.5f' % rng.uniform(-90, 90)]
    cols += ['%d' % f for f in flags]
    for j, f in enumerate(flags):
        val = 10 ** rng.uniform(-0.5, 1.5)
        if f == 0:
            cols += ['0.0', '0.0']
        elif f == 1:
            cols += ['%.4e' % val, '%.4e' % (val * rng.uniform(0.05, 0.2))]
        elif f in (2, 3):
            cols += ['%.4e' % val, '%.3f' % rng.uniform(0.5, 0.99)]
        elif f == 4:
            cols += ['%.5f' % np.log10(val), '%.4f' % rng.uniform(0.02, 0.1)]
        else:
            if rng.rand() < 0.5:
                cols += ['-999.', '-999.']
            else:
                cols += ['%.4e' % val, '%.4e' % (val * 0.1)]
    return ' '.join(cols)


def make_lines(rng, n, tag):
    lines = [make_line(rng, '%s_src%02d' % (tag, i)) for i in range(n)]
    # make sure that at least one source has all points usable
    k = rng.randint(n)
    lines[k] = make_line(rng, '%s_src%02d' % (tag, k), flags=rng.choice([1, 4], size=NF))
    return lines


def n_data_from_text(line):
    cols = line.split()
    nw = (len(cols) - 3) // 3
    return sum(1 for c in cols[3:3 + nw] if c in ('1', '4'))


# ---------------------------------------------------------------------------
# Independent selector and comparison helpers
# ---------------------------------------------------------------------------


def n_selected(chi2, n_data, select_format):
    form, number = select_format
    chi2 = np.asarray(chi2, float)
    if len(chi2) == 0:
        return 0
    count = 0
    if form == 'A':
        return len(chi2)
    if form == 'N':
        return min(int(number), len(chi2))
    for c in chi2:
        if form == 'C':
            ok = c <= number
        elif form == 'D':
            ok = c - chi2[0] <= number
        elif form == 'E':
            ok = c / n_data <= number
        elif form == 'F':
            ok = (c - chi2[0]) / n_data <= number
        count += bool(ok)
    return count


def same_array(a, b):
    if a is None or b is None:
        return a is None and b is None
    a = np.asarray(a)
    b = np.asarray(b)
    if a.shape != b.shape:
        return False
    if a.dtype.kind in 'fc':
        return bool(np.array_equal(np.asarray(a, float), np.asarray(b, float), equal_nan=True))
    return bool(np.array_equal(a, b))


def same_source(s, line):
    cols = line.split()
    nw = (len(cols) - 3) // 3
    valid = np.array([int(c) for c in cols[3:3 + nw]])
    rest = [float(c) for c in cols[3 + nw:]]
    return (s.name == cols[0] and s.x == float(cols[1]) and s.y == float(cols[2]) and
            same_array(s.valid, valid) and same_array(s.flux, rest[0::2]) and
            same_array(s.error, rest[1::2]))


def snapshot(info):
    return dict(av=np.array(info.av, float), sc=np.array(info.sc, float),
                chi2=np.array(info.chi2, float), model_id=np.array(info.model_id),
                model_name=np.array(info.model_name),
                model_fluxes=None if info.model_fluxes is None else np.array(info.model_fluxes, float),
                source=(info.source.name, info.source.x, info.source.y,
                        np.array(info.source.valid), np.array(info.source.flux),
                        np.array(info.source.error)),
                meta=(info.meta.model_dir, len(info.meta.filters)))


def same_snapshot(a, b):
    for k in ('av', 'sc', 'chi2', 'model_id', 'model_name', 'model_fluxes'):
        if not same_array(a[k], b[k]):
            return False
    if a['source'][:3] != b['source'][:3]:
        return False
    for i in (3, 4, 5):
        if not same_array(a['source'][i], b['source'][i]):
            return False
    return a['meta'] == b['meta']


def expected_records(fitter, lines, n_data_min, select_format, output_convolved):
    """
    What the object interface gives, cut with the independent selector
    """
    out = []
    for line in lines:
        if n_data_from_text(line) < n_data_min:
            continue
        src = Source.from_ascii(line)
        info = fitter.fit(src)
        nd = n_data_from_text(line)
        chi2 = np.asarray(info.chi2, float)
        n = n_selected(chi2, nd, select_format)
        out.append(dict(line=line,
                        av=np.asarray(info.av, float)[:n],
                        sc=np.asarray(info.sc, float)[:n],
                        chi2=chi2[:n],
                        model_id=np.asarray(info.model_id)[:n],
                        model_name=np.asarray(info.model_name)[:n],
                        model_fluxes=np.asarray(info.model_fluxes, float)[:n] if output_convolved else None,
                        n_full=len(chi2)))
    return out


def check_record(info, exp, what):
    check(same_source(info.source, exp['line']), what + ': source differs')
    for k in ('av', 'sc', 'chi2', 'model_id', 'model_name', 'model_fluxes'):
        check(same_array(getattr(info, k), exp[k]), what + ': %s differs' % k)
    check(info.n_fits == len(exp['chi2']), what + ': n_fits')


def check_meta(meta, models_dir, what):
    check(str(meta.model_dir) == str(models_dir), what + ': model_dir')
    check(len(meta.filters) == NF, what + ': number of filters')
    for j, f in enumerate(meta.filters):
        check(f['aperture_arcsec'] == APERTURES[j].to(u.arcsec).value, what + ': aperture')
        check(f['wav'].unit.is_equivalent(u.m) and f['wav'].to(u.micron).value == FILTERS[j].to(u.micron).value, what + ': wav')
        check('name' not in f, what + ': name')
    law = meta.extinction_law
    check(law.wav.unit == EXT.wav.unit and same_array(law.wav.value, EXT.wav.value), what + ': law wav')
    check(law.chi.unit == EXT.chi.unit and same_array(law.chi.value, EXT.chi.value), what + ': law chi')


def raw_read(path):
    """
    Independent reader: three metadata pickles followed by one pickle per record
    """
    with open(path, 'rb') as f:
        head = [pickle.load(f) for _ in range(3)]
        recs = []
        while True:
            try:
                recs.append(pickle.load(f))
            except EOFError:
                break
    return head, recs


def run_fit(data, models_dir, output, n_data_min, select_format, output_convolved):
    with quiet():
        fit(data, FILTERS, APERTURES, models_dir, output,
            n_data_min=n_data_min, extinction_law=EXT, av_range=AV,
            distance_range=DIST, output_format=select_format,
            output_convolved=output_convolved)


def check_fit_output(output, fitter, models_dir, lines, n_data_min, select_format, output_convolved, what):
    exp = expected_records(fitter, lines, n_data_min, select_format, output_convolved)
    if len(exp) == 0:
        # nothing is claimed about a run that writes no record
        return None
    # 1. through the library reader
    fin = FitInfoFile(output, 'r')
    check_meta(fin.meta, models_dir, what + ' [reader meta]')
    got = list(fin)
    fin.close()
    check(len(got) == len(exp), what + ': %d records instead of %d' % (len(got), len(exp)))
    for k, (info, e) in enumerate(zip(got, exp)):
        check_record(info, e, what + ' [record %d]' % k)
        check(info.meta is fin.meta or info.meta == fin.meta, what + ': record meta')
        check_meta(info.meta, models_dir, what + ' [record meta]')
    # 2. through bare pickle
    head, recs = raw_read(output)
    check(str(head[0]) == str(models_dir), what + ': raw model_dir')
    check(len(head[1]) == NF, what + ': raw filters')
    check(same_array(head[2].wav.value, EXT.wav.value) and same_array(head[2].chi.value, EXT.chi.value), what + ': raw law')
    check(len(recs) == len(exp), what + ': raw count')
    for k, (info, e) in enumerate(zip(recs, exp)):
        check_record(info, e, what + ' [raw record %d]' % k)
    return got


# ---------------------------------------------------------------------------
# Post-processing
# ---------------------------------------------------------------------------


def parse_write_parameters(path):
    lines = open(path).read().split('\n')
    body = [l for l in lines[3:] if l.strip() != '']
    out = []
    i = 0
    while i < len(body):
        cols = body[i].split()
        name, nd, nf = cols[0], int(cols[1]), int(cols[2])
        rows = [body[i + 1 + k].split() for k in range(nf)]
        out.append((name, nd, nf, rows))
        i += 1 + nf
    return out


def postprocess_once(kind, inp, select_format):
    """
    Run one post-processing function and return its complete output as text
    """
    if kind == 'wp':
        out = fresh('wp')
        write_parameters(inp, out, select_format=select_format)
        return open(out).read()
    elif kind == 'wr':
        out = fresh('wr')
        write_parameter_ranges(inp, out, select_format=select_format)
        return open(out).read()
    elif kind == 'ex':
        d = fresh('ex')
        os.mkdir(d)
        extract_parameters(input=inp, output_prefix=d + '/', select_format=select_format)
        return '\n'.join(os.path.basename(p) + '\n' + open(p).read() for p in sorted(glob.glob(d + '/*')))
    elif kind == 'p1':
        from sedfitter.plot_params_1d import plot_params_1d
        d = fresh('p1d')
        with quiet():
            plot_params_1d(inp, 'par1', output_dir=d, select_format=select_format, format='png')
        return '\n'.join(sorted(os.path.basename(p) for p in glob.glob(d + '/*')))


def check_postprocessing(output, lines_eligible, sequence, what):
    """
    sequence : list of (kind, selector); run on the file, on a list of results
    and (record by record) on single results vs one-element lists.
    """
    results = list(FitInfoFile(output, 'r'))
    before = [snapshot(r) for r in results]

    out_file = [postprocess_once(k, output, sel) for k, sel in sequence]
    out_list = [postprocess_once(k, results, sel) for k, sel in sequence]
    out_tuple = [postprocess_once(k, tuple(results), sel) for k, sel in sequence]
    check(out_file == out_list, what + ': file and list forms differ')
    check(out_file == out_tuple, what + ': file and tuple forms differ')
    for r, b in zip(results, before):
        check(same_snapshot(snapshot(r), b), what + ': results modified by post-processing (list form)')

    if len(results) == 1:
        out_single = [postprocess_once(k, results[0], sel) for k, sel in sequence]
        check(out_file == out_single, what + ': file and single forms differ')
    for r in results[:3]:
        o1 = [postprocess_once(k, r, sel) for k, sel in sequence]
        o2 = [postprocess_once(k, [r], sel) for k, sel in sequence]
        check(o1 == o2, what + ': single and one-element list forms differ')
    for r, b in zip(results, before):
        check(same_snapshot(snapshot(r), b), what + ': results modified by post-processing (single form)')

    # the same sequence in reverse order gives the same outputs call by call
    out_rev = [postprocess_once(k, results, sel) for k, sel in sequence[::-1]][::-1]
    check(out_rev == out_list, what + ': outputs depend on the order of the calls')

    # independent check of the content of write_parameters
    for (k, sel), text in zip(sequence, out_list):
        if k != 'wp':
            continue
        p = fresh('wpcheck')
        open(p, 'w').write(text)
        parsed = parse_write_parameters(p)
        check(len(parsed) == len(results), what + ': write_parameters number of sources')
        for (name, nd, nf, rows), b in zip(parsed, before):
            check(name == b['source'][0], what + ': write_parameters source order')
            nd_exp = int(np.sum((b['source'][3] == 1) | (b['source'][3] == 4)))
            check(nd == nd_exp, what + ': write_parameters n_data')
            n_exp = n_selected(b['chi2'], nd_exp, sel)
            check(nf == n_exp, what + ': write_parameters n_fits %d vs %d' % (nf, n_exp))
            for i, row in enumerate(rows):
                check(row[1] == str(b['model_name'][i]).strip(), what + ': write_parameters model name')
                check(row[2] == ('%10.3f' % b['chi2'][i]).strip(), what + ': write_parameters chi2')


# ---------------------------------------------------------------------------
# Main
# ---------------------------------------------------------------------------

def main():

    rng = np.random.RandomState(20240607)

    model_dirs = []
    for apdep in (False, True):
        d = os.path.join(TMP, 'models_%s' % ('apdep' if apdep else 'apind'))
        build_models(d, apdep, seed=7 + int(apdep))
        model_dirs.append(d)

    selectors = [('A', 0), ('N', 3), ('N', 1), ('N', 0), ('N', 100), ('C', 40.), ('D', 15.),
                 ('E', 10.), ('F', 3.), ('F', 0.), ('C', -1.)]

    sizes = [1, 2, 3, 5, 6, 7, 10, 11, 12, 4, 8, 9]

    icase = 0
    kept_outputs = []
    fitters = []

    for models_dir in model_dirs:

        with quiet():
            fitter = Fitter(FILTERS, APERTURES, models_dir, extinction_law=EXT,
                            av_range=AV, distance_range=DIST)

        fitters.append(fitter)

        # second call on the same fitter and the same source gives the same thing
        ln = make_line(rng, 'twice', flags=[1, 1, 4, 1])
        a = fitter.fit(Source.from_ascii(ln))
        b = fitter.fit(Source.from_ascii(ln))
        check(same_snapshot(snapshot(a), snapshot(b)), 'two calls of Fitter.fit differ')
        check_meta(a.meta, models_dir, 'Fitter.fit meta')
        check(a.meta == b.meta, 'meta of two results of the same fitter do not compare equal')

        for n in sizes:

            lines = make_lines(rng, n, 'c%02d' % icase)
            sel = selectors[icase % len(selectors)]
            conv = bool(icase % 2)
            n_data_min = [3, 1, 4, 2, 0, 5][icase % 6]
            icase += 1

            data = fresh('data')
            # alternate the legal forms of the end of the file
            ending = ['\n', '', '\n\n', '\n   \n'][icase % 4]
            open(data, 'w').write('\n'.join(lines) + ending)

            output = fresh('fits')
            run_fit(data, models_dir, output, n_data_min, sel, conv)
            what = 'case %d (n=%d, n_data_min=%d, sel=%s, conv=%s)' % (icase, n, n_data_min, sel, conv)
            got = check_fit_output(output, fitter, models_dir, lines, n_data_min, sel, conv, what)
            if got is not None:
                kept_outputs.append((output, what))

            # the data given as an open file or as a file-like object
            if icase % 3 == 0:
                output2 = fresh('fits')
                with open(data, 'r') as fh:
                    run_fit(fh, models_dir, output2, n_data_min, sel, conv)
                got = check_fit_output(output2, fitter, models_dir, lines, n_data_min, sel, conv, what + ' [open file]')
                output3 = fresh('fits')
                run_fit(io.StringIO('\n'.join(lines) + ending), models_dir, output3, n_data_min, sel, conv)
                got = check_fit_output(output3, fitter, models_dir, lines, n_data_min, sel, conv, what + ' [StringIO]')
                if got is not None:
                    check(open(output2, 'rb').read() == open(output3, 'rb').read(), what + ': open file and StringIO give different files')

            # a second run on the same data file into another output gives the same bytes
            if icase % 4 == 0:
                output4 = fresh('fits')
                run_fit(data, models_dir, output4, n_data_min, sel, conv)
                check(open(output, 'rb').read() == open(output4, 'rb').read(), what + ': second run differs')

        # boundary: n_data_min equal to the number of filters, all selectors, 12 sources
        lines = make_lines(rng, 12, 'bound')
        data = fresh('data')
        open(data, 'w').write('\n'.join(lines) + '\n')
        for sel in selectors:
            for conv in (False, True):
                output = fresh('fits')
                run_fit(data, models_dir, output, NF, sel, conv)
                check_fit_output(output, fitter, models_dir, lines, NF, sel, conv, 'boundary %s %s' % (sel, conv))

        # data file as a pathlib.Path (accepted or refused, never a wrong result)
        output = fresh('fits')
        try:
            run_fit(pathlib.Path(data), models_dir, pathlib.Path(output), 2, ('N', 4), True)
        except Exception:
            pass
        else:
            check_fit_output(output, fitter, models_dir, lines, 2, ('N', 4), True, 'pathlib input')
            try:
                got = list(FitInfoFile(pathlib.Path(output), 'r'))
            except TypeError:
                pass
            else:
                exp = expected_records(fitter, lines, 2, ('N', 4), True)
                check(len(got) == len(exp), 'pathlib reader count')
                for info, e in zip(got, exp):
                    check_record(info, e, 'pathlib reader')

        # the attributes of the fitter are what ends up in the results, also
        # when they are replaced after construction
        other_dir = models_dir + '_link'
        os.symlink(models_dir, other_dir)
        old = fitter.model_dir
        fitter.model_dir = other_dir
        c = fitter.fit(Source.from_ascii(ln))
        check(c.meta.model_dir == other_dir, 'model_dir replaced on the fitter is not reported')
        check(a.meta.model_dir == old, 'earlier result changed when the fitter was modified')
        check(not (c.meta == a.meta), 'results with different model_dir compare equal')
        fitter.model_dir = old
        c = fitter.fit(Source.from_ascii(ln))
        check(c.meta.model_dir == old and c.meta == a.meta, 'model_dir restored')
        try:
            FitInfoFile([a, fitter.fit(Source.from_ascii(ln))], 'r')
        except ValueError:
            check(False, 'list of results of one fitter refused')

        # write -> read of results of the object interface, and a file written
        # by hand with pickle protocol 2 (old files stay readable)
        infos = [fitter.fit(Source.from_ascii(l)) for l in lines[:5]]
        for i, info in enumerate(infos):
            info.keep([('A', 0), ('N', 2), ('F', 2.), ('N', 0), ('D', 30.)][i])
        snaps = [snapshot(i) for i in infos]
        path = fresh('own')
        fout = FitInfoFile(path, 'w')
        for info in infos:
            fout.write(info)
        fout.close()
        back = list(FitInfoFile(path, 'r'))
        check(len(back) == 5, 'write/read count')
        for info, s in zip(back, snaps):
            check(same_snapshot(snapshot(info), s), 'write/read record')
        for info, s in zip(infos, snaps):
            check(same_snapshot(snapshot(info), s), 'written objects changed')
        path2 = fresh('hand')
        with open(path2, 'wb') as f:
            pickle.dump(models_dir, f, 2)
            pickle.dump(fitter.filters, f, 2)
            pickle.dump(EXT, f, 2)
            for info in infos:
                pickle.dump(info, f, 2)
        fin = FitInfoFile(path2, 'r')
        check_meta(fin.meta, models_dir, 'hand-written file meta')
        back = list(fin)
        fin.close()
        check(len(back) == 5, 'hand-written count')
        for info, s in zip(back, snaps):
            check(same_snapshot(snapshot(info), s), 'hand-written record')
        # reading twice gives the same
        back2 = list(FitInfoFile(path, 'r'))
        for i1, i2 in zip(back, back2):
            check(same_snapshot(snapshot(i1), snapshot(i2)), 'two reads differ')

        # filter_output keeps records unchanged
        path3 = fresh('nonempty')
        fout = FitInfoFile(path3, 'w')
        for info in infos:
            if info.n_fits > 0:
                fout.write(info)
        fout.close()
        good, bad = fresh('good'), fresh('bad')
        filter_output(path3, output_good=good, output_bad=bad, cpd=3.)
        r_good = list(FitInfoFile(good, 'r')) if os.path.getsize(good) else []
        r_bad = list(FitInfoFile(bad, 'r')) if os.path.getsize(bad) else []
        check(len(r_good) + len(r_bad) == 4, 'filter_output count')
        for info in r_good + r_bad:
            match = [s for s in snaps if s['source'][0] == info.source.name]
            check(len(match) == 1 and same_snapshot(snapshot(info), match[0]), 'filter_output record')

    # results of two fitters, interleaved: each result reports its own fitter,
    # selecting fits on one result leaves the others alone, and results of
    # different fitters cannot be mixed in one list or one file
    fa, fb = fitters
    lines = make_lines(rng, 6, 'mix')
    ra = [fa.fit(Source.from_ascii(l)) for l in lines]
    rb = []
    for i, l in enumerate(lines):
        rb.append(fb.fit(Source.from_ascii(l)))
        ra[i].keep(('N', i))
        check_meta(ra[i].meta, model_dirs[0], 'interleaved meta a')
        check_meta(rb[i].meta, model_dirs[1], 'interleaved meta b')
    full = [snapshot(fa.fit(Source.from_ascii(l))) for l in lines]
    for i in range(6):
        n = min(i, N_MODELS)
        check(ra[i].n_fits == n, 'interleaved keep n_fits')
        for k in ('av', 'sc', 'chi2', 'model_id', 'model_name', 'model_fluxes'):
            check(same_array(getattr(ra[i], k), full[i][k][:n]), 'interleaved keep ' + k)
        check(rb[i].n_fits == N_MODELS, 'keep on one result changed another one')
        # a second, looser selection on an already cut result changes nothing
        before = snapshot(ra[i])
        ra[i].keep(('A', 0))
        ra[i].keep(('N', 50))
        check(same_snapshot(snapshot(ra[i]), before), 'second keep changed a result')
    for bad in ([ra[0], rb[0]], [ra[0], ra[1], rb[2]]):
        try:
            FitInfoFile(bad, 'r')
        except ValueError:
            pass
        else:
            check(False, 'results of different fitters accepted in one list')
    path = fresh('mixed')
    fout = FitInfoFile(path, 'w')
    fout.write(ra[1])
    fout.write(ra[2])
    try:
        fout.write(rb[1])
    except ValueError:
        pass
    else:
        check(False, 'results of different fitters accepted in one file')
    fout.close()
    back = list(FitInfoFile(path, 'r'))
    check(len(back) == 2 and same_snapshot(snapshot(back[0]), snapshot(ra[1])) and
          same_snapshot(snapshot(back[1]), snapshot(ra[2])), 'file after refused record')
    # list of results of one fitter (cut differently) through post-processing
    t1 = postprocess_once('wp', ra[1:], ('A', 0))
    t2 = postprocess_once('wp', path, ('A', 0))
    check(t1.split('\n')[:3 + 1 + 1 + 1 + 2] == t2.split('\n')[:3 + 1 + 1 + 1 + 2], 'list of cut results vs file')

    # post-processing on a few of the outputs
    sequences = [
        [('wp', ('N', 2)), ('wp', ('A', 0)), ('wr', ('F', 3.))],
        [('ex', ('N', 1)), ('wr', ('A', 0)), ('wp', ('D', 20.))],
        [('wr', ('N', 0)), ('ex', ('C', 50.)), ('ex', ('A', 0))],
        [('wp', ('E', 8.)), ('wp', ('N', 100))],
        [('wr', ('A', 0))],
    ]
    n_pp = 0
    for i, (output, what) in enumerate(kept_outputs):
        if i % 3 != 0:
            continue
        check_postprocessing(output, None, sequences[n_pp % len(sequences)], 'post-processing of ' + what)
        n_pp += 1
    # one plotting consumer, on the smallest output
    output, what = kept_outputs[0]
    check_postprocessing(output, None, [('p1', ('N', 2)), ('wp', ('A', 0)), ('p1', ('A', 0))], 'plot post-processing of ' + what)

    shutil.rmtree(TMP, ignore_errors=True)
    print("demo %s: all %d checks passed" % (FOCUS, N_CHECKS[0]))


main()
