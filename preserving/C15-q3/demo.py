import sys, os; sys.path.insert(0, os.getcwd())
# Demonstration for property C15 (flux unit conversions consistent and
# invertible).  Self-contained: builds SED FITS files by hand with
# astropy.io.fits, reads them with SED.read in every requested unit and
# compares with a plain float64 numpy computation.
import itertools
import pathlib
import shutil
import tempfile
import warnings

import numpy as np
from astropy import units as u
from astropy.io import fits

import sedfitter
assert os.path.abspath(sedfitter.__file__).startswith(os.getcwd()), sedfitter.__file__
from sedfitter.sed import SED
from sedfitter.sed.helpers import convert_flux, parse_unit_safe, UNIT_MAPPING

warnings.simplefilter('ignore')

CGS = u.erg / u.cm ** 2 / u.s
UNITS = {
    'mJy': u.mJy,
    'Jy': u.Jy,
    'erg/cm^2/s': CGS,
    'erg/s': u.erg / u.s,
    'W/m^2': u.W / u.m ** 2,
}
# how each unit is spelled in the TUNIT keyword (several legal spellings)
FITS_SPELLINGS = {
    'mJy': ['mJy', 'MJY'],
    'Jy': ['Jy'],
    'erg/cm^2/s': ['erg cm-2 s-1', 'ergs/cm^2/s', 'erg/cm^2/s'],
    'erg/s': ['erg s-1', 'erg/s'],
    'W/m^2': ['W m-2', 'W/m^2'],
}
KPC_CM = 3.0856775814913673e21

RTOL = 1e-12


# ---------------------------------------------------------------- reference
def to_cgs(name, values, nu_hz, d_cm):
    """plain numpy: stored values -> nu*F_nu in erg/cm^2/s"""
    values = np.asarray(values, dtype=np.float64)
    if name == 'mJy':
        return values * 1e-26 * nu_hz
    if name == 'Jy':
        return values * 1e-23 * nu_hz
    if name == 'erg/cm^2/s':
        return values
    if name == 'W/m^2':
        return values * 1e3
    if name == 'erg/s':
        return values / d_cm ** 2
    raise KeyError(name)


def from_cgs(name, values, nu_hz, d_cm):
    if name == 'mJy':
        return values / nu_hz / 1e-26
    if name == 'Jy':
        return values / nu_hz / 1e-23
    if name == 'erg/cm^2/s':
        return values
    if name == 'W/m^2':
        return values / 1e3
    if name == 'erg/s':
        return values * d_cm ** 2
    raise KeyError(name)


def reference(stored, requested, values, nu_hz, d_cm):
    return from_cgs(requested, to_cgs(stored, values, nu_hz, d_cm), nu_hz, d_cm)


# ---------------------------------------------------------------- files
def write_sed_file(filename, nu_hz, flux, err, flux_unit, err_unit=None,
                   distance_cm=None, dtype='>f4', legacy_spectral=False,
                   name='demo_model'):
    nu_hz = np.asarray(nu_hz, dtype=np.float64)
    wav = 2.99792458e14 / nu_hz  # micron
    n_ap, n_wav = flux.shape
    hdu0 = fits.PrimaryHDU()
    hdu0.header['MODEL'] = name
    if distance_cm is not None:
        hdu0.header['DISTANCE'] = distance_cm
    hdu0.header['NAP'] = n_ap
    hdu0.header['NWAV'] = n_wav
    t1 = np.zeros(n_wav, dtype=[('WAVELENGTH', dtype), ('FREQUENCY', dtype)])
    t1['WAVELENGTH'] = wav
    t1['FREQUENCY'] = nu_hz
    hdu1 = fits.BinTableHDU(t1)
    hdu1.columns[0].unit = 'MICRONS' if legacy_spectral else 'um'
    hdu1.columns[1].unit = 'HZ' if legacy_spectral else 'Hz'
    hdu1.header['EXTNAME'] = 'WAVELENGTHS'
    t2 = np.zeros(n_ap, dtype=[('APERTURE', dtype)])
    t2['APERTURE'] = 100. * (1 + np.arange(n_ap)) ** 2
    hdu2 = fits.BinTableHDU(t2)
    hdu2.columns[0].unit = 'AU'
    hdu2.header['EXTNAME'] = 'APERTURES'
    t3 = np.zeros(n_ap, dtype=[('TOTAL_FLUX', dtype, (n_wav,)),
                               ('TOTAL_FLUX_ERR', dtype, (n_wav,))])
    t3['TOTAL_FLUX'] = flux
    t3['TOTAL_FLUX_ERR'] = err
    hdu3 = fits.BinTableHDU(t3)
    hdu3.columns[0].unit = flux_unit
    hdu3.columns[1].unit = flux_unit if err_unit is None else err_unit
    hdu3.header['EXTNAME'] = 'SEDS'
    fits.HDUList([hdu0, hdu1, hdu2, hdu3]).writeto(filename, overwrite=True)
    # what is really in the file (after rounding to the storage dtype)
    with fits.open(filename, memmap=False) as h:
        return (np.array(h[1].data['FREQUENCY'], dtype=np.float64),
                np.array(h[3].data['TOTAL_FLUX'], dtype=np.float64).reshape(n_ap, n_wav),
                np.array(h[3].data['TOTAL_FLUX_ERR'], dtype=np.float64).reshape(n_ap, n_wav))


def typical_values(name, rng, shape, nu_hz, d_cm):
    """values of a realistic magnitude for the stored unit"""
    base = 10. ** rng.uniform(-13, -8, size=shape)   # erg/cm^2/s
    return from_cgs(name, base, nu_hz, d_cm)


def check_close(actual, expected, what, rtol=RTOL):
    actual = np.asarray(actual, dtype=np.float64)
    expected = np.asarray(expected, dtype=np.float64)
    assert actual.shape == expected.shape, (what, actual.shape, expected.shape)
    assert np.all(np.isfinite(expected)), what
    np.testing.assert_allclose(actual, expected, rtol=rtol, atol=0, err_msg=what)


N_CHECKS = [0]


def check_read(filename, stored, stored_err, nu_file, f_file, e_file, d_cm,
               order='nu', requested_list=None):
    """read filename in every unit and compare with the reference"""
    asc = nu_file[0] <= nu_file[-1]
    flip = (order == 'nu' and not asc) or (order == 'wav' and asc and len(nu_file) > 1)
    # for order == 'wav' wavelengths must increase = frequencies decrease
    if order == 'wav':
        flip = asc and nu_file[0] != nu_file[-1]
    results = {}
    for requested in (requested_list or UNITS):
        sed = SED.read(filename, unit_flux=UNITS[requested], order=order)
        exp_f = reference(stored, requested, f_file, nu_file, d_cm)
        exp_e = reference(stored_err, requested, e_file, nu_file, d_cm)
        exp_nu = nu_file
        if flip:
            exp_f, exp_e, exp_nu = exp_f[:, ::-1], exp_e[:, ::-1], exp_nu[::-1]
        what = '%s: %s -> %s (order=%s)' % (os.path.basename(str(filename)), stored, requested, order)
        assert sed.flux.unit == UNITS[requested], what
        assert sed.error.unit == UNITS[requested], what
        assert sed.flux.dtype == np.float64 and sed.error.dtype == np.float64, what
        check_close(sed.nu.to(u.Hz).value, exp_nu, what + ' nu')
        check_close(sed.flux.value, exp_f, what + ' flux')
        check_close(sed.error.value, exp_e, what + ' error')
        check_close(sed.distance.to(u.cm).value, d_cm, what + ' distance')
        results[requested] = sed
        N_CHECKS[0] += 1
    # relations between families, from the library's own outputs:
    # F(cgs) = nu * F_nu and L = F * d^2
    if requested_list is None:
        nu_sorted = results['Jy'].nu.to(u.Hz).value
        fcgs = results['erg/cm^2/s'].flux.value
        check_close(results['Jy'].flux.value * 1e-23 * nu_sorted, fcgs, 'F = nu F_nu')
        check_close(results['mJy'].flux.value * 1e-26 * nu_sorted, fcgs, 'F = nu F_nu (mJy)')
        check_close(results['erg/s'].flux.value, fcgs * d_cm ** 2, 'L = F d^2')
        check_close(results['W/m^2'].flux.value * 1e3, fcgs, 'W/m^2')
        check_close(results['erg/s'].error.value, results['erg/cm^2/s'].error.value * d_cm ** 2, 'L = F d^2 (err)')
    return results


def expect_refused(func, what):
    try:
        func()
    except Exception as exc:   # any refusal will do
        return exc
    raise AssertionError('not refused: ' + what)


# ---------------------------------------------------------------- main
def main(extra=None):
    rng = np.random.default_rng(20240915)
    tmpdir = tempfile.mkdtemp(prefix='demo_C15_')
    try:
        grids = {
            'asc': np.logspace(11.5, 15.2, 17),
            'desc': np.logspace(15.2, 11.5, 23),
            'irregular': np.sort(10. ** rng.uniform(10, 16, size=9)),
            'single': np.array([3.0e13]),            # boundary: one frequency
            'two': np.array([5.0e14, 1.0e12]),
        }
        distances = [None, KPC_CM, 4.3 * KPC_CM, 1.4959787e13, 2.5e25]
        case = 0
        files = []
        for stored in UNITS:
            for gname, nu in grids.items():
                n_ap = 1 + case % 5
                d_cm = distances[case % len(distances)]
                d_eff = KPC_CM if d_cm is None else d_cm
                spell = FITS_SPELLINGS[stored][case % len(FITS_SPELLINGS[stored])]
                dtype = '>f4' if case % 3 else '>f8'
                # (case % 3 == 0 -> double precision files; others single, as
                # the model packages)
                flux = typical_values(stored, rng, (n_ap, len(nu)), nu, d_eff)
                err = flux * rng.uniform(0.01, 0.3, size=flux.shape)
                if dtype == '>f4' and stored == 'erg/s' and flux.max() > 3e38:
                    dtype = '>f8'   # would overflow single precision
                fn = os.path.join(tmpdir, 'sed_%02d_%s.fits' % (case, gname))
                nu_file, f_file, e_file = write_sed_file(
                    fn, nu, flux, err, spell, distance_cm=d_cm, dtype=dtype,
                    legacy_spectral=bool(case % 2))
                files.append((fn, stored, nu_file, f_file, e_file, d_eff))
                check_read(fn, stored, stored, nu_file, f_file, e_file, d_eff, order='nu')
                if case % 2:
                    check_read(fn, stored, stored, nu_file, f_file, e_file, d_eff, order='wav')
                case += 1

        # second call on the same files gives the same values, bit for bit
        for fn, stored, nu_file, f_file, e_file, d_eff in files[::3]:
            for requested in UNITS:
                a = SED.read(fn, unit_flux=UNITS[requested])
                b = SED.read(fn, unit_flux=UNITS[requested])
                assert np.array_equal(a.flux.value, b.flux.value)
                assert np.array_equal(a.error.value, b.error.value)
                assert a == b

        # unusual but legal: pathlib.Path file name, gzipped file found
        # through the name without .gz, flux and error columns stored in
        # DIFFERENT units, zero and negative fluxes, composite unit objects
        fn, stored, nu_file, f_file, e_file, d_eff = files[7]
        check_read(pathlib.Path(fn), stored, stored, nu_file, f_file, e_file, d_eff)
        gz = os.path.join(tmpdir, 'zipped.fits')
        nu = grids['desc']
        flux = typical_values('Jy', rng, (3, len(nu)), nu, 2 * KPC_CM)
        flux[0, 0] = 0.
        flux[1, 3] = -flux[1, 3]
        err_cgs = to_cgs('Jy', 0.1 * np.abs(flux), nu, 2 * KPC_CM)
        nu_file, f_file, e_file = write_sed_file(gz + '.gz', nu, flux, err_cgs, 'Jy',
                                                 err_unit='erg cm-2 s-1',
                                                 distance_cm=2 * KPC_CM, dtype='>f8')
        assert not os.path.exists(gz)
        check_read(gz, 'Jy', 'erg/cm^2/s', nu_file, f_file, e_file, 2 * KPC_CM)
        check_read(gz, 'Jy', 'erg/cm^2/s', nu_file, f_file, e_file, 2 * KPC_CM, order='wav')
        sed = SED.read(gz, unit_flux=u.Unit('1e-3 Jy'))   # scaled unit object
        check_close(sed.flux.to(u.mJy).value,
                    reference('Jy', 'mJy', f_file, nu_file, 2 * KPC_CM)[:, ::-1], 'scaled unit')
        sed = SED.read(gz, unit_flux=u.Lsun)               # another luminosity unit
        check_close(sed.flux.value * 3.828e33,
                    reference('Jy', 'erg/s', f_file, nu_file, 2 * KPC_CM)[:, ::-1], 'Lsun', rtol=1e-9)

        # A -> B -> A is the identity, A -> B -> C equals A -> C, through
        # files (SED.write / SED.read) ...
        for fn, stored, nu_file, f_file, e_file, d_eff in files[1::4]:
            direct = dict((c, SED.read(fn, unit_flux=UNITS[c])) for c in UNITS)
            for b in UNITS:
                via = os.path.join(tmpdir, 'via.fits')
                direct[b].write(via, overwrite=True)
                for c in UNITS:
                    sed_c = SED.read(via, unit_flux=UNITS[c])
                    what = 'chain %s -> %s -> %s' % (stored, b, c)
                    check_close(sed_c.flux.value, direct[c].flux.value, what)
                    check_close(sed_c.error.value, direct[c].error.value, what)
                    check_close(sed_c.nu.value, direct[c].nu.value, what)
                    if c == stored:   # back to the stored unit: the file values
                        exp = f_file if nu_file[0] <= nu_file[-1] else f_file[:, ::-1]
                        check_close(sed_c.flux.value, exp, what + ' (identity)')
        # ... and directly with convert_flux, on Quantities of all kinds
        nu = grids['irregular'] * u.Hz
        for n_ap in range(1, 6):
            for d in [1. * u.kpc, 3.1e21 * u.cm, 140. * u.pc, 206265. * u.au]:
                d_cm = d.to(u.cm).value
                for a, b, c in itertools.product(UNITS, repeat=3):
                    va = typical_values(a, rng, (n_ap, len(nu)), nu.value, d_cm)
                    qa = va * UNITS[a]
                    qb = convert_flux(nu, qa, UNITS[b], distance=d)
                    assert qb.unit == UNITS[b] and qb.dtype == np.float64
                    check_close(qb.value, reference(a, b, va, nu.value, d_cm), 'convert %s->%s' % (a, b))
                    qc = convert_flux(nu, qb, UNITS[c], distance=d)
                    qc_direct = convert_flux(nu, qa, UNITS[c], distance=d)
                    check_close(qc.value, qc_direct.value, 'convert %s->%s->%s' % (a, b, c))
                    if c == a:
                        check_close(qc.value, va, 'convert %s->%s->%s identity' % (a, b, c))
                    # input must not be modified
                    assert np.array_equal(qa.value, va)
        # 1-d flux, single-precision input, frequencies in another unit
        va32 = np.array([1.5, 2.5, 4.0], dtype=np.float32)
        nug = np.array([100., 200., 400.], dtype=np.float32) * u.GHz
        out = convert_flux(nug, va32 * u.mJy, CGS, distance=1 * u.kpc)
        check_close(out.value, va32.astype(float) * 1e-26 * np.array([1e11, 2e11, 4e11]), 'GHz, float32')
        assert out.dtype == np.float64
        out = convert_flux(nug, va32 * u.mJy, u.erg / u.s, distance=1 * u.kpc)
        check_close(out.value, va32.astype(float) * 1e-26 * np.array([1e11, 2e11, 4e11]) * KPC_CM ** 2, 'GHz, float32, L')
        # without a distance everything but luminosities works
        out = convert_flux(nug, va32 * u.Jy, u.W / u.m ** 2)
        check_close(out.value, va32.astype(float) * 1e-26 * np.array([1e11, 2e11, 4e11]), 'no distance')

        # unsupported units are refused: requested ...
        fn = files[0][0]
        for bad in [u.K, u.m, u.Jy / u.sr, u.erg / u.cm ** 3, u.dimensionless_unscaled, u.Hz]:
            expect_refused(lambda: SED.read(fn, unit_flux=bad), 'requested %s' % bad)
            expect_refused(lambda: convert_flux(nu, np.ones((2, len(nu))) * u.Jy, bad, distance=1 * u.kpc),
                           'convert to %s' % bad)
        # ... and stored
        for bad in ['K', 'm', 'Jy/sr', 'Hz', 'erg/cm^3']:
            bfn = os.path.join(tmpdir, 'bad.fits')
            write_sed_file(bfn, grids['asc'], np.ones((2, 17)), np.ones((2, 17)), bad,
                           distance_cm=KPC_CM)
            for requested in UNITS:
                expect_refused(lambda: SED.read(bfn, unit_flux=UNITS[requested]),
                               'stored %s' % bad)
            expect_refused(lambda: convert_flux(nu, np.ones((2, len(nu))) * u.Unit(bad), u.Jy,
                                                distance=1 * u.kpc), 'convert from %s' % bad)
        # luminosities need a distance
        expect_refused(lambda: convert_flux(nu, np.ones(len(nu)) * u.Jy, u.erg / u.s), 'no distance (to L)')
        expect_refused(lambda: convert_flux(nu, np.ones(len(nu)) * u.erg / u.s, u.Jy), 'no distance (from L)')
        expect_refused(lambda: SED.read(fn, order='flux'), 'bad order')

        # legacy strings
        assert parse_unit_safe('MJY') == u.mJy and parse_unit_safe('ergs/cm^2/s') == CGS
        assert parse_unit_safe('MICRONS') == u.micron and parse_unit_safe('HZ') == u.Hz
        assert parse_unit_safe('Jy') == u.Jy
        assert set(UNIT_MAPPING) >= {'MICRONS', 'HZ', 'MJY', 'ergs/cm^2/s'}

        if extra is not None:
            extra(dict(tmpdir=tmpdir, files=files, grids=grids, rng=rng))
    finally:
        shutil.rmtree(tmpdir, ignore_errors=True)
    print('demo OK: %d unit reads checked' % N_CHECKS[0])


def extra_q3(ctx):
    import inspect
    tmpdir = ctx['tmpdir']
    fn, stored, nu_file, f_file, e_file, d_eff = ctx['files'][11]
    ref = dict((c, SED.read(fn, unit_flux=UNITS[c])) for c in UNITS)

    def same(sed, c, what):
        assert np.array_equal(sed.flux.value, ref[c].flux.value), what
        assert np.array_equal(sed.error.value, ref[c].error.value), what
        assert sed.flux.unit == UNITS[c] and sed.name == ref[c].name, what
        assert sed == ref[c]

    # other forms of file name: Path (existing file; and gzipped file found
    # without the extension when the library supports that for Paths), bytes
    # and an open HDUList when supported.  Each form must give exactly what
    # the plain str gives, in every unit, also the second time.
    forms = [pathlib.Path(fn), pathlib.PurePath(fn), os.path.relpath(fn)]
    for form in forms:
        for rep in range(2):
            for c in UNITS:
                same(SED.read(form, unit_flux=UNITS[c]), c, 'form %r' % (form,))
    for c in UNITS:
        try:
            sed = SED.read(os.fsencode(fn), unit_flux=UNITS[c])
        except TypeError:
            break                       # bytes not supported by this version
        same(sed, c, 'bytes')
    with fits.open(fn, memmap=False) as hdulist:
        for rep in range(2):
            for c in UNITS:
                try:
                    sed = SED.read(hdulist, unit_flux=UNITS[c])
                except TypeError:
                    break               # HDUList not supported by this version
                same(sed, c, 'HDUList')
                # still open and usable
                assert hdulist[0].header['MODEL'] == ref[c].name
                assert hdulist[3].data is not None
    gz = os.path.join(tmpdir, 'zipped.fits')    # written by main() as .gz
    assert os.path.exists(gz + '.gz') and not os.path.exists(gz)
    by_str = SED.read(gz, unit_flux=u.erg / u.s)
    try:
        by_path = SED.read(pathlib.Path(gz), unit_flux=u.erg / u.s)
    except TypeError:
        by_path = None                  # not supported by this version
    if by_path is not None:
        assert np.array_equal(by_path.flux.value, by_str.flux.value)
        assert np.array_equal(by_path.error.value, by_str.error.value)
    # keyword arguments added at the end, with defaults reproducing the old
    # behaviour; documented order of the old ones unchanged
    params = list(inspect.signature(SED.read).parameters)
    assert params[:5] == ['filename', 'unit_wav', 'unit_freq', 'unit_flux', 'order'], params
    if 'memmap' in params:
        for mm in (False, True):
            for c in UNITS:
                same(SED.read(fn, unit_flux=UNITS[c], memmap=mm), c, 'memmap=%s' % mm)
    same(SED.read(fn, u.micron, u.Hz, UNITS['Jy'], 'nu'), 'Jy', 'positional')
    params = list(inspect.signature(convert_flux).parameters)
    assert params[:4] == ['nu', 'flux', 'target_unit', 'distance'], params
    nu = np.array([1e12, 2e13, 3e14]) * u.Hz
    va = np.array([[1., 2., 3.], [4., 5., 6.]])
    if 'dtype' in params:
        a = convert_flux(nu, va * u.mJy, u.erg / u.s, distance=1 * u.kpc)
        b = convert_flux(nu, va * u.mJy, u.erg / u.s, distance=1 * u.kpc, dtype=np.float64)
        assert np.array_equal(a.value, b.value) and a.dtype == np.float64
    # integer-valued and list-built quantities, numpy scalars for the distance
    out = convert_flux(u.Quantity([1000000, 2000000], u.MHz), u.Quantity([[1, 2]], u.Jy),
                       u.erg / u.s, distance=u.Quantity(np.float64(2.), u.kpc))
    check_close(out.value, np.array([[1., 2.]]) * 1e-23 * np.array([1e12, 2e12]) * (2 * KPC_CM) ** 2, 'int input')
    # refusals: still refused, by exceptions of (at least) the old types
    def refused_with(func, types, what):
        exc = expect_refused(func, what)
        assert isinstance(exc, types), (what, type(exc))
        assert str(exc)
    refused_with(lambda: convert_flux(nu, va * u.K, u.Jy, distance=1 * u.kpc), TypeError, 'stored K')
    refused_with(lambda: convert_flux(nu, va * u.Jy, u.K, distance=1 * u.kpc), Exception, 'to K')
    refused_with(lambda: convert_flux(nu, va * u.Jy, u.erg / u.s), TypeError, 'no distance')
    refused_with(lambda: convert_flux(nu, va * u.erg / u.s, u.erg / u.s), TypeError, 'no distance 2')
    refused_with(lambda: SED.read(fn, unit_flux=u.K), Exception, 'read K')
    refused_with(lambda: SED.read(fn, order='flux'), ValueError, 'order')
    refused_with(lambda: SED.read(os.path.join(tmpdir, 'missing.fits')), OSError, 'missing')
    refused_with(lambda: SED.read(None), TypeError, 'None')
    # repr never fails and does not change the object
    for sed in (SED(), ref['Jy']):
        text = repr(sed)
        assert isinstance(text, str) and text
    same(ref['Jy'], 'Jy', 'after repr')
    # an SED has no length and is always true, as before
    assert not hasattr(SED, '__len__') and bool(SED())


main(extra_q3)
