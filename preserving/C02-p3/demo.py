import sys, os
sys.path.insert(0, os.getcwd())

import io
import math
import shutil
import tempfile
import contextlib

import numpy as np
from astropy import units as u
from astropy.table import Table

import sedfitter
assert os.path.dirname(os.path.abspath(sedfitter.__file__)) == os.path.join(os.getcwd(), 'sedfitter'), sedfitter.__file__

from sedfitter.fit import Fitter
from sedfitter.source import Source
from sedfitter.extinction import Extinction
from sedfitter.convolved_fluxes import ConvolvedFluxes
from sedfitter.sed import SEDCube

N_CHECKS = [0]


def check(cond, msg):
    N_CHECKS[0] += 1
    if not cond:
        print("DEMO FAILURE: " + msg)
        sys.exit(1)


@contextlib.contextmanager
def quiet():
    with contextlib.redirect_stdout(io.StringIO()):
        yield


def make_extinction():
    e = Extinction()
    e.wav = np.logspace(-2., 3., 60) * u.micron
    e.chi = (e.wav.value ** -1.7 * 200.) * u.cm ** 2 / u.g
    return e


def write_conf(directory, step, version, apdep='yes'):
    with open(os.path.join(directory, 'models.conf'), 'w') as f:
        f.write("name = demo\n")
        f.write("length_subdir = 0\n")
        f.write("aperture_dependent = %s\n" % apdep)
        f.write("logd_step = %s\n" % repr(step))
        if version == 2:
            f.write("version = 2\n")


def write_filter(directory, name, wav_um, names, ap, ap_unit, table, dtype=float, overwrite=False):
    c = ConvolvedFluxes()
    c.central_wavelength = wav_um * u.micron
    c.model_names = np.array(names)
    c.apertures = np.asarray(ap, float) * ap_unit
    c.flux = np.asarray(table, dtype) * u.mJy
    c.error = np.asarray(table, dtype) * 0.01 * u.mJy
    os.makedirs(os.path.join(directory, 'convolved'), exist_ok=True)
    c.write(os.path.join(directory, 'convolved', name + '.fits'), overwrite=overwrite)


def write_cube(directory, names, ap_au, cube_wav_um, val):
    cube = SEDCube()
    cube.names = np.array(names)
    cube.distance = 1 * u.kpc
    cube.wav = np.asarray(cube_wav_um, float) * u.micron
    cube.nu = cube.wav.to(u.Hz, equivalencies=u.spectral())
    cube.apertures = np.asarray(ap_au, float) * u.au
    cube.val = np.asarray(val, float) * u.mJy
    cube.unc = cube.val * 0.01
    cube.write(os.path.join(directory, 'flux.fits'))


def make_source(valid, flux, error, name='src'):
    s = Source()
    s.name = name
    s.x = 1.
    s.y = 2.
    s.valid = np.array(valid, dtype=int)
    s.flux = np.array(flux, dtype=float)
    s.error = np.array(error, dtype=float)
    return s


# ---------------------------------------------------------------------------
# Independent computation of what property C02 promises
# ---------------------------------------------------------------------------

def expected_grid(dmin_kpc, dmax_kpc, step):
    """Fewest log-uniform points including both ends with spacing <= step"""
    if dmin_kpc == dmax_kpc:
        return np.array([dmin_kpc])
    span = math.log10(dmax_kpc) - math.log10(dmin_kpc)
    n = 2
    while span / (n - 1) > step:
        n += 1
    lo = math.log10(dmin_kpc)
    return np.array([10. ** (lo + span * i / (n - 1)) for i in range(n)])


def lin_interp_clamped(x, xp, fp):
    """Plain python linear interpolation; x beyond the last node -> last node"""
    order = sorted(range(len(xp)), key=lambda i: xp[i])
    xp = [float(xp[i]) for i in order]
    fp = [float(fp[i]) for i in order]
    if x >= xp[-1]:
        return fp[-1]
    assert x >= xp[0], "demo input outside the quantifier (theta*d below smallest aperture)"
    for i in range(len(xp) - 1):
        if xp[i] <= x <= xp[i + 1]:
            t = (x - xp[i]) / (xp[i + 1] - xp[i])
            return fp[i] * (1. - t) + fp[i + 1] * t
    raise AssertionError


def source_logs(source):
    w = np.zeros(len(source.valid))
    lf = np.zeros(len(source.valid))
    for j, v in enumerate(source.valid):
        if v == 1:
            lf[j] = math.log10(source.flux[j]) - 0.5 * (source.error[j] / source.flux[j]) ** 2 / math.log(10.)
            w[j] = (source.flux[j] * math.log(10.) / source.error[j]) ** 2
        elif v == 4:
            lf[j] = source.flux[j]
            w[j] = 1. / source.error[j] ** 2
        else:
            assert v == 0, "the demo only uses valid in (0, 1, 4)"
    return w, lf


def oracle(tables, ap_au, theta_arcsec, grid_kpc, source, k, av_min, av_max, single=False):
    """
    tables[f] is the (n_models, n_ap) table of filter f (mJy at 1 kpc), ap_au[f]
    the tabulated apertures (AU).  Returns chi2[m, d], av[m, d].
    """
    w, lf = source_logs(source)
    n_models = len(tables[0])
    chi2 = np.zeros((n_models, len(grid_kpc)))
    av = np.zeros((n_models, len(grid_kpc)))
    for m in range(n_models):
        for i, d in enumerate(grid_kpc):
            r = np.zeros(len(tables))
            for f in range(len(tables)):
                flux = lin_interp_clamped(theta_arcsec[f] * d * 1000., ap_au[f], tables[f][m]) * (1. / d) ** 2
                if single:
                    flux = float(np.float32(flux))
                    r[f] = lf[f] - float(np.log10(np.float32(flux)))
                else:
                    r[f] = lf[f] - math.log10(flux)
            a = float(np.sum(w * r * k) / np.sum(w * k * k))
            a = min(max(a, av_min), av_max)
            av[m, i] = a
            chi2[m, i] = float(np.sum(w * (r - a * k) ** 2))
    return chi2, av


def verify(info, names, tables, ap_au, theta_arcsec, dmin_kpc, dmax_kpc, step, source, k,
           av_min, av_max, label, single=False):
    grid = expected_grid(dmin_kpc, dmax_kpc, step)
    chi2, av = oracle(tables, ap_au, theta_arcsec, grid, source, k, av_min, av_max, single=single)
    rtol = 2e-4 if single else 1e-9
    atol = 2e-4 if single else 1e-9
    got_av = np.asarray(info.av, float)
    got_sc = np.asarray(info.sc, float)
    got_chi2 = np.asarray(info.chi2, float)
    got_names = [str(x).strip() for x in info.model_name]
    check(sorted(got_names) == sorted(names), label + ": every model reported exactly once")
    check(np.all(np.diff(got_chi2) >= 0), label + ": results sorted by chi2")
    logd = np.log10(grid)
    for j, nm in enumerate(got_names):
        m = names.index(nm)
        # the reported scale is log10(d/kpc) of a grid distance
        i = int(np.argmin(np.abs(logd - got_sc[j])))
        check(abs(logd[i] - got_sc[j]) <= 1e-11, "%s: model %s: scale %r is not a grid distance" % (label, nm, got_sc[j]))
        # the reported chi2 is the minimum over the grid (and the chi2 at the reported distance)
        check(abs(got_chi2[j] - chi2[m].min()) <= atol + rtol * abs(chi2[m].min()),
              "%s: model %s: chi2 %r is not the grid minimum %r" % (label, nm, got_chi2[j], chi2[m].min()))
        check(abs(got_chi2[j] - chi2[m, i]) <= atol + rtol * abs(chi2[m, i]),
              "%s: model %s: chi2 %r is not the chi2 at the reported distance %r" % (label, nm, got_chi2[j], chi2[m, i]))
        # the reported A_V is the clipped optimum at the reported distance
        check(abs(got_av[j] - av[m, i]) <= (2e-3 if single else 1e-9) * max(1., abs(av[m, i])),
              "%s: model %s: av %r is not the clipped optimum %r" % (label, nm, got_av[j], av[m, i]))
        check(av_min <= got_av[j] <= av_max, label + ": av inside the range")
    return grid


def same_info(a, b):
    return (np.array_equal(np.asarray(a.av, float), np.asarray(b.av, float)) and
            np.array_equal(np.asarray(a.sc, float), np.asarray(b.sc, float)) and
            np.array_equal(np.asarray(a.chi2, float), np.asarray(b.chi2, float)) and
            [str(x) for x in a.model_name] == [str(x) for x in b.model_name])


def random_tables(rng, n_models, n_ap, n_filt, monotone):
    tables = []
    for f in range(n_filt):
        t = rng.uniform(0.05, 3., size=(n_models, n_ap)) * 10. ** rng.uniform(-1, 2, size=(n_models, 1))
        if monotone:
            t = np.cumsum(t, axis=1)
        tables.append(t)
    return tables


def random_source(rng, tables, n_filt, with_special=False):
    base = np.array([t[rng.integers(len(t)), rng.integers(t.shape[1])] for t in tables])
    flux = base * 10. ** rng.uniform(-1.3, 0.3, size=n_filt)
    error = flux * rng.uniform(0.03, 0.2, size=n_filt)
    valid = np.ones(n_filt, dtype=int)
    if with_special and n_filt >= 3:
        valid[1] = 0
        valid[2] = 4
        flux[2] = np.log10(flux[2])
        error[2] = 0.05
    return make_source(valid, flux, error)


# ---------------------------------------------------------------------------
# Scenarios shared by all demonstrations
# ---------------------------------------------------------------------------

def names_for(n):
    return ['model_%04d' % i for i in range(n)]


def build_v1(directory, tables, ap, ap_unit, wavs, step, overwrite=False, dtype=float):
    names = names_for(len(tables[0]))
    write_conf(directory, step, 1)
    fnames = []
    for f, t in enumerate(tables):
        fn = 'F%d' % f
        write_filter(directory, fn, wavs[f], names, ap, ap_unit, t, dtype=dtype, overwrite=overwrite)
        fnames.append(fn)
    return names, fnames


def run_case(label, directory, fnames, names, tables, ap_au, thetas, drange, step, av_range,
             sources, ext, use_memmap=False, single=False, wavs=None, n_fitters=2):
    """Build the fitter (twice), fit every source (twice) and verify against the oracle"""
    dr_kpc = drange.to(u.kpc).value
    infos = []
    for rep in range(n_fitters):
        with quiet():
            fitter = Fitter(fnames, thetas, directory, extinction_law=ext, av_range=av_range,
                            distance_range=drange, use_memmap=use_memmap)
        k = np.asarray(ext.get_av(np.asarray(wavs, float) * u.micron), float)
        theta_arcsec = [float(t.to(u.arcsec).value) for t in thetas]
        these = []
        for s in sources:
            with quiet():
                info1 = fitter.fit(s)
                info2 = fitter.fit(s)
            check(same_info(info1, info2), label + ": second fit with the same fitter and source gives the same result")
            grid = verify(info1, names, tables, ap_au, theta_arcsec, dr_kpc[0], dr_kpc[1], step, s, k,
                          av_range[0], av_range[1], label, single=single)
            check(fitter.models.n_distances == len(grid), label + ": number of trial distances")
            check(np.allclose(fitter.models.distances.to(u.kpc).value, grid, rtol=1e-12, atol=0), label + ": trial distances")
            these.append(info1)
        infos.append(these)
    for a, b in zip(infos[0], infos[-1]):
        check(same_info(a, b), label + ": a second fitter built from the same files gives the same result")
    return infos[0]


def common_scenarios(tmp, ext):

    rng = np.random.default_rng(20240607)

    # A: version 1, 6 apertures, non-decreasing fluxes, theta*d partly beyond the largest aperture
    dA = os.path.join(tmp, 'A'); os.mkdir(dA)
    apA = np.logspace(2., 5., 6)
    wavA = [1.2, 4.5, 24.]
    tabA = random_tables(rng, 5, 6, 3, monotone=True)
    names, fn = build_v1(dA, tabA, apA, u.au, wavA, 0.02)
    srcs = [random_source(rng, tabA, 3), random_source(rng, tabA, 3, with_special=True)]
    run_case('A', dA, fn, names, tabA, [apA] * 3, [3., 5., 40.] * u.arcsec, [0.5, 4.] * u.kpc, 0.02,
             (0., 40.), srcs, ext, wavs=wavA)

    # B: 2 tabulated apertures, arbitrary (non monotonic) fluxes, narrow A_V range (clipping on both sides)
    dB = os.path.join(tmp, 'B'); os.mkdir(dB)
    apB = np.array([500., 20000.])
    wavB = [0.8, 3.6]
    tabB = random_tables(rng, 7, 2, 2, monotone=False)
    names, fn = build_v1(dB, tabB, apB, u.au, wavB, 0.05)
    srcs = [random_source(rng, tabB, 2) for i in range(3)]
    run_case('B', dB, fn, names, tabB, [apB] * 2, [2., 10.] * u.arcsec, [0.3, 8.] * u.kpc, 0.05,
             (0.5, 2.0), srcs, ext, wavs=wavB)

    # C: 8 apertures tabulated in pc, distance range given in pc, apertures in arcmin, dmin == dmax
    dC = os.path.join(tmp, 'C'); os.mkdir(dC)
    apC_au = np.logspace(2.5, 5.5, 8)
    apC_pc = (apC_au * u.au).to(u.pc).value
    wavC = [2.2, 8., 70.]
    tabC = random_tables(rng, 4, 8, 3, monotone=False)
    names, fn = build_v1(dC, tabC, apC_pc, u.pc, wavC, 0.025)
    srcs = [random_source(rng, tabC, 3, with_special=True)]
    apC_back = (apC_pc * u.pc).to(u.au).value
    run_case('C1', dC, fn, names, tabC, [apC_back] * 3, [0.05, 0.1, 0.5] * u.arcmin, [1500., 1500.] * u.pc, 0.025,
             (0., 10.), srcs, ext, wavs=wavC)
    run_case('C2', dC, fn, names, tabC, [apC_back] * 3, [0.05, 0.1, 0.5] * u.arcmin, [700., 9000.] * u.pc, 0.025,
             (-2., 10.), srcs, ext, wavs=wavC)

    # D: boundaries: range of exactly one dex with a step of 0.1 (11 distances); theta*dmin exactly on the
    #    smallest tabulated aperture; theta*dmax exactly on the largest; a range shorter than one step
    dD = os.path.join(tmp, 'D'); os.mkdir(dD)
    apD = np.array([1000., 3000., 10000., 50000.])
    wavD = [1.6, 5.8]
    tabD = random_tables(rng, 6, 4, 2, monotone=True)
    names, fn = build_v1(dD, tabD, apD, u.au, wavD, 0.1)
    srcs = [random_source(rng, tabD, 2)]
    run_case('D1', dD, fn, names, tabD, [apD] * 2, [1., 5.] * u.arcsec, [1., 10.] * u.kpc, 0.1,
             (0., 25.), srcs, ext, wavs=wavD)
    run_case('D2', dD, fn, names, tabD, [apD] * 2, [1., 5.] * u.arcsec, [2., 2.1] * u.kpc, 0.1,
             (0., 25.), srcs, ext, wavs=wavD)

    # E: version 2 package: one broadband and one monochromatic filter, with and without memory mapping
    dE = os.path.join(tmp, 'E'); os.mkdir(dE)
    apE = np.logspace(2., 5., 5)
    namesE = names_for(5)
    cube_wav = [1., 3., 10., 30.]
    val = np.cumsum(rng.uniform(0.1, 2., size=(5, 5, 4)), axis=1)
    write_cube(dE, namesE, apE, cube_wav, val)
    write_conf(dE, 0.03, 2)
    tabE0 = random_tables(rng, 5, 5, 1, monotone=True)[0]
    write_filter(dE, 'F0', 2.2, namesE, apE, u.au, tabE0)
    tabE = [tabE0, val[:, :, 2]]
    srcs = [random_source(rng, tabE, 2)]
    run_case('E-nomemmap', dE, ['F0', 10. * u.micron], namesE, tabE, [apE] * 2, [4., 12.] * u.arcsec,
             [0.2, 6.] * u.kpc, 0.03, (0., 30.), srcs, ext, use_memmap=False, wavs=[2.2, 10.])
    run_case('E-memmap', dE, ['F0', 10. * u.micron], namesE, tabE, [apE] * 2, [4., 12.] * u.arcsec,
             [0.2, 6.] * u.kpc, 0.03, (0., 30.), srcs, ext, use_memmap=True, single=True, wavs=[2.2, 10.])

    return rng


# ---------------------------------------------------------------------------
# Demonstration specific to this change: the package readers
# ---------------------------------------------------------------------------

import pathlib
from sedfitter.models import Models


def reader_checks(tmp, rng, ext):

    ap = np.array([300., 1000., 4000., 20000., 90000.])
    wavs = [1.2, 4.5, 12.]
    thetas = [2., 6., 25.] * u.arcsec
    av_range = (0., 15.)

    for version in (1, 2):

        d = os.path.join(tmp, 'P%d' % version); os.mkdir(d)
        tab = random_tables(rng, 6, 5, 3, monotone=(version == 1))
        names = names_for(6)
        fn = []
        for f, t in enumerate(tab):
            write_filter(d, 'F%d' % f, wavs[f], names, ap, u.au, t)
            fn.append('F%d' % f)
        if version == 2:
            write_cube(d, names, ap, [1., 10., 100.], rng.uniform(1., 2., size=(6, 5, 3)))

        # an unusual but legal models.conf: comments, blank lines, other spellings of the values
        with open(os.path.join(d, 'models.conf'), 'w') as f:
            f.write("# demo package\n\n")
            f.write("name   =   demo package\n")
            f.write("   \n")
            f.write("length_subdir=0\n")
            f.write("aperture_dependent =  YES\n")
            f.write("#logd_step = 0.5\n")
            f.write("logd_step = 4e-2\n")
            if version == 2:
                f.write("version = 2\n")
            f.write("\n")
        step = 0.04
        srcs = [random_source(rng, tab, 3), random_source(rng, tab, 3, with_special=True)]

        for drange in ([0.25, 3.] * u.kpc, [250., 3000.] * u.pc, [1.2, 1.2] * u.kpc,
                       ([0.25, 3.] * u.kpc).to(u.cm), [0.16, 0.16 * 10 ** 0.12] * u.kpc):
            infos = run_case('P%d-%s' % (version, drange.unit), d, fn, names, tab, [ap] * 3, thetas, drange, step,
                             av_range, srcs, ext, wavs=wavs)

        # the lower-level entry points, driven directly; the directory as a Path object
        filters = [{'aperture_arcsec': float(t.to(u.arcsec).value), 'name': n} for t, n in zip(thetas, fn)]
        drange = [0.25, 3.] * u.kpc
        k = np.asarray(ext.get_av(np.asarray(wavs) * u.micron), float)
        readers = [lambda: Models.read(d, filters, distance_range=drange, use_memmap=False),
                   lambda: Models.read(pathlib.Path(d), filters, distance_range=drange, use_memmap=False)]
        if version == 1:
            readers.append(lambda: Models._read_version_1(d, filters, distance_range=drange))
        else:
            readers.append(lambda: Models._read_version_2(d, filters, distance_range=drange, use_memmap=False))
        results = []
        for reader in readers:
            with quiet():
                m = reader()
            grid = expected_grid(0.25, 3., step)
            check(np.allclose(m.distances.to(u.kpc).value, grid, rtol=1e-12, atol=0), "reader: distances")
            check(np.allclose(m.logd, np.log10(grid), rtol=0, atol=1e-12), "reader: logd")
            check(m.fluxes.shape == (6, len(grid), 3), "reader: shape of the fluxes")
            # fluxes at each distance: interpolated to theta*d, times (1 kpc / d)^2
            fl = m.fluxes.to(u.mJy).value
            for f in range(3):
                for mi in range(6):
                    for i in (0, 1, len(grid) // 2, len(grid) - 1):
                        want = lin_interp_clamped(filters[f]['aperture_arcsec'] * grid[i] * 1000., ap, tab[f][mi]) / grid[i] ** 2
                        check(abs(fl[mi, i, f] - want) <= 1e-10 * want, "reader: flux of model %d at distance %d in filter %d" % (mi, i, f))
            for s in srcs:
                with quiet():
                    info = m.fit(s, k, -2. * np.ones(3), av_range[0], av_range[1])
                    info_again = m.fit(s, k, -2. * np.ones(3), av_range[0], av_range[1])
                check(same_info(info, info_again), "reader: second fit")
                verify(info, names, tab, [ap] * 3, [2., 6., 25.], 0.25, 3., step, s, k, av_range[0], av_range[1], 'reader-%d' % version)
                results.append(info)
        n = len(srcs)
        for j in range(n):
            check(same_info(results[j], results[n + j]) and same_info(results[j], results[2 * n + j]), "reader: all entry points agree")

        # the package can disappear once the fitter exists (nothing is read lazily for named filters)
        with quiet():
            fitter = Fitter(fn, thetas, d, extinction_law=ext, av_range=av_range, distance_range=drange, use_memmap=False)
            before = [fitter.fit(s) for s in srcs]
        shutil.move(d, d + '.moved')
        with quiet():
            after = [fitter.fit(s) for s in srcs]
        for a, b in zip(before, after):
            check(same_info(a, b), "fits do not depend on the files once the fitter exists")
        shutil.move(d + '.moved', d)

        # with remove_resolved some distances are dropped: what is reported is still on the grid and
        # cannot beat the minimum over the full grid
        with quiet():
            fitter = Fitter(fn, thetas, d, extinction_law=ext, av_range=av_range, distance_range=drange,
                            remove_resolved=True, use_memmap=False)
            info = fitter.fit(srcs[0])
        chi2, av = oracle(tab, [ap] * 3, [2., 6., 25.], grid, srcs[0], k, av_range[0], av_range[1])
        for j, nm in enumerate([str(x).strip() for x in info.model_name]):
            c = float(np.asarray(info.chi2, float)[j])
            if np.isfinite(c):
                mi = names.index(nm)
                i = int(np.argmin(np.abs(np.log10(grid) - float(np.asarray(info.sc, float)[j]))))
                check(abs(np.log10(grid)[i] - float(np.asarray(info.sc, float)[j])) < 1e-11, "remove_resolved: scale on the grid")
                check(abs(c - chi2[mi, i]) <= 1e-9 * max(1., chi2[mi, i]), "remove_resolved: chi2 at the reported distance")
                check(c >= chi2[mi].min() - 1e-9 * max(1., c), "remove_resolved: chi2 not below the grid minimum")

        # inputs that are refused are still refused, in the same way
        try:
            with quiet():
                Models.read(d, filters, distance_range=None)
        except Exception as e:
            check(type(e) is Exception and 'range is required' in str(e), "missing distance range: same exception")
        else:
            check(False, "missing distance range must be refused")
        try:
            with quiet():
                Fitter(fn, thetas, d, extinction_law=ext, av_range=av_range, distance_range=[0.05, 3.] * u.kpc, use_memmap=False)
        except Exception as e:
            check(type(e) is Exception and 'too small' in str(e), "too small an aperture: same exception")
        else:
            check(False, "too small an aperture must be refused")
        try:
            with quiet():
                Fitter(fn, thetas, os.path.join(tmp, 'no_such_package'), extinction_law=ext, av_range=av_range,
                       distance_range=drange, use_memmap=False)
        except OSError:
            pass
        else:
            check(False, "missing package must be refused")


def main():
    tmp = tempfile.mkdtemp()
    try:
        ext = make_extinction()
        rng = common_scenarios(tmp, ext)
        reader_checks(tmp, rng, ext)
    finally:
        shutil.rmtree(tmp, ignore_errors=True)
    print("demo OK (%d checks)" % N_CHECKS[0])


if __name__ == '__main__':
    main()
