import sys, os
sys.path.insert(0, os.getcwd())

import io
import shutil
import tempfile
import contextlib

import numpy as np
import matplotlib
matplotlib.use('Agg')
from astropy import units as u
from astropy import constants as const
from astropy.table import Table

import sedfitter
assert os.path.dirname(os.path.abspath(sedfitter.__file__)) == os.path.join(os.getcwd(), 'sedfitter'), sedfitter.__file__

from sedfitter.sed import SED, SEDCube
from sedfitter.extinction import Extinction
from sedfitter.fit import Fitter
from sedfitter.fit_info import FitInfoFile
from sedfitter.source import Source
from sedfitter.plot import plot

RTOL = 3e-3   # rounding of the constants used by the library (c = 3e8, kpc = 3.086e21)
N_CHECKED = [0]


def quiet(func, *args, **kwargs):
    with contextlib.redirect_stdout(io.StringIO()):
        return func(*args, **kwargs)


def make_package(directory, seed, n_models, n_wav, n_ap, dtype=float, wav_decreasing=False):
    rng = np.random.RandomState(seed)
    os.makedirs(directory)
    cube = SEDCube()
    cube.names = np.array(['m_{0:03d}'.format(i) for i in range(n_models)])
    cube.distance = 1 * u.kpc
    wav = np.logspace(-1., 3., n_wav)
    if wav_decreasing:
        wav = wav[::-1]
    cube.wav = wav * u.micron
    shape_sed = (1. + 0.5 * np.sin(np.log10(wav) * 2.)) * (wav / 10.) ** rng.uniform(-0.5, 1.0, (n_models, 1, 1))
    if n_ap > 1:
        cube.apertures = np.logspace(2., 5., n_ap) * u.au
        growth = np.cumsum(rng.uniform(0.2, 1., (n_models, n_ap, n_wav)), axis=1)
        val = shape_sed * growth
    else:
        cube.apertures = None
        val = shape_sed * rng.uniform(1., 2., (n_models, 1, n_wav))
    cube.val = val.astype(dtype) * u.mJy
    cube.unc = (val * 0.01).astype(dtype) * u.mJy
    cube.write(os.path.join(directory, 'flux.fits'))
    with open(os.path.join(directory, 'models.conf'), 'w') as f:
        f.write("name = demo\n")
        f.write("length_subdir = 0\n")
        f.write("aperture_dependent = {0}\n".format('yes' if n_ap > 1 else 'no'))
        f.write("logd_step = 0.05\n")
        f.write("version = 2\n")
    t = Table()
    t['MODEL_NAME'] = np.array(cube.names, dtype='S')
    t['par1'] = rng.uniform(size=n_models)
    t.write(os.path.join(directory, 'parameters.fits'))
    return cube


def make_law(seed):
    rng = np.random.RandomState(seed)
    law = Extinction()
    law.wav = np.logspace(-2., 4., 40) * u.micron
    law.chi = (law.wav.value ** -1.5 * rng.uniform(0.8, 1.2, 40) * 200.) * u.cm ** 2 / u.g
    return law


def independent_av_factor(law, wav_micron, av):
    lw = law.wav.to(u.micron).value
    lc = law.chi.value
    o = np.argsort(lw)
    chi = np.interp(wav_micron, lw[o], lc[o], left=0., right=0.)
    chi_v = np.interp(0.55, lw[o], lc[o])
    return 10. ** (-0.4 * av * chi / chi_v)


def independent_curve_value(cube, model_name, wav_micron, aperture_arcsec, sc, av, law):
    """nu F_nu in erg/cm^2/s of model at one tabulated wavelength, computed from the cube alone"""
    im = list(cube.names).index(model_name)
    iw = int(np.argmin(np.abs(cube.wav.to(u.micron).value - wav_micron)))
    assert abs(cube.wav.to(u.micron).value[iw] / wav_micron - 1) < 1e-10
    col = np.asarray(cube.val.to(u.mJy).value[im, :, iw], dtype=float)
    if cube.apertures is None:
        f_mjy = col[0]
    else:
        tab = cube.apertures.to(u.au).value
        d_pc = 10. ** sc * 1000.
        a = min(aperture_arcsec * d_pc, tab.max())
        assert a >= tab.min()
        k = int(np.clip(np.searchsorted(tab, a), 1, len(tab) - 1))
        w = (a - tab[k - 1]) / (tab[k] - tab[k - 1])
        f_mjy = col[k - 1] * (1 - w) + col[k] * w
    f_mjy = f_mjy * 10. ** (-2. * sc) * independent_av_factor(law, wav_micron, av)
    nu = const.c.si.value / (wav_micron * 1e-6)
    return f_mjy * 1e-26 * nu   # mJy -> erg/s/cm2/Hz is 1e-26, times nu


def shown_apertures(mode, ap):
    if mode == 'interp':
        return [None]
    if mode == 'largest':
        return [ap.max()]
    if mode == 'largest+smallest':
        return [ap.min(), ap.max()]
    if mode == 'all':
        return list(np.unique(ap))
    raise ValueError(mode)


def check_figures(figs, infos, cube, law, mode, n_sel, multi_ap):
    """The property as stated, on the LineCollection segments"""
    assert set(figs) == set(i.source.name for i in infos), (sorted(figs), [i.source.name for i in infos])
    for info in infos:
        filters = info.meta.filters
        wav = np.array([f['wav'].to(u.micron).value for f in filters])
        ap = np.array([f['aperture_arcsec'] for f in filters])
        shown = shown_apertures(mode, ap)
        n_fits = min(n_sel, len(info.chi2))
        segs = figs[info.source.name]['lines'].get_segments()
        assert len(segs) == n_fits * len(shown), (mode, len(segs), n_fits, len(shown))
        chi2 = np.asarray(info.chi2, float)
        assert np.all(np.diff(chi2) >= 0)
        # fits are drawn from worst to best: group g corresponds to fit n_fits-1-g, best fit last
        for g in range(n_fits):
            i = n_fits - 1 - g
            name = str(info.model_name[i]).strip()
            av = float(np.asarray(info.av, float)[i])
            sc = float(np.asarray(info.sc, float)[i])
            for j, shown_ap in enumerate(shown):
                seg = np.asarray(segs[g * len(shown) + j])
                assert seg.shape == (cube.n_wav, 2)
                assert np.allclose(np.sort(seg[:, 0]), np.sort(cube.wav.to(u.micron).value), rtol=1e-12)
                assert np.all(np.isfinite(seg))
                for k in range(len(filters)):
                    if shown_ap is not None and multi_ap and ap[k] != shown_ap:
                        continue
                    row = int(np.argmin(np.abs(seg[:, 0] - wav[k])))
                    assert abs(seg[row, 0] / wav[k] - 1) < 1e-10
                    drawn = seg[row, 1]
                    # (1) predicted flux stored with the fit (log10 mJy) -> nu F_nu
                    stored = 10. ** (float(info.model_fluxes[i, k]) - 26.) * const.c.si.value / (wav[k] * 1e-6)
                    assert abs(drawn / stored - 1) < RTOL, ('stored', mode, name, k, drawn, stored)
                    # (2) independent evaluation from the cube
                    indep = independent_curve_value(cube, name, wav[k], ap[k], sc, av, law)
                    assert abs(drawn / indep - 1) < RTOL, ('indep', mode, name, k, drawn, indep)
                    N_CHECKED[0] += 1


def run_case(tmp, label, n_ap, filt_idx, apertures_arcsec, seed, dtype=float, wav_decreasing=False,
             n_models=7, n_wav=45, modes=('interp', 'largest', 'largest+smallest', 'all'), n_sources=2):
    pkg = os.path.join(tmp, 'pkg_' + label)
    cube = make_package(pkg, seed, n_models, n_wav, n_ap, dtype=dtype, wav_decreasing=wav_decreasing)
    law = make_law(seed + 1)
    filters = [cube.wav[k].to(u.micron) for k in filt_idx]
    fitter = quiet(Fitter, filters, np.array(apertures_arcsec) * u.arcsec, pkg,
                   extinction_law=law, av_range=[0., 12.], distance_range=[0.8, 3.] * u.kpc)
    rng = np.random.RandomState(seed + 2)
    infos = []
    for isrc in range(n_sources):
        # source = one of the models, reddened and moved, plus noise
        m = rng.randint(n_models)
        sc_true = rng.uniform(0.0, 0.4)
        av_true = rng.uniform(0.5, 8.)
        fl = []
        for k, a in zip(filt_idx, apertures_arcsec):
            w = cube.wav.to(u.micron).value[k]
            v = independent_curve_value(cube, cube.names[m], w, a, sc_true, av_true, law)
            fl.append(v / (const.c.si.value / (w * 1e-6)) * 1e26 * rng.uniform(0.9, 1.1))
        line = 'src_{0}_{1} 0.0 0.0 '.format(label, isrc) + ' '.join(['1'] * len(fl)) + ' ' + \
            ' '.join('{0:.6e} {1:.6e}'.format(f, 0.1 * f) for f in fl)
        info = quiet(fitter.fit, Source.from_ascii(line))
        infos.append(info)
    # results as a file
    fname = os.path.join(tmp, 'fits_' + label + '.fitinfo')
    fout = FitInfoFile(fname, 'w')
    for info in infos:
        fout.write(info)
    fout.close()
    forms = {1: ('tuple', 'file'), 2: ('list',), 3: ('single', 'file'), 4: ('list',), 5: ('list', 'file')}
    for mode in modes:
        for n_sel in (1, 2, 3, 4, 5):
            for form in forms[n_sel]:
                expected = infos
                if form == 'list':
                    arg = list(infos)
                elif form == 'tuple':
                    arg = tuple(infos)
                elif form == 'single':
                    arg = infos[0]
                    expected = infos[:1]
                else:
                    arg = fname
                figs = quiet(plot, arg, select_format=('N', n_sel), sed_type=mode)
                check_figures(figs, expected, cube, law, mode, n_sel, n_ap > 1)
                # second call on the very same objects / file gives the same answer
                figs2 = quiet(plot, arg, select_format=('N', n_sel), sed_type=mode)
                check_figures(figs2, expected, cube, law, mode, n_sel, n_ap > 1)
                for key in figs:
                    s1 = figs[key]['lines'].get_segments()
                    s2 = figs2[key]['lines'].get_segments()
                    assert len(s1) == len(s2) and all(np.array_equal(a, b) for a, b in zip(s1, s2))
                # caller's objects untouched
                assert all(len(i.chi2) == n_models for i in infos)
    return pkg, cube, law, fitter, infos, fname


def extra_checks(tmp, results):
    """Checks aimed at the code touched by this change (overridden per demo)"""
    # interpolate_variable against a plain per-wavelength reference, called directly
    rng = np.random.RandomState(99)
    pkg, cube, law, fitter, infos, fname = results['multi']
    c = SEDCube.read(os.path.join(pkg, 'flux.fits'), memmap=False)
    for name in c.names[:4]:
        s = c.get_sed(name)
        tab = s.apertures.to(u.au).value
        sw = s.wav.to(u.micron).value
        for trial in range(6):
            nf = rng.randint(2, 7)
            fw = np.sort(rng.choice(sw, nf, replace=False))[::-1 if trial % 2 else 1].copy()
            fa = 10. ** rng.uniform(2., 5., nf)
            if trial == 2:
                fa[0] = tab.min()           # boundary: exactly the smallest tabulated aperture
            if trial == 3:
                fa[-1] = tab.max() * 3.     # larger than the table: documented reset to 0.999 max
            if trial == 4:
                fa[0] = tab[3]              # exactly on a node
            fa_in = fa.copy()
            got = np.asarray(s.interpolate_variable(fw.copy(), fa_in))
            got2 = np.asarray(s.interpolate_variable(fw.copy(), fa.copy()))   # same object again
            assert np.array_equal(got, got2)
            fa_eff = np.where(fa > tab.max(), tab.max() * 0.999, fa)
            o = np.argsort(fw)
            la = np.interp(np.log10(sw), np.log10(fw[o]), np.log10(fa_eff[o]))
            a = np.clip(10. ** la, tab.min(), tab.max())
            ref = np.empty(len(sw))
            fv = s.flux.value
            for iw in range(len(sw)):
                ref[iw] = np.interp(a[iw], tab, fv[:, iw])
            assert got.shape == ref.shape
            assert np.allclose(got, ref, rtol=1e-11, atol=0), np.max(np.abs(got / ref - 1))
            from scipy.interpolate import interp1d
            ref2 = interp1d(tab, fv.T)(a).diagonal()
            assert np.allclose(got, ref2, rtol=1e-12, atol=0)
        # unusual but legal: an SED whose aperture table is not sorted gives the same composite SED
        perm = rng.permutation(len(tab))
        s2 = SED()
        s2.name = s.name
        s2.distance = s.distance
        s2.wav = s.wav
        s2.nu = s.nu
        s2.apertures = s.apertures[perm]
        s2.flux = s.flux[perm, :]
        s2.error = s.error[perm, :]
        fw = sw[[3, 20, 37]].copy()
        fa = np.array([tab[1] * 1.3, tab[4], tab[-1] * 0.7])
        r1 = np.asarray(s.interpolate_variable(fw.copy(), fa.copy()))
        r2 = np.asarray(s2.interpolate_variable(fw.copy(), fa.copy()))
        assert np.allclose(r1, r2, rtol=1e-12, atol=0)
        # too small an aperture is still refused
        try:
            s.interpolate_variable(sw[:2].copy(), np.array([tab.min() * 0.5, tab.min() * 2]))
        except Exception as exc:
            assert 'too small' in str(exc)
        else:
            raise AssertionError('aperture below table accepted')


def main():
    tmp = tempfile.mkdtemp(prefix='demoC17_')
    try:
        results = {}
        # multi-aperture package, several distinct apertures
        results['multi'] = run_case(tmp, 'multi', 9, [8, 17, 23, 31, 40], [1.5, 3., 3., 6., 12.], seed=11)
        # multi-aperture, float32 cube stored with decreasing wavelength, filters given in non-monotonic order,
        # one aperture that exceeds the table at the far distances
        results['multi32'] = run_case(tmp, 'multi32', 6, [30, 5, 18], [2., 45., 8.], seed=23, dtype=np.float32,
                                      wav_decreasing=True)
        # single-aperture package
        results['single'] = run_case(tmp, 'single', 1, [6, 20, 33, 41], [2., 2., 5., 9.], seed=37)
        # boundary: one single filter/one source/first and last tabulated wavelength
        results['edge'] = run_case(tmp, 'edge', 4, [0, 44], [3., 3.], seed=41, n_sources=1, n_models=5)
        extra_checks(tmp, results)
    finally:
        shutil.rmtree(tmp, ignore_errors=True)
    assert N_CHECKED[0] > 1000
    print('OK: property C17 verified on {0} curve points'.format(N_CHECKED[0]))


if __name__ == '__main__':
    main()
