import sys, os; sys.path.insert(0, os.getcwd())

# ---------------------------------------------------------------------------
# Demonstration for property C08 (a planted model is recovered through the
# whole pipeline).  Self-contained: builds model packages in both formats and
# both fitting modes, synthesises photometry with an INDEPENDENT convolution /
# aperture interpolation / extinction / distance scaling, runs
# convolve_model_dir -> fit -> write_parameters and checks the first data row
# of the parameter table and the first record of the fit output file.
# ---------------------------------------------------------------------------

import io
import pickle
import shutil
import tempfile
import contextlib

import numpy as np
from astropy import units as u
from astropy.table import Table

import sedfitter
assert os.path.dirname(os.path.abspath(sedfitter.__file__)) == os.path.join(os.getcwd(), 'sedfitter'), sedfitter.__file__

from sedfitter import fit, write_parameters
from sedfitter.fit import Fitter
from sedfitter.source import Source
from sedfitter.convolve import convolve_model_dir
from sedfitter.extinction import Extinction
from sedfitter.filter import Filter
from sedfitter.sed import SED, SEDCube

C_LIGHT = 299792458.0
LN10 = np.log(10.)

NAMES = ['zeta_07', 'alpha_3', 'mu_x', 'beta', 'omega_1', 'gamma_22', 'delta', 'kappa_5']
N_MODELS = len(NAMES)
WAV = np.logspace(-1., 3., 150)                      # micron, increasing
APERTURES_AU = np.logspace(2., 5., 12)
FILTER_DEFS = [('fa', 2.0, 1.5, 2.5), ('fb', 4.1, 3.0, 5.0), ('fc', 7.7, 6.0, 10.0),
               ('fd', 14.0, 11.0, 17.0), ('fe', 21.5, 18.0, 26.0)]
MONO_WAV = [WAV[50], WAV[62], WAV[75], WAV[84], WAV[90]]   # exact grid wavelengths
AP_ARCSEC = np.array([1.5, 2.0, 2.0, 3.0, 3.0])
LOGD_STEP = 0.025
DRANGE_KPC = (1.0, 2.0)
AV_RANGE = (0., 10.)

QUIET = True


@contextlib.contextmanager
def quiet():
    if QUIET:
        buf = io.StringIO()
        with contextlib.redirect_stdout(buf), contextlib.redirect_stderr(buf):
            yield
    else:
        yield


def nu_of(wav_um):
    return C_LIGHT / (np.asarray(wav_um, float) * 1e-6)


# ------------------------------------------------------------------ models

def make_model_fluxes(rng):
    """flux[m, ap, w] in mJy, strongly different colours + curves of growth"""
    lw = np.log10(WAV)
    flux = np.zeros((N_MODELS, len(APERTURES_AU), len(WAV)))
    slopes = np.linspace(-2.0, 2.0, N_MODELS)[rng.permutation(N_MODELS)]
    for m in range(N_MODELS):
        base = 10. ** rng.uniform(0., 2.) * WAV ** slopes[m]
        for _ in range(3):
            c = rng.uniform(0.2, 1.4)
            base = base * (1. + rng.uniform(1., 6.) * np.exp(-(lw - c) ** 2 / 0.02))
        q = rng.uniform(0.05, 0.8) + 0.15 * rng.uniform(-1, 1) * lw
        q = np.clip(q, 0.02, None)
        growth = (APERTURES_AU[:, None] / APERTURES_AU[-1]) ** q[None, :]
        flux[m] = base[None, :] * growth
    return flux


def make_filters(rng):
    filters = []
    for name, cen, w1, w2 in FILTER_DEFS:
        fw = np.linspace(w2, w1, 60)
        resp = 0.2 + rng.random(60)
        resp[[0, -1]] = 0.
        f = Filter()
        f.name = name
        f.central_wavelength = cen * u.micron
        f.nu = (fw * u.micron).to(u.Hz, equivalencies=u.spectral())
        f.response = resp
        f.normalize()
        filters.append((f, fw, resp))
    return filters


def make_extinction():
    special = [0.55] + [d[1] for d in FILTER_DEFS] + list(MONO_WAV)
    w = np.unique(np.concatenate([np.logspace(-2., 3., 50), special]))
    e = Extinction()
    e.wav = w * u.micron
    e.chi = w ** -2 * u.cm ** 2 / u.g
    return e


def expected_av_law(wav_um):
    return -0.4 * (np.asarray(wav_um) / 0.55) ** -2


# ------------------------------------------- independent convolution

def _cumint(x, y, t):
    t = np.clip(t, x[0], x[-1])
    seg = 0.5 * (x[1:] - x[:-1]) * (y[1:] + y[:-1])
    cum = np.concatenate([[0.], np.cumsum(seg)])
    k = np.clip(np.searchsorted(x, t, side='right') - 1, 0, len(x) - 2)
    dx = t - x[k]
    slope = (y[k + 1] - y[k]) / (x[k + 1] - x[k])
    return cum[k] + y[k] * dx + 0.5 * slope * dx * dx


def indep_binned_response(fw_um, resp):
    """response of a (normalised) filter binned on the model frequency grid"""
    x = nu_of(fw_um)
    o = np.argsort(x)
    x, y = x[o], np.asarray(resp, float)[o]
    y = y / abs(np.sum(0.5 * (x[1:] - x[:-1]) * (y[1:] + y[:-1])))
    g = nu_of(WAV)[::-1]                                  # increasing frequency
    edges = np.concatenate([[g[0]], 0.5 * (g[1:] + g[:-1]), [g[-1]]])
    big = _cumint(x, y, edges)
    return (big[1:] - big[:-1])[::-1]                     # back to WAV order


def indep_band_fluxes(flux, filters, mode):
    """band[m, ap, j] : fluxes of every model in every band at 1 kpc"""
    if mode == 'bb':
        out = np.zeros(flux.shape[:2] + (len(filters),))
        for j, (f, fw, resp) in enumerate(filters):
            r = indep_binned_response(fw, resp)
            out[:, :, j] = np.sum(flux * r[None, None, :], axis=2)
        return out
    else:
        idx = [int(np.argmin(np.abs(WAV - w))) for w in MONO_WAV]
        return flux[:, :, idx].copy()


def indep_model_grid(band, apdep, logd):
    """log10 model fluxes: (m, j) or (m, d, j)"""
    if not apdep:
        return np.log10(band[:, 0, :])
    out = np.zeros((band.shape[0], len(logd), band.shape[2]))
    for k, ld in enumerate(logd):
        d_pc = 10. ** ld * 1000.
        for j in range(band.shape[2]):
            ap = min(AP_ARCSEC[j] * d_pc, APERTURES_AU[-1])
            for m in range(band.shape[0]):
                out[m, k, j] = np.log10(np.interp(ap, APERTURES_AU, band[m, :, j])) - 2. * ld
    return out


def indep_distance_grid():
    l0, l1 = np.log10(DRANGE_KPC[0]), np.log10(DRANGE_KPC[1])
    n = int(np.ceil(1 + (l1 - l0) / LOGD_STEP))
    return l0 + (l1 - l0) * np.arange(n) / (n - 1.)


def indep_fit(grid, apdep, logd, avlaw, logf, w):
    """brute-force independent fit of every model; returns chi2, av, sc arrays"""
    nm = grid.shape[0]
    chi2 = np.zeros(nm); av = np.zeros(nm); sc = np.zeros(nm)
    sw = np.sqrt(w)
    use = w > 0
    for m in range(nm):
        if not apdep:
            r = logf - grid[m]
            A = np.vstack([avlaw, -2. * np.ones_like(avlaw)]).T
            p = np.linalg.lstsq(A[use] * sw[use, None], r[use] * sw[use], rcond=None)[0]
            a = min(max(p[0], AV_RANGE[0]), AV_RANGE[1])
            if a != p[0]:
                rr = r - a * avlaw
                s = np.sum(w * rr * -2.) / np.sum(w * 4.)
            else:
                s = p[1]
            chi2[m] = np.sum(w * (r - a * avlaw + 2. * s) ** 2)
            av[m], sc[m] = a, s
        else:
            best = None
            for k in range(len(logd)):
                r = logf - grid[m, k]
                a = np.sum(w * r * avlaw) / np.sum(w * avlaw ** 2)
                a = min(max(a, AV_RANGE[0]), AV_RANGE[1])
                c = np.sum(w * (r - a * avlaw) ** 2)
                if best is None or c < best[0]:
                    best = (c, a, logd[k])
            chi2[m], av[m], sc[m] = best
    return chi2, av, sc


# ------------------------------------------------------------- packages

def build_package(root, version, apdep, flux, par, rng, conf_yes='yes', conf_no='no'):
    d = os.path.join(root, 'pkg_v%i_%s' % (version, 'ap' if apdep else 'noap'))
    os.mkdir(d)
    fl = flux if apdep else flux[:, -1:, :]
    if version == 1:
        os.mkdir(os.path.join(d, 'seds'))
        for m, name in enumerate(NAMES):
            s = SED()
            s.name = name
            s.distance = 1. * u.kpc
            s.wav = WAV * u.micron
            s.nu = s.wav.to(u.Hz, equivalencies=u.spectral())
            s.apertures = APERTURES_AU * u.au if apdep else None
            s.flux = fl[m] * u.mJy
            s.error = fl[m] * 0.01 * u.mJy
            s.write(os.path.join(d, 'seds', name + '_sed.fits'))
        order = rng.permutation(N_MODELS)
    else:
        cube = SEDCube()
        cube.names = np.array(NAMES)
        cube.distance = 1. * u.kpc
        cube.wav = WAV * u.micron
        cube.apertures = APERTURES_AU * u.au if apdep else None
        cube.val = fl * u.mJy
        cube.unc = fl * 0.01 * u.mJy
        cube.write(os.path.join(d, 'flux.fits'))
        order = np.arange(N_MODELS)       # must follow the cube (which is not alphabetical)
    with open(os.path.join(d, 'models.conf'), 'w') as f:
        f.write("name = demo\n")
        f.write("length_subdir = 0\n")
        f.write("aperture_dependent = %s\n" % (conf_yes if apdep else conf_no))
        f.write("logd_step = %s\n" % LOGD_STEP)
        if version == 2:
            f.write("version = 2\n")
    t = Table()
    t['par1'] = par[order, 0]
    t['MODEL_NAME'] = np.array([NAMES[i] for i in order], dtype='S30' if version == 1 else 'S')
    t['par2'] = par[order, 1]
    t['par3'] = par[order, 2]
    t.write(os.path.join(d, 'parameters.fits'))
    return d


def source_line(name, valid, flux, err):
    s = "%s 10.0 -5.0 " % name
    s += " ".join("%i" % v for v in valid) + " "
    s += " ".join("%.12e %.12e" % (f, e) for f, e in zip(flux, err))
    return s


def plant(grid, apdep, logd, avlaw, m, av0, where, rel, form='lin', extra=None):
    """returns dict with data line ingredients and expectations.
    `where` is a distance-grid index (apdep) or a scale (aperture-independent)"""
    if apdep:
        logf = grid[m, where] + av0 * avlaw
        sc0 = logd[where]
    else:
        logf = grid[m] + av0 * avlaw - 2. * where
        sc0 = where
    n = len(logf)
    valid = np.ones(n, int)
    if form == 'lin':
        # the fitter subtracts 0.5 (err/flux)^2 / ln(10) from log10(flux) (mean of the
        # log of a noisy quantity); the planted photometry allows for it so that the
        # planted solution is exact for any relative error
        flux = 10. ** (logf + 0.5 * rel ** 2 / LN10)
        err = rel * flux
    else:                                   # valid = 4 : log10 fluxes given
        valid[:] = 4
        flux = logf.copy()
        err = np.repeat(rel / LN10, n)
    if extra == 'drop':                     # unused band with garbage value
        valid[1] = 0
        flux[1] = -999.
        err[1] = -999.
    elif extra == 'upper':                  # upper limit well above the model
        valid[3] = 3
        flux[3] = 10. ** (logf[3] + 1.)
        err[3] = 0.9
    return dict(m=m, av0=av0, sc0=sc0, rel=rel, valid=valid, flux=flux, err=err)


def what_fitter_sees(p):
    """log10 fluxes and weights following the documented treatment"""
    v, f, e = p['valid'], p['flux'], p['err']
    logf = np.zeros(len(v)); w = np.zeros(len(v))
    r = v == 1
    logf[r] = np.log10(f[r]) - 0.5 * (e[r] / f[r]) ** 2 / LN10
    w[r] = (LN10 * f[r] / e[r]) ** 2
    r = v == 4
    logf[r] = f[r]
    w[r] = 1. / e[r] ** 2
    return logf, w


def read_first_records(filename):
    out = []
    with open(filename, 'rb') as fh:
        model_dir = pickle.load(fh)
        pickle.load(fh)
        pickle.load(fh)
        while True:
            try:
                out.append(pickle.load(fh))
            except EOFError:
                break
    return model_dir, out


def parse_parameter_file(filename):
    lines = open(filename).read().splitlines()
    header = lines[1].split()
    assert header[:5] == ['fit_id', 'model_name', 'chi2', 'av', 'scale'], header
    res = {}
    i = 3
    while i < len(lines):
        cols = lines[i].split()
        name, n_data, n_fits = cols[0], int(cols[1]), int(cols[2])
        rows = [lines[i + 1 + k].split() for k in range(n_fits)]
        res[name] = (n_data, rows)
        i += 1 + n_fits
    return header, res


CHECKS = [0]


def check(cond, msg):
    CHECKS[0] += 1
    if not cond:
        print("FAILED:", msg)
        sys.exit(1)


def run_package(root, version, apdep, mode, flux, filters, par, rng, extinction, tag='',
                conf_yes='yes', conf_no='no', data_as_handle=False, hook=None):
    """Build / convolve / fit / write for one package and check all planted sources."""

    with quiet():
        d = build_package(root, version, apdep, flux, par, rng, conf_yes=conf_yes, conf_no=conf_no)
        if mode == 'bb':
            convolve_model_dir(d, [f[0] for f in filters])
            # second call on the same files (overwriting): must give the same files
            convolve_model_dir(d, [f[0] for f in filters], overwrite=True)

    band = indep_band_fluxes(flux if apdep else flux[:, -1:, :], filters, mode)
    logd = indep_distance_grid()
    grid = indep_model_grid(band, apdep, logd)
    wavs = np.array([f[1] for f in FILTER_DEFS]) if mode == 'bb' else np.array(MONO_WAV)
    avlaw = expected_av_law(wavs)

    nd = len(logd)
    plants = {}
    specs = [
        ('src_a', 2, 3.7, nd // 3 if apdep else 0.35, 0.05, 'lin', None),
        ('src_b', 5, AV_RANGE[0], 0 if apdep else -0.5, 0.01, 'lin', None),          # A_V at lower boundary, nearest distance
        ('src_c', 0, AV_RANGE[1], nd - 1 if apdep else 1.25, 0.1, 'lin', None),       # A_V at upper boundary, farthest distance
        ('src_d', 7, 6.2, nd // 2 if apdep else 0., 0.02, 'log', None),              # log10 fluxes (valid = 4)
        ('src_e', 3, 1.5, 1 if apdep else 2.0, 0.05, 'lin', 'drop'),                 # one unused band
        ('src_f', 6, 8.9, nd - 2 if apdep else -1.0, 0.03, 'lin', 'upper'),          # one (inactive) upper limit
        ('src_g', 1, 0.4, 2 if apdep else 0.1, 0.2, 'lin', None),                    # large errors
        ('src_h', 4, 5.0, nd // 2 + 1 if apdep else 0.7, 1.e-4, 'lin', None),        # tiny errors
    ]
    lines = []
    for name, m, av0, where, rel, form, extra in specs:
        p = plant(grid, apdep, logd, avlaw, m, av0, where, rel, form=form, extra=extra)
        plants[name] = p
        lines.append(source_line(name, p['valid'], p['flux'], p['err']))

    data_file = os.path.join(root, 'data_%s%s' % (os.path.basename(d), tag))
    with open(data_file, 'w') as fh:
        fh.write("\n".join(lines) + "\n")

    if mode == 'bb':
        filter_names = [f[0] for f in FILTER_DEFS]
    else:
        filter_names = [w * u.micron for w in MONO_WAV]

    output = os.path.join(root, 'fits_%s%s' % (os.path.basename(d), tag))
    with quiet():
        data_arg = open(data_file) if data_as_handle else data_file
        fit(data_arg, filter_names, AP_ARCSEC * u.arcsec, d, output,
            extinction_law=extinction, distance_range=list(DRANGE_KPC) * u.kpc,
            av_range=list(AV_RANGE), output_format=('N', 3))
        if data_as_handle:
            data_arg.close()
        par_file = os.path.join(root, 'pars_%s%s' % (os.path.basename(d), tag))
        write_parameters(output, par_file)
        # second call on the same file, to a different output, all rows kept
        write_parameters(output, par_file + '_all', select_format=('A', 0))
        add = {'extra': dict((n, float(k)) for k, n in enumerate(NAMES))}
        write_parameters(output, par_file + '_add', select_format=('N', 2), additional=add)

    header, table = parse_parameter_file(par_file)
    header2, table_all = parse_parameter_file(par_file + '_all')
    header3, table_add = parse_parameter_file(par_file + '_add')
    check(header[5:] == ['par1', 'par2', 'par3'], "parameter header %s" % header)
    check(header3[5:] == ['par1', 'par2', 'par3', 'extra'], "parameter header (additional) %s" % header3)
    model_dir, records = read_first_records(output)
    check(model_dir == d, "model_dir in fit file")
    check([r.source.name for r in records] == [s[0] for s in specs], "sources in the fit file")

    label = "v%i %s %s%s" % (version, 'aperture-dependent' if apdep else 'aperture-independent', mode, tag)

    for rec in records:
        name = rec.source.name
        p = plants[name]
        logf, w = what_fitter_sees(p)
        chi2_i, av_i, sc_i = indep_fit(grid, apdep, logd, avlaw, logf, w)
        order = np.argsort(chi2_i)
        m = p['m']
        n_used = int(np.sum(w > 0))
        # --- premise: planted model is independently the best, and the others are far away
        check(order[0] == m, "%s %s: independent fit does not rank the planted model first" % (label, name))
        check(chi2_i[order[1]] > 50. * max(chi2_i[m], 0.02), "%s %s: degenerate package (second best chi2 %g vs %g)" % (label, name, chi2_i[order[1]], chi2_i[m]))
        chi2_tol = 1e-3
        # --- first record of the fit output file
        check(rec.model_name[0].strip() == NAMES[m], "%s %s: first record is %s, planted %s" % (label, name, rec.model_name[0], NAMES[m]))
        c0, a0, s0 = float(rec.chi2[0]), float(rec.av[0]), float(rec.sc[0])
        check(0. <= c0 + 1e-9 and c0 < chi2_tol, "%s %s: chi2 of the planted model %g (tolerance %g)" % (label, name, c0, chi2_tol))
        check(abs(a0 - p['av0']) < 2e-3, "%s %s: A_V %g planted %g" % (label, name, a0, p['av0']))
        check(abs(s0 - p['sc0']) < 2e-4, "%s %s: scale %g planted %g" % (label, name, s0, p['sc0']))
        # and against the independent fit (only single precision storage in between)
        check(abs(a0 - av_i[m]) < 2e-3, "%s %s: A_V %g independent %g" % (label, name, a0, av_i[m]))
        check(abs(s0 - sc_i[m]) < 2e-4, "%s %s: scale %g independent %g" % (label, name, s0, sc_i[m]))
        check(abs(c0 - chi2_i[m]) < 1e-3 + 0.02 * chi2_i[m], "%s %s: chi2 %g independent %g" % (label, name, c0, chi2_i[m]))
        check(len(rec.chi2) == 3 and np.all(np.diff(np.asarray(rec.chi2, float)) >= 0), "%s %s: records not sorted" % (label, name))
        check(rec.model_name[1].strip() == NAMES[order[1]], "%s %s: second record %s independent %s" % (label, name, rec.model_name[1], NAMES[order[1]]))
        # --- first data row of the parameter table(s)
        for tab, nrows, npar in ((table, 1, 3), (table_all, 3, 3), (table_add, 2, 4)):
            n_data, rows = tab[name]
            check(n_data == n_used and len(rows) == nrows, "%s %s: n_data / n_fits" % (label, name))
            row = rows[0]
            check(row[0] == '1' and row[1] == NAMES[m], "%s %s: first row is %s, planted %s" % (label, name, row[:2], NAMES[m]))
            check(row[2] == ('%10.3f' % c0).strip() and float(row[2]) < chi2_tol + 5e-4, "%s %s: chi2 column %s" % (label, name, row[2]))
            check(row[3] == ('%10.3f' % a0).strip() and abs(float(row[3]) - p['av0']) < 2.5e-3, "%s %s: av column %s" % (label, name, row[3]))
            check(row[4] == ('%10.3f' % s0).strip() and abs(float(row[4]) - p['sc0']) < 7e-4, "%s %s: scale column %s" % (label, name, row[4]))
            expect = [('%10.3e' % x).strip() for x in par[m]]
            if npar == 4:
                expect.append(('%10.3e' % float(m)).strip())
            check(row[5:] == expect, "%s %s: parameters %s expected %s (row of %s)" % (label, name, row[5:], expect, NAMES[m]))
            if nrows > 1:
                m2 = order[1]
                check(rows[1][1] == NAMES[m2] and rows[1][5:8] == [('%10.3e' % x).strip() for x in par[m2]], "%s %s: second row" % (label, name))

    print("ok   %-45s %i sources" % (label, len(records)))

    ctx = dict(d=d, grid=grid, logd=logd, avlaw=avlaw, plants=plants, specs=specs, output=output,
               filter_names=filter_names, records=records, data_file=data_file, par_file=par_file, label=label)
    if hook is not None:
        hook(ctx)
    return ctx


def fitter_reuse(ctx, extinction, apdep, use_memmap=False):
    """One Fitter, used several times on the same Source objects (and on altered ones)."""
    with quiet():
        fitter = Fitter(ctx['filter_names'], AP_ARCSEC * u.arcsec, ctx['d'], extinction_law=extinction,
                        distance_range=list(DRANGE_KPC) * u.kpc, av_range=list(AV_RANGE), use_memmap=use_memmap)
    sources = {}
    for line in open(ctx['data_file']):
        s = Source.from_ascii(line)
        sources[s.name] = s
    first = {}
    for rnd in range(3):
        for name in sorted(sources, reverse=bool(rnd % 2)):
            info = fitter.fit(sources[name])
            p = ctx['plants'][name]
            res = (info.model_name[0].strip(), float(np.asarray(info.chi2, float)[0]),
                   float(np.asarray(info.av, float)[0]), float(np.asarray(info.sc, float)[0]),
                   tuple(np.asarray(info.model_id)))
            check(res[0] == NAMES[p['m']], "%s %s: Fitter re-use round %i: %s first" % (ctx['label'], name, rnd, res[0]))
            check(abs(res[2] - p['av0']) < 2e-3 and abs(res[3] - p['sc0']) < 2e-4,
                  "%s %s: Fitter re-use round %i: av/scale" % (ctx['label'], name, rnd))
            if rnd == 0:
                first[name] = res
            else:
                check(res == first[name], "%s %s: repeated fit of the same source differs" % (ctx['label'], name))
    # the same Source object, altered IN PLACE to the photometry of another planted model
    s = sources['src_a']
    pa, ph = ctx['plants']['src_a'], ctx['plants']['src_h']
    s.flux[:] = ph['flux']
    s.error[:] = ph['err']
    info = fitter.fit(s)
    check(info.model_name[0].strip() == NAMES[ph['m']] and abs(float(np.asarray(info.av, float)[0]) - ph['av0']) < 2e-3,
          "%s: source altered in place is not re-evaluated" % ctx['label'])
    # and through the setters, back to the original
    s.flux = pa['flux'].copy()
    s.error = pa['err'].copy()
    info = fitter.fit(s)
    check(info.model_name[0].strip() == NAMES[pa['m']] and tuple(np.asarray(info.model_id)) == first['src_a'][4],
          "%s: source re-set through the setters" % ctx['label'])
    print("ok   %-45s Fitter re-used (use_memmap=%s)" % (ctx['label'], use_memmap))
    return fitter, sources


def main(extra=None, hook=None):
    root = tempfile.mkdtemp(prefix='c08demo_')
    try:
        rng = np.random.default_rng(20240607)
        flux = make_model_fluxes(rng)
        filters = make_filters(rng)
        par = np.column_stack([rng.random(N_MODELS), 1e3 * rng.random(N_MODELS), -1e-5 * rng.random(N_MODELS)])
        ext = make_extinction()
        ctxs = []
        ctxs.append((run_package(root, 1, False, 'bb', flux, filters, par, rng, ext, hook=hook), False))
        ctxs.append((run_package(root, 1, True, 'bb', flux, filters, par, rng, ext, conf_yes='y', data_as_handle=True, hook=hook), True))
        ctxs.append((run_package(root, 2, False, 'bb', flux, filters, par, rng, ext, conf_no='n', hook=hook), False))
        ctxs.append((run_package(root, 2, True, 'bb', flux, filters, par, rng, ext, conf_yes='YES', hook=hook), True))
        root2 = os.path.join(root, 'mono')
        os.mkdir(root2)
        run_package(root2, 2, True, 'mono', flux, filters, par, rng, ext, tag=' (wavelengths)', hook=hook)
        run_package(root2, 2, False, 'mono', flux, filters, par, rng, ext, tag=' (wavelengths)', hook=hook)
        for k, (ctx, apdep) in enumerate(ctxs):
            ctx['fitter'], ctx['sources'] = fitter_reuse(ctx, ext, apdep, use_memmap=bool(k % 2))
        if extra is not None:
            extra(root, ctxs, ext, dict(flux=flux, filters=filters, par=par, rng=rng))
        print("ALL OK (%i checks)" % CHECKS[0])
    finally:
        shutil.rmtree(root, ignore_errors=True)


# ---------------------------------------------------------------------------
# Specific to this change: Source.get_log_fluxes called repeatedly on the same
# object, with the object changed in every possible way in between
# ---------------------------------------------------------------------------

def ref_log_fluxes(valid, flux, error):
    n = len(valid)
    w = np.zeros(n); lf = np.zeros(n); le = np.zeros(n)
    for j in range(n):
        v, f, e = int(valid[j]), float(flux[j]), float(error[j])
        if v in (1, 9):
            lf[j] = np.log10(f) - 0.5 * (e / f) ** 2 / LN10
            le[j] = abs(e / f) / LN10
            if v == 1:
                w[j] = 1. / le[j] ** 2
        elif v in (2, 3):
            lf[j] = np.log10(f)
            le[j] = e
        elif v == 4:
            lf[j] = f
            le[j] = e
            w[j] = 1. / e ** 2
    return w, lf, le


def same(res, valid, flux, error, rtol=1e-13):
    ref = ref_log_fluxes(valid, flux, error)
    return (isinstance(res, tuple) and len(res) == 3 and
            all(type(a) is np.ndarray and a.dtype == np.float64 and a.shape == r.shape and
                np.allclose(a, r, rtol=rtol, atol=0, equal_nan=True) for a, r in zip(res, ref)))


def extra(root, ctxs, ext, stuff):
    import copy
    old = np.seterr(all='ignore')
    rng = np.random.default_rng(5)

    s = Source()
    s.name = 'probe'
    valid = np.array([1, 2, 3, 4, 9, 0, 1, 1])
    flux = np.array([1.5, 0.2, 30., -0.3, 2.2, -999., 7e-3, 4e5])
    error = np.array([0.1, 0.9, 0.5, 0.02, 0.3, -999., 7e-4, 1e5])
    s.valid, s.flux, s.error = valid.copy(), flux.copy(), error.copy()

    r1 = s.get_log_fluxes()
    check(same(r1, valid, flux, error), "get_log_fluxes (first call)")
    r2 = s.get_log_fluxes()
    check(same(r2, valid, flux, error), "get_log_fluxes (second call)")
    check(all(a is not b and not np.shares_memory(a, b) for a, b in zip(r1, r2)), "second call returns the same arrays")
    # results handed out are the caller's to modify (Models.fit does so)
    for a in r1 + r2:
        a[:] = -77.
    check(same(s.get_log_fluxes(), valid, flux, error), "get_log_fluxes after the caller modified earlier results")
    check(np.array_equal(s.valid, valid) and np.array_equal(s.flux, flux) and np.array_equal(s.error, error), "source modified")

    # changes IN PLACE of each of the three arrays, element by element
    for rnd in range(40):
        which = rnd % 3
        j = rng.integers(len(valid))
        if which == 0:
            flux[j] = s.flux[j] = abs(flux[j]) * rng.uniform(0.5, 2.) if valid[j] != 4 else rng.normal()
        elif which == 1:
            error[j] = s.error[j] = rng.uniform(0.01, 0.9)
        else:
            new = rng.choice([0, 1, 2, 3, 9]) if flux[j] > 0 else rng.choice([0, 4])
            valid[j] = s.valid[j] = new
        check(same(s.get_log_fluxes(), valid, flux, error), "get_log_fluxes after in-place change %i" % rnd)
        check(same(s.get_log_fluxes(), valid, flux, error), "get_log_fluxes after in-place change %i (again)" % rnd)
    # changing and changing back
    keep = s.flux[0]
    s.flux[0] = 123.
    s.get_log_fluxes()
    s.flux[0] = keep
    check(same(s.get_log_fluxes(), valid, flux, error), "changed back")

    # through the setters: other arrays, other dtypes, other layouts
    flux = np.array([3, 1, 30, 2, 2, 5, 7, 4])                   # integer fluxes
    s.flux = flux.copy()
    check(same(s.get_log_fluxes(), valid, flux, error), "integer fluxes")
    flux32 = flux.astype(np.float32) * np.float32(1.1)
    s.flux = flux32.copy()
    check(same(s.get_log_fluxes(), valid, flux32, error, rtol=1e-5), "single precision fluxes")
    s.flux = flux.astype(float).copy()                           # same values as the integers, other dtype
    check(same(s.get_log_fluxes(), valid, flux, error), "back to double precision")
    both = np.zeros(16)
    both[::2] = flux; both[1::2] = error
    s.flux = both[::2]; s.error = both[1::2]                     # strided views of one buffer (as from_ascii)
    check(same(s.get_log_fluxes(), valid, flux, error), "strided views")
    both[4] = 55.                                                 # change through the shared buffer
    flux = both[::2].copy()
    check(same(s.get_log_fluxes(), valid, flux, error), "change through the base of a view")
    s.error = list(error * 0.5)                                   # list input
    error = error * 0.5
    check(same(s.get_log_fluxes(), valid, flux, error), "list input")
    mflux = np.ma.array(flux.copy(), mask=False)                  # masked array (legal for the setter)
    s.flux = mflux
    res = s.get_log_fluxes()
    check(all(np.allclose(np.asarray(a), r, equal_nan=True) for a, r in zip(res, ref_log_fluxes(valid, flux, error))), "masked array input")
    mflux[0] = 17.
    flux[0] = 17.
    res = s.get_log_fluxes()
    check(all(np.allclose(np.asarray(a), r, equal_nan=True) for a, r in zip(res, ref_log_fluxes(valid, flux, error))), "masked array changed in place")
    s.flux = flux.copy()

    # shorter arrays after resetting
    s2 = Source()
    s2.valid, s2.flux, s2.error = [1, 1, 4], [1., 2., 0.5], [0.1, 0.1, 0.05]
    check(same(s2.get_log_fluxes(), [1, 1, 4], [1., 2., 0.5], [0.1, 0.1, 0.05]), "other source")
    check(same(s.get_log_fluxes(), valid, flux, error), "first source after another source was used")

    # copies, pickles, text round trip, comparison, str()
    for t in (copy.copy(s), copy.deepcopy(s), pickle.loads(pickle.dumps(s, 2)), pickle.loads(pickle.dumps(s)), Source.from_dict(s.to_dict())):
        check(t == s and same(t.get_log_fluxes(), valid, flux, error), "copy / pickle of a source")
        t.flux[1] *= 3.
        f2 = flux.copy(); f2[1] *= 3.
        check(same(t.get_log_fluxes(), valid, f2, error), "copy / pickle of a source, changed")
        if t.flux is not s.flux and not np.shares_memory(t.flux, s.flux):
            check(same(s.get_log_fluxes(), valid, flux, error), "original after its copy was changed")
        else:
            s.flux[1] /= 3.
    check(sorted(pickle.loads(pickle.dumps(s)).__getstate__().keys()) == ['error', 'flux', 'name', 'valid', 'x', 'y'], "pickled state")
    check(isinstance(str(s), str) and str(s) == str(s), "str()")
    # a source for which nothing is set fails as before
    try:
        Source().get_log_fluxes()
        check(False, "get_log_fluxes of an empty source did not fail")
    except AttributeError:
        check(True, "")
    np.seterr(**old)
    print("ok   Source.get_log_fluxes on changing sources")

    # Whole chain: ONE Source object re-used for every planted model of a package, changed in
    # place between the fits (boundary: the same values written again)
    for ctx, apdep in ctxs:
        fitter = ctx['fitter']
        s = Source()
        s.name = 'reused'
        p0 = ctx['plants']['src_a']
        s.valid, s.flux, s.error = p0['valid'].copy(), p0['flux'].copy(), p0['err'].copy()
        for rnd in range(2):
            for name in sorted(ctx['plants']):
                p = ctx['plants'][name]
                s.valid[:] = p['valid']
                s.flux[:] = p['flux']
                s.error[:] = p['err']
                for again in range(2):
                    info = fitter.fit(s)
                    check(info.model_name[0].strip() == NAMES[p['m']] and float(np.asarray(info.chi2, float)[0]) < 1e-3
                          and abs(float(np.asarray(info.av, float)[0]) - p['av0']) < 2e-3 and abs(float(info.sc[0]) - p['sc0']) < 2e-4,
                          "%s: re-used source, planted %s" % (ctx['label'], name))
                    check(info.source is s, "source of the result")
    print("ok   one Source object re-used for all planted models")


if __name__ == '__main__':
    main(extra=extra)
