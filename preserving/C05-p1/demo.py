import sys, os; sys.path.insert(0, os.getcwd())
import itertools, math, pickle, copy, tempfile, warnings
import numpy as np
warnings.simplefilter('ignore')
np.seterr(all='ignore')

import sedfitter
assert os.path.dirname(os.path.abspath(sedfitter.__file__)) == os.path.join(os.getcwd(), 'sedfitter'), sedfitter.__file__
from sedfitter.fit_info import FitInfo, FitInfoFile
from sedfitter.source import Source

FIELDS = ('av', 'sc', 'chi2', 'model_name', 'model_fluxes', 'model_id')
N_CHECKS = [0]


def make_source(valid):
    s = Source()
    s.name = 'src'
    s.x = 1.
    s.y = 2.
    s.valid = valid
    n = len(valid)
    s.flux = np.linspace(1., 2., n)
    s.error = np.full(n, 0.1)
    return s


def ref_n_data(valid):
    return sum(1 for v in valid if int(v) in (1, 4))


def make_info(chi2, valid, dtype=float, with_fluxes=True, seed=0):
    rng = np.random.RandomState(seed + len(chi2))
    n = len(chi2)
    info = FitInfo(make_source(valid))
    info.chi2 = np.array(chi2, dtype=dtype)
    info.av = rng.uniform(0, 10, n).astype(dtype)
    info.sc = rng.uniform(-1, 1, n).astype(dtype)
    info.model_name = np.array(['model_%03i' % i for i in range(n)], dtype='U30')
    info.model_fluxes = rng.normal(size=(n, len(valid))).astype(dtype) if with_fluxes else None
    info.sort()
    return info


def snapshot(info):
    return dict((f, None if getattr(info, f) is None else np.array(getattr(info, f), copy=True)) for f in FIELDS)


def ref_count(chi2_sorted, n_data, sel):
    """Independent pure-python reference: number of kept fits, and check that they form a prefix."""
    form, v = sel
    c = [float(x) for x in chi2_sorted]
    total = len(c)
    if form == 'A':
        return total
    if form == 'N':
        return min(int(v), total)
    kept = []
    for x in c:
        if form == 'C':
            stat = x
        elif form == 'D':
            stat = x - c[0]
        elif form == 'E':
            stat = x / n_data
        elif form == 'F':
            stat = (x - c[0]) / n_data
        if math.isfinite(stat):
            assert abs(stat - v) > 1e-4 * max(1., abs(v)), ('threshold too close to an attained value', stat, v)
        kept.append((not math.isnan(stat)) and stat < v)
    k = sum(kept)
    assert all(kept[:k]) and not any(kept[k:]), ('reference not a prefix', c, sel)
    return k


def same(a, b):
    if a is None or b is None:
        return a is None and b is None
    a = np.asarray(a); b = np.asarray(b)
    if a.shape != b.shape:
        return False
    if a.dtype.kind in 'fc':
        return bool(np.array_equal(a, b, equal_nan=True))
    return bool(np.array_equal(a, b))


def check_cut(info, before, k, ctx):
    assert info.n_fits == k, (ctx, info.n_fits, k)
    assert isinstance(len(info.chi2), int)
    for f in FIELDS:
        got = getattr(info, f)
        if before[f] is None:
            assert got is None, (ctx, f)
        else:
            assert len(got) == k, (ctx, f, len(got), k)
            assert same(got, before[f][:k]), (ctx, f)
            assert np.asarray(got).dtype == before[f].dtype, (ctx, f, 'dtype')
    N_CHECKS[0] += 1


def clone(base):
    """A fresh FitInfo whose arrays are the (shared, never to be modified in place) arrays of base."""
    c = FitInfo(base.source)
    for f in FIELDS:
        setattr(c, f, getattr(base, f))
    return c


def check_once(chi2, valid, sel, dtype=float, with_fluxes=True, base=None, before=None):
    if base is None:
        info = make_info(chi2, valid, dtype=dtype, with_fluxes=with_fluxes)
        before = snapshot(info)
    else:
        info = clone(base)
    nd = ref_n_data(valid)
    assert int(info.source.n_data) == nd
    k = ref_count(before['chi2'], nd, tuple(sel))
    info.keep(sel)
    check_cut(info, before, k, (chi2, valid, sel))
    # selecting a second time on the same object changes nothing
    info.keep(sel)
    check_cut(info, before, k, (chi2, valid, sel, 'twice'))
    # source untouched
    assert same(info.source.valid, np.array(valid))
    return k


def check_pair(chi2, valid, s1, s2):
    """If s1 is at least as loose as s2: s1 then s2 == s2 alone."""
    nd = ref_n_data(valid)
    a = make_info(chi2, valid)
    before = snapshot(a)
    k1 = ref_count(before['chi2'], nd, s1)
    k2 = ref_count(before['chi2'], nd, s2)
    if k1 < k2:
        s1, s2, k1, k2 = s2, s1, k2, k1
    a.keep(s1)
    check_cut(a, before, k1, (chi2, s1))
    a.keep(s2)
    check_cut(a, before, k2, (chi2, s1, s2))


ALPHABET = [0.5, 2.0, 7.25, np.inf, np.nan]   # repeated letters give ties
THRESH = [-1.0, 0.1, 0.3, 0.6, 0.9, 1.6, 2.1, 3.5, 5.0, 6.9, 7.3, 100.0]   # never equal to an attained statistic
VALIDS = [[1, 4, 0, 2, 3, 9, 1], [4, 9, 9], [1, 1, 2, 4, 4, 0, 3, 9, 1, 4]]   # n_data = 3, 1, 6


def selectors():
    sels = [('A', None), ('A', 3)]
    sels += [('N', n) for n in range(0, 8)]
    for form in 'CDEF':
        sels += [(form, v) for v in THRESH]
    return sels


def exhaustive():
    sels = selectors()
    for n in range(0, 6):
        for chi2 in itertools.product(ALPHABET, repeat=n):
            for iv, valid in enumerate(VALIDS):
                if iv > 0 and n > 3:
                    continue
                base = make_info(list(chi2), valid)
                before = snapshot(base)
                for sel in sels:
                    check_once(list(chi2), valid, sel, base=base, before=before)
                # the full arrays were never modified in place
                check_cut(base, before, n, 'base untouched')


def random_long(seed=123, ntrial=150):
    rng = np.random.RandomState(seed)
    sels = [('A', None)] + [('N', n) for n in (0, 1, 5, 17, 59, 60, 61, 1000)]
    # thresholds that cannot coincide with k/2 + 1/16, or differences k/2, divided by 1, 3, 4
    sels += [(form, v + 0.0171) for form in 'CDEF' for v in (-1, 0, 0.25, 1, 2.5, 4, 6, 9.5, 13, 19, 25)]
    for t in range(ntrial):
        n = rng.randint(6, 60)
        # half-integers plus an offset so that the threshold grid is never hit exactly
        chi2 = rng.randint(0, 40, n) * 0.5 + 0.0625
        chi2 = chi2.astype(float)
        for j in range(n):
            u = rng.uniform()
            if u < 0.1:
                chi2[j] = np.inf
            elif u < 0.2:
                chi2[j] = np.nan
        valid = VALIDS[t % 3] if t % 3 != 2 else [1, 4, 1, 4, 2, 0, 9, 3]   # n_data 3, 1, 4
        for sel in [sels[i] for i in rng.choice(len(sels), 12, replace=False)]:
            check_once(list(chi2), valid, sel, dtype=float if t % 2 else np.float32, with_fluxes=bool(t % 3))
        i, j = rng.choice(len(sels), 2, replace=False)
        check_pair(list(chi2), valid, sels[i], sels[j])


def compositions():
    sels = selectors()
    rng = np.random.RandomState(5)
    for n in range(0, 5):
        for chi2 in itertools.product(ALPHABET, repeat=n):
            idx = rng.choice(len(sels), 8, replace=False)
            for i in idx[:4]:
                for j in idx[4:]:
                    check_pair(list(chi2), VALIDS[0], sels[i], sels[j])


def unusual_forms():
    chi2 = [0.5, 0.5, 2.0, 7.25, 7.25, np.inf, np.nan]
    valid = [1, 4, 2, 9]
    # list instead of tuple, numpy scalars as numbers, integer thresholds, float N
    for sel in (['N', 3], ('N', np.int64(2)), ('N', 4.0), ('C', 3), ('D', np.float64(1.6)), ('E', np.float32(1.5)),
                ('F', 3), (np.str_('C'), 2.1), ('N', 1000), ('N', 0), ('C', 1e30), ('C', -1e30), ('F', 0.1)):
        check_once(chi2, valid, sel)
        check_once(chi2, valid, sel, dtype=np.float32)
    # float-valued flags (legal: integer-valued floats) and tuple flags
    for v in (np.array([1., 4., 0., 9.]), (1, 4, 4, 3, 2)):
        s = make_source(list(v))
        assert int(s.n_data) == ref_n_data(v)
    # in-place change of a flag must be seen by the next selection
    info = make_info(chi2, [1, 4, 2, 9])
    before = snapshot(info)
    assert int(info.source.n_data) == 2
    info.source.valid[2] = 1
    assert int(info.source.n_data) == 3
    info.keep(('E', 2.0))          # 0.5/3, 0.5/3, 2/3 kept, 7.25/3 = 2.41 not
    check_cut(info, before, 3, 'in-place flag change')
    # boundary: just above / just below an attained value
    for v, k in ((np.nextafter(2.0, 3.0), 3), (np.nextafter(2.0, 1.0), 2)):
        info = make_info(chi2, valid); before = snapshot(info)
        info.keep(('C', v)); check_cut(info, before, k, ('boundary', v))
    # unknown form is refused (non-empty result), wrong tuple length is refused
    info = make_info(chi2, valid)
    for bad in (('Z', 1), ('n', 1)):
        try:
            info.keep(bad)
        except Exception:
            pass
        else:
            raise AssertionError('unknown form accepted')
    for bad in (('N',), ('N', 1, 2)):
        try:
            info.keep(bad)
        except Exception:
            pass
        else:
            raise AssertionError('bad tuple accepted')
    assert info.n_fits == 7


def through_files():
    """Selection after a round trip through FitInfoFile / pickle / copy, and a second read of the same file."""
    chi2 = [7.25, 0.5, np.nan, 2.0, np.inf, 0.5]
    valid = [1, 4, 1, 2, 9]
    infos = [make_info(chi2, valid, seed=i, with_fluxes=bool(i % 2)) for i in range(3)]
    for i in infos:
        i.meta.model_dir = 'models'; i.meta.filters = [{'name': 'a'}]; i.meta.extinction_law = None
    befores = [snapshot(i) for i in infos]
    path = os.path.join(tempfile.mkdtemp(), 'x.fitinfo')
    fout = FitInfoFile(path, 'w')
    for i in infos:
        fout.write(i)
    fout.close()
    for sel, k in ((('N', 2), 2), (('F', 0.6), 3), (('A', 0), 6), (('C', 0.1), 0)):
        for rep in range(2):                      # read the same file twice
            fin = FitInfoFile(path, 'r')
            for got, before in zip(fin, befores):
                got.keep(sel)
                check_cut(got, before, k, ('file', sel))
                got2 = pickle.loads(pickle.dumps(got, 2))
                check_cut(got2, before, k, ('file+pickle', sel))
                got2.keep(sel)
                check_cut(got2, before, k, ('file+pickle+again', sel))
            fin.close()
        # in-memory FitInfoFile hands out copies: the caller's objects stay complete
        for got, before in zip(FitInfoFile(infos), befores):
            got.keep(sel)
            check_cut(got, before, k, ('list', sel))
        for orig, before in zip(infos, befores):
            check_cut(orig, before, 6, ('caller object untouched', sel))
        c = copy.deepcopy(infos[0]); c.keep(sel); check_cut(c, befores[0], k, 'deepcopy')


def extra():
    pass


#EXTRA#

if __name__ == '__main__':
    exhaustive()
    compositions()
    random_long()
    unusual_forms()
    through_files()
    extra()
    print('C05 demo OK: %i checks' % N_CHECKS[0])
