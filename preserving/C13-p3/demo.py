import sys, os; sys.path.insert(0, os.getcwd())
# Demonstration for C13, concentrating on which requests are accepted and
# which are refused by ConvolvedFluxes.interpolate, SED.interpolate and
# SED.interpolate_variable, and on the values returned for the accepted ones.

import warnings
warnings.filterwarnings('ignore')

import numpy as np
from astropy import units as u

import sedfitter
assert os.path.abspath(sedfitter.__file__).startswith(os.getcwd()), sedfitter.__file__
from sedfitter.convolved_fluxes import ConvolvedFluxes
from sedfitter.sed import SED

N_CHECKS = [0]
PC = u.pc.to(u.au)


def ref_interp(xs, ys, x):
    """Independent scalar reference: xs increasing python floats"""
    if x >= xs[-1]:
        return ys[-1]
    assert x >= xs[0], (x, xs[0])
    for k in range(len(xs) - 1):
        if xs[k] <= x <= xs[k + 1]:
            if x == xs[k]:
                return ys[k]
            if x == xs[k + 1]:
                return ys[k + 1]
            t = (x - xs[k]) / (xs[k + 1] - xs[k])
            return ys[k] + t * (ys[k + 1] - ys[k])
    raise AssertionError("unreachable")


def close(a, b, rtol=1e-9):
    a = np.asarray(a, dtype=float)
    b = np.asarray(b, dtype=float)
    scale = max(np.max(np.abs(b)), 1e-300) if b.size else 1.
    return a.shape == b.shape and np.all(np.abs(a - b) <= rtol * np.abs(b) + 1e-12 * scale)


def outcome(func, *args):
    """('ok', result) or ('refused', exception)"""
    try:
        return 'ok', func(*args)
    except Exception as exc:
        return 'refused', exc


def assert_refused_too_small(func, *args):
    kind, exc = outcome(func, *args)
    assert kind == 'refused', args
    # an ordinary exception (not SystemExit etc.), that says what is wrong
    assert isinstance(exc, Exception)
    assert str(exc).startswith("Aperture(s) requested too small"), str(exc)
    N_CHECKS[0] += 1


def plain(x):
    return np.asarray(getattr(x, 'value', x), dtype=float)


rng = np.random.RandomState(31313)

for n_ap in range(2, 9):
    for n_models in (1, 3, 6):

        # ------------------------------------------------------------------
        # Convolved fluxes
        # ------------------------------------------------------------------

        xs = np.cumsum(10. ** rng.uniform(0., 3., n_ap))
        lo, hi = xs[0], xs[-1]
        names = np.array(['m%i' % i for i in range(n_models)])
        flux = 10. ** rng.uniform(-3, 3, (n_models, n_ap)) * u.mJy
        error = flux * rng.uniform(0.01, 0.2, (n_models, n_ap))
        c = ConvolvedFluxes(wavelength=8. * u.micron, model_names=names,
                            apertures=xs * u.au, flux=flux, error=error)

        req = np.hstack([rng.uniform(lo, hi, 5), xs, 0.5 * (xs[1:] + xs[:-1]), [hi * 1.0001, hi * 30.]])
        rng.shuffle(req)

        forms = [('au', req * u.au, req),
                 ('strided view', (np.repeat(req, 2) * u.au)[::2], req),
                 # (single-precision requests: kept inside the table, since rounding the
                 # largest radius to single precision may move it)
                 ('single precision', req[(req > lo * 1.001) & (req < hi * 0.999)].astype(np.float32) * u.au,
                  req[(req > lo * 1.001) & (req < hi * 0.999)].astype(np.float32).astype(float)),
                 ('pc', (req[req > lo * 1.001] / PC) * u.pc, req[req > lo * 1.001]),
                 ('one request', req[:1] * u.au, req[:1])]

        for label, request, request_au in forms:
            for repeat in range(2):
                kind, r = outcome(c.interpolate, request)
                assert kind == 'ok', (label, r)
                assert np.all(r.model_names == names) and r.central_wavelength == 8. * u.micron
                assert r.flux.shape == (n_models, len(request_au)) and r.flux.unit == u.mJy
                assert close(r.apertures.to(u.au).value, np.minimum(request_au, hi), rtol=1e-7)
                for im in range(n_models):
                    for tab, res in ((flux, r.flux), (error, r.error)):
                        ys = [float(v) for v in tab.value[im]]
                        exp = [ref_interp(list(xs), ys, min(float(v), hi)) for v in request_au]
                        tol = 1e-9 if label not in ('pc', 'single precision') else 1e-6
                        assert close(res.value[im], exp, rtol=tol), (label, im)
                N_CHECKS[0] += 1

        # refused: anything below the smallest tabulated radius, however little and however few
        assert_refused_too_small(c.interpolate, np.array([lo * 0.5]) * u.au)
        assert_refused_too_small(c.interpolate, np.array([np.nextafter(lo, 0.)]) * u.au)
        assert_refused_too_small(c.interpolate, np.hstack([req, [lo * 0.99]]) * u.au)
        assert_refused_too_small(c.interpolate, np.array([lo * 0.9 / PC]) * u.pc)
        assert_refused_too_small(c.interpolate, np.array([lo * 0.9, hi * 10]) * u.au)
        # not refused: exactly the smallest
        kind, r = outcome(c.interpolate, np.array([lo]) * u.au)
        assert kind == 'ok' and close(r.flux.value[:, 0], flux.value[:, 0], rtol=1e-13)
        # bare numbers and wrong units are not accepted by this API
        assert outcome(c.interpolate, np.array([0.5 * (lo + hi)]))[0] == 'refused'
        assert outcome(c.interpolate, np.array([0.5 * (lo + hi)]) * u.s)[0] == 'refused'
        # the table is still usable after a refusal
        kind, r = outcome(c.interpolate, xs * u.au)
        assert kind == 'ok' and close(r.flux.value, flux.value, rtol=1e-13) and close(r.error.value, error.value, rtol=1e-13)

        # ------------------------------------------------------------------
        # SEDs
        # ------------------------------------------------------------------

        n_wav = 9
        sed = SED()
        sed.name = 'sed'
        sed.distance = 1. * u.kpc
        sed.wav = np.logspace(-1, 3, n_wav) * u.micron
        sed.apertures = xs * u.au
        sed.flux = 10. ** rng.uniform(-3, 3, (n_ap, n_wav)) * u.mJy
        sed.error = sed.flux * 0.1

        def expected(request_au):
            out = np.zeros((n_wav, len(request_au)))
            for iw in range(n_wav):
                ys = [float(v) for v in sed.flux.value[:, iw]]
                out[iw] = [ref_interp(list(xs), ys, min(float(v), hi)) for v in request_au]
            return out

        sel = req[req > lo * 1.001]
        sel32 = req[(req > lo * 1.001) & (req < hi * 0.999)].astype(np.float32)
        forms = [('bare', lambda: req.copy(), req, 1e-9),
                 ('bare strided', lambda: np.repeat(req, 3)[::3], req, 1e-9),
                 ('bare single precision', lambda: sel32.copy(), sel32.astype(float), 1e-6),
                 ('au', lambda: req * u.au, req, 1e-9),
                 ('pc', lambda: (sel / PC) * u.pc, sel, 1e-7),
                 ('km', lambda: (sel * u.au).to(u.km), sel, 1e-7)]

        for label, make, request_au, tol in forms:
            for repeat in range(2):
                kind, r = outcome(sed.interpolate, make())
                assert kind == 'ok', (label, r)
                assert close(plain(r), expected(request_au), rtol=tol), label
                N_CHECKS[0] += 1

        # sequences that are not arrays: if they are accepted, they must mean the same as the array
        for make in (lambda: list(req), lambda: tuple(req), lambda: [float(v) for v in req[:1]]):
            kind, r = outcome(sed.interpolate, make())
            if kind == 'ok':
                assert close(plain(r), expected(np.array(make())), rtol=1e-9)
                N_CHECKS[0] += 1
            else:
                assert isinstance(r, TypeError)

        assert_refused_too_small(sed.interpolate, np.array([lo * 0.5]))
        assert_refused_too_small(sed.interpolate, np.array([np.nextafter(lo, 0.)]))
        assert_refused_too_small(sed.interpolate, np.hstack([req, [lo * 0.99]]))
        assert_refused_too_small(sed.interpolate, np.array([lo * 0.9]) * u.au)
        assert_refused_too_small(sed.interpolate, np.array([lo * 0.9 / PC, hi]) * u.pc)
        kind, r = outcome(sed.interpolate, [lo * 0.5, hi])
        assert kind == 'refused'
        kind, r = outcome(sed.interpolate, np.array([lo, hi, 2 * hi]))
        assert kind == 'ok' and close(plain(r), expected([lo, hi, hi]), rtol=1e-12)
        assert outcome(sed.interpolate, np.array([hi]) * u.s)[0] == 'refused'

        # variable apertures: filters at SED wavelengths
        idx = rng.choice(np.arange(n_wav), 4, replace=False)
        fw = sed.wav.value[idx].copy()
        fa = rng.uniform(lo, hi, 4)
        fa[0] = lo
        fa[1] = hi
        for repeat in range(2):
            kind, r = outcome(sed.interpolate_variable, fw.copy(), fa.copy())
            assert kind == 'ok', r
            r = plain(r)
            assert r.shape == (n_wav,)
            for j, iw in enumerate(idx):
                ys = [float(v) for v in sed.flux.value[:, iw]]
                assert close(r[iw], ref_interp(list(xs), ys, fa[j]), rtol=1e-8), (j, iw)
            N_CHECKS[0] += 1
        kind, r2 = outcome(sed.interpolate_variable, list(fw), list(fa))
        if kind == 'ok':
            assert np.array_equal(plain(r2), r)
        else:
            assert isinstance(r2, TypeError)
        fa_bad = fa.copy()
        fa_bad[3] = lo * 0.9
        assert_refused_too_small(sed.interpolate_variable, fw.copy(), fa_bad)
        fa_bad[:] = lo * 0.1
        assert_refused_too_small(sed.interpolate_variable, fw.copy(), fa_bad)

# Single aperture: nothing is refused, the values are repeated
names = np.array(['a', 'b'])
c = ConvolvedFluxes(wavelength=8. * u.micron, model_names=names, apertures=np.array([50.]) * u.au,
                    flux=np.array([[1.], [2.]]) * u.mJy, error=np.array([[.1], [.2]]) * u.mJy)
for request in (np.array([1., 50., 1e4]) * u.au, np.array([1e-3]) * u.pc):
    for repeat in range(2):
        kind, r = outcome(c.interpolate, request)
        assert kind == 'ok'
        assert np.array_equal(r.flux.value, np.repeat([[1.], [2.]], len(request), axis=1))
        assert np.array_equal(r.error.value, np.repeat([[.1], [.2]], len(request), axis=1))
        assert np.all(r.model_names == names)
        N_CHECKS[0] += 1

sed = SED()
sed.wav = np.array([1., 10., 100.]) * u.micron
sed.apertures = np.array([50.]) * u.au
sed.flux = np.array([[3., 4., 5.]]) * u.mJy
for request in (np.array([1., 50., 1e4]), np.array([1e-3]) * u.pc, [1., 2.]):
    kind, r = outcome(sed.interpolate, request)
    assert kind == 'ok'
    assert np.array_equal(plain(r), np.repeat([[3.], [4.], [5.]], len(request), axis=1))
    N_CHECKS[0] += 1

print("C13 demo p3: all %i checks passed" % N_CHECKS[0])
